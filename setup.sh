#!/bin/bash
# Offline setup: nothing to build (pure Python).  Verifies that the interpreter, the repository
# and the tooling needed by the checks are present.
set -e
cd "$(dirname "$0")"
mkdir -p evidence
PYTHONPATH=/repo:/verif PYTHONDONTWRITEBYTECODE=1 /venv/bin/python - <<'PY'
import warnings; warnings.simplefilter("ignore")
import pymbolic, numpy, immutabledict, pytools
import vf.spec, vf.refsem, vf.gen, vf.run
assert pymbolic.__file__.startswith("/repo/"), pymbolic.__file__
print("setup ok: pymbolic from", pymbolic.__file__)
PY
command -v gcc >/dev/null && echo "gcc present" || echo "gcc missing (C14 will not run)"

"""C16 reference model on specs: substitution / instantiation, AC normal forms, renaming detection,
triple shrinking.  Nothing in here calls a pymbolic mapper (no substitute, no flatten): the model
works on the neutral tuple specs of vf.spec only.
"""
from __future__ import annotations

from vf.spec import V, show

PRIM = ("int", "float", "bool", "complex", "str", "none", "type", "np", "frac", "opaque")
AC_TAGS = ("Sum", "Product")
COMM_TAGS = ("Sum", "Product", "LogicalOr", "LogicalAnd", "BitwiseOr", "BitwiseAnd",
             "BitwiseXor")


def is_spec(c) -> bool:
    return isinstance(c, tuple) and len(c) > 0 and isinstance(c[0], str)


def is_nary(s, tags=COMM_TAGS) -> bool:
    return s[0] in tags and len(s) == 2 and s[1][0] == "tuple"


def kids(s):
    """Children of an n-ary node."""
    return s[1][1:]


def mk(tag, ch):
    return (tag, ("tuple", *ch))


# {{{ instantiation (my own simultaneous substitution)

def instantiate(s, variables=None, dots=None, stars=None):
    """Replace Variable(name) by variables[name], DotWildcard(name) by dots[name] and splice
    stars[name] (a list of specs) for StarWildcard(name) into the enclosing tuple.
    Simultaneous: inserted values are not visited again."""
    variables = variables or {}
    dots = dots or {}
    stars = stars or {}

    def rec(c):
        t = c[0]
        if t in PRIM:
            return c
        if t == "Variable":
            return variables.get(c[1][1], c)
        if t == "DotWildcard":
            return dots.get(c[1][1], c)
        if t == "tuple":
            out = []
            for x in c[1:]:
                if x[0] == "StarWildcard" and x[1][1] in stars:
                    out.extend(stars[x[1][1]])
                else:
                    out.append(rec(x))
            return ("tuple", *out)
        return (t, *[rec(x) if is_spec(x) else x for x in c[1:]])
    return rec(s)

# }}}


# {{{ normal forms

def _map(s, f):
    if s[0] in PRIM:
        return s
    return (s[0], *[f(x) if is_spec(x) else x for x in s[1:]])


def ac_normal(s, unwrap_index=False, wrap_index=False):
    """Flatten Sum-in-Sum and Product-in-Product, sort the children of sums and products by repr.
    Optionally write a 1-tuple subscript index as the bare index (unwrap) or every subscript index
    as a tuple (wrap)."""
    def rec(c):
        if c[0] in PRIM:
            return c
        if is_nary(c, AC_TAGS):
            out = []
            for x in kids(c):
                x = rec(x)
                if x[0] == c[0] and is_nary(x, AC_TAGS):
                    out.extend(kids(x))
                else:
                    out.append(x)
            return mk(c[0], sorted(out, key=repr))
        c = _map(c, rec)
        if c[0] == "Subscript":
            if unwrap_index and c[2][0] == "tuple" and len(c[2]) == 2:
                c = (c[0], c[1], c[2][1])
            if wrap_index and c[2][0] != "tuple":
                c = (c[0], c[1], ("tuple", c[2]))
        return c
    return rec(s)


def bridge_normal(s):
    """What the matchpy round trip may change according to the statement: operand order of the
    commutative operators (no regrouping) and every subscript index written as a tuple."""
    def rec(c):
        if c[0] in PRIM:
            return c
        c = _map(c, rec)
        if is_nary(c, COMM_TAGS):
            return mk(c[0], sorted(kids(c), key=repr))
        if c[0] == "Subscript" and c[2][0] != "tuple":
            return (c[0], c[1], ("tuple", c[2]))
        return c
    return rec(s)


ZERO = ("int", 0)
ONE = ("int", 1)


def neutral_normal(s):
    """ac_normal plus: 0 dropped from sums, 1 dropped from products, a product with a factor 0 is
    0, one-child sums/products are the child, empty ones the neutral element.  Only used to
    *classify* an unsound record (value-preserving simplification or not), never to accept it.
    Returns (normal form, events) where events lists what was simplified away."""
    events = []

    def rec(c):
        if c[0] in PRIM:
            return c
        if is_nary(c, AC_TAGS):
            out = []
            for x in kids(c):
                x = rec(x)
                if x[0] == c[0] and is_nary(x, AC_TAGS):
                    out.extend(kids(x))
                else:
                    out.append(x)
            if c[0] == "Sum":
                n = sum(1 for x in out if x == ZERO)
                events.extend(["Sum:0"] * n)
                out = [x for x in out if x != ZERO]
                neutral = ZERO
            else:
                if ZERO in out:
                    events.append("Product:0-annihilates")
                    return ZERO
                n = sum(1 for x in out if x == ONE)
                events.extend(["Product:1"] * n)
                out = [x for x in out if x != ONE]
                neutral = ONE
            if not out:
                return neutral
            if len(out) == 1:
                return out[0]
            return mk(c[0], sorted(out, key=repr))
        return _map(c, rec)
    return rec(s), sorted(events)

# }}}


# {{{ renamings

def renaming_of(P, T):
    """If T is P with its variables renamed (same structure otherwise) return the map
    name -> name, else None."""
    m = {}

    def rec(p, t):
        if p[0] == "Variable":
            if t[0] != "Variable":
                return False
            return m.setdefault(p[1][1], t[1][1]) == t[1][1]
        if p[0] != t[0] or len(p) != len(t):
            return False
        if p[0] in PRIM:
            return p == t
        for x, y in zip(p[1:], t[1:]):
            if is_spec(x) and is_spec(y):
                if not rec(x, y):
                    return False
            elif x != y:
                return False
        return True
    return m if rec(P, T) else None


def completeness_applies(P, T, K):
    """T is P under an injective renaming of its variables that moves only declared candidates."""
    m = renaming_of(P, T)
    if m is None:
        return False
    if len(set(m.values())) != len(m):
        return False
    return all(n in K or n == v for n, v in m.items())

# }}}


# {{{ spec surgery

def subterms(s):
    """All expression sub-specs (nodes and constants; payload tuples are descended, not listed)."""
    if s[0] in PRIM:
        if s[0] != "str" and s[0] != "none":
            yield s
        return
    if s[0] != "tuple":
        yield s
    if s[0] == "Variable":
        return
    for x in s[1:]:
        if is_spec(x):
            yield from subterms(x)


def var_names(s):
    out = []
    for c in subterms(s):
        if c[0] == "Variable" and c[1][1] not in out:
            out.append(c[1][1])
    return out


def wildcard_names(s):
    dots, stars = [], []
    for c in subterms(s):
        if c[0] == "DotWildcard" and c[1][1] not in dots:
            dots.append(c[1][1])
        if c[0] == "StarWildcard" and c[1][1] not in stars:
            stars.append(c[1][1])
    return dots, stars


def replace_sub(s, old, new):
    """Replace every occurrence of the sub-spec *old* in *s* by *new*."""
    if s == old:
        return new
    if s[0] in PRIM or s[0] == "Variable":
        return s
    return (s[0], *[replace_sub(x, old, new) if is_spec(x) else x for x in s[1:]])


def positions(s, prefix=()):
    """(path, sub-spec) for every expression position (paths index into s[1:])."""
    if s[0] != "tuple":
        yield prefix, s
    if s[0] in PRIM or s[0] == "Variable":
        return
    for i, x in enumerate(s[1:]):
        if is_spec(x) and x[0] not in ("str", "none"):
            yield from positions(x, (*prefix, i))


def put_at(s, path, new):
    if not path:
        return new
    i = path[0] + 1
    return (*s[:i], put_at(s[i], path[1:], new), *s[i + 1:])


def rename_vars(s, m):
    return instantiate(s, variables={k: V(v) for k, v in m.items()})


def canon_triple(P, T, K, R=None):
    """Variables renamed v0, v1, ... in order of occurrence; K (and the right-hand candidate set
    R, when one is given) renamed along."""
    m = {}
    for n in var_names(P) + var_names(T):
        if n not in m:
            m[n] = f"v{len(m)}"

    def ren(names):
        return tuple(sorted(m[k] for k in names if k in m) + sorted(k for k in names if k not in m))
    if R is None:
        return rename_vars(P, m), rename_vars(T, m), ren(K)
    return rename_vars(P, m), rename_vars(T, m), ren(K), ren(R)


def show_triple(P, T, K, R=None):
    rhs = "" if R is None else f" rhs={{{','.join(R)}}}"
    return f"{show(P)} ~ {show(T)} / {{{','.join(K)}}}{rhs}"

# }}}


# {{{ shrinking a failing (pattern, target, candidates) triple

def _compound(s):
    return [c for c in subterms(s) if c[0] not in PRIM and c[0] != "Variable"]


def _size(s):
    return sum(1 for _ in subterms(s))


def shrink_triple(P, T, K, kind, kind_of, budget=150, R=None):
    """Greedy: keep a simplification when the triple still fails with the same kind.  R (the
    right-hand candidate set the caller's kind_of uses) is kept as it is and only renamed."""
    K = tuple(sorted(K))
    used = set(var_names(P)) | set(var_names(T)) | set(K)

    def fresh():
        i = 0
        while f"u{i}" in used:
            i += 1
        return f"u{i}"

    def candidates():
        for k in K:
            yield P, T, tuple(x for x in K if x != k), None
        seen = set()
        comp = sorted(_compound(T), key=lambda c: (-_size(c), repr(c))) \
            + sorted(_compound(P), key=lambda c: (-_size(c), repr(c)))
        for c in comp:
            if c in seen or c == T or c == P:
                continue
            seen.add(c)
            n = fresh()
            yield replace_sub(P, c, V(n)), replace_sub(T, c, V(n)), K, n
        for which in (0, 1):
            s = (T, P)[which]
            for path, c in positions(s):
                if is_nary(c, AC_TAGS) and len(kids(c)) > 2:
                    for j in range(len(kids(c))):
                        c2 = mk(c[0], kids(c)[:j] + kids(c)[j + 1:])
                        s2 = put_at(s, path, c2)
                        yield ((P, s2, K, None) if which == 0 else (s2, T, K, None))
        # children of sums / products in a canonical order (target, then pattern)
        def sort_ac(x):
            if x[0] in PRIM or x[0] == "Variable":
                return x
            x = (x[0], *[sort_ac(y) if is_spec(y) else y for y in x[1:]])
            if is_nary(x, AC_TAGS):
                return mk(x[0], sorted(kids(x), key=repr))
            return x
        yield P, sort_ac(T), K, None
        yield sort_ac(P), T, K, None
        consts = []
        for c in list(subterms(P)) + list(subterms(T)):
            if c[0] in ("int", "float", "bool", "complex", "np") and c not in consts:
                consts.append(c)
        for c in consts:
            n = fresh()
            yield replace_sub(P, c, V(n)), replace_sub(T, c, V(n)), K, n

    changed = True
    while changed and budget > 0:
        changed = False
        for P2, T2, K2, n in candidates():
            if (P2, T2, K2) == (P, T, K):
                continue
            budget -= 1
            try:
                k2 = kind_of(P2, T2, K2)
            except Exception:  # noqa: BLE001
                k2 = None
            if k2 == kind:
                P, T, K = P2, T2, K2
                if n is not None:
                    used.add(n)
                changed = True
                break
            if budget <= 0:
                break
    return canon_triple(P, T, K, R)

# }}}

"""Exact value domains used as oracles.

* ``Poly``   -- commutative multivariate polynomials over Q in named atoms.
* ``RatFun`` -- quotients of two Poly; equality by cross-multiplication (no gcd needed).
* ``NCPoly`` -- free non-commutative polynomials over Z/Q (detects reordering of factors).

All three interoperate with int / Fraction on either side of + - * (and / ** for RatFun).
Atoms are arbitrary hashable, orderable-by-repr objects (e.g. "x", ("sin", Fraction(7, 4))).
"""
from __future__ import annotations

from fractions import Fraction

_NUM = (int, Fraction)


def _isnum(x):
    return isinstance(x, _NUM) and not isinstance(x, bool)


# {{{ Poly

class Poly:
    __slots__ = ("t",)

    def __init__(self, terms=None):
        # terms: {monomial: coeff}; monomial = tuple of (atom, exp) sorted by repr(atom)
        self.t = {m: c for m, c in (terms or {}).items() if c != 0}

    @staticmethod
    def const(c):
        return Poly({(): Fraction(c)})

    @staticmethod
    def atom(a):
        return Poly({((a, 1),): Fraction(1)})

    @staticmethod
    def lift(x):
        if isinstance(x, Poly):
            return x
        if isinstance(x, bool):
            return Poly.const(int(x))
        if _isnum(x):
            return Poly.const(x)
        return None

    def is_zero(self):
        return not self.t

    def is_const(self):
        return all(m == () for m in self.t)

    def const_value(self):
        return self.t.get((), Fraction(0))

    def __add__(self, o):
        o = Poly.lift(o)
        if o is None:
            return NotImplemented
        r = dict(self.t)
        for m, c in o.t.items():
            r[m] = r.get(m, 0) + c
        return Poly(r)

    __radd__ = __add__

    def __neg__(self):
        return Poly({m: -c for m, c in self.t.items()})

    def __sub__(self, o):
        o = Poly.lift(o)
        if o is None:
            return NotImplemented
        return self + (-o)

    def __rsub__(self, o):
        return Poly.lift(o) + (-self)

    @staticmethod
    def _mulmono(a, b):
        d = dict(a)
        for k, e in b:
            d[k] = d.get(k, 0) + e
        return tuple(sorted(((k, e) for k, e in d.items() if e), key=lambda ke: repr(ke[0])))

    def __mul__(self, o):
        o = Poly.lift(o)
        if o is None:
            return NotImplemented
        r = {}
        for m1, c1 in self.t.items():
            for m2, c2 in o.t.items():
                m = Poly._mulmono(m1, m2)
                r[m] = r.get(m, 0) + c1 * c2
        return Poly(r)

    __rmul__ = __mul__

    def __pow__(self, n):
        assert isinstance(n, int) and n >= 0
        r = Poly.const(1)
        for _ in range(n):
            r = r * self
        return r

    def __eq__(self, o):
        o = Poly.lift(o)
        return o is not None and self.t == o.t

    def __hash__(self):
        return hash(frozenset(self.t.items()))

    def atoms(self):
        return {k for m in self.t for k, _ in m}

    def subs(self, env):
        """Substitute numbers/Polys/RatFuns for atoms (missing atoms stay)."""
        total = 0
        for m, c in self.t.items():
            term = c
            for k, e in m:
                v = env[k] if k in env else Poly.atom(k)
                term = term * v ** e
            total = total + term
        return total

    def degree_in(self, a):
        return max((e for m in self.t for k, e in m if k == a), default=0)

    def monomial_dict(self):
        return dict(self.t)

    def __repr__(self):
        if not self.t:
            return "0"
        parts = []
        for m, c in sorted(self.t.items(), key=lambda mc: repr(mc[0])):
            mono = "*".join(f"{k}" + (f"^{e}" if e != 1 else "") for k, e in m)
            parts.append(f"{c}" + (f"*{mono}" if mono else ""))
        return " + ".join(parts)

# }}}


# {{{ RatFun

class RatFun:
    __slots__ = ("n", "d")

    def __init__(self, n, d=None):
        n = Poly.lift(n)
        d = Poly.const(1) if d is None else Poly.lift(d)
        if d.is_zero():
            raise ZeroDivisionError("RatFun with zero denominator")
        if d.is_const():
            c = d.const_value()
            n = n * (1 / c)
            d = Poly.const(1)
        self.n, self.d = n, d

    @staticmethod
    def atom(a):
        return RatFun(Poly.atom(a))

    @staticmethod
    def lift(x):
        if isinstance(x, RatFun):
            return x
        p_ = Poly.lift(x)
        if p_ is None:
            return None
        return RatFun(p_)

    def __add__(self, o):
        o = RatFun.lift(o)
        if o is None:
            return NotImplemented
        if self.d == o.d:
            return RatFun(self.n + o.n, self.d)
        return RatFun(self.n * o.d + o.n * self.d, self.d * o.d)

    __radd__ = __add__

    def __neg__(self):
        return RatFun(-self.n, self.d)

    def __sub__(self, o):
        o = RatFun.lift(o)
        if o is None:
            return NotImplemented
        return self + (-o)

    def __rsub__(self, o):
        return RatFun.lift(o) + (-self)

    def __mul__(self, o):
        o = RatFun.lift(o)
        if o is None:
            return NotImplemented
        return RatFun(self.n * o.n, self.d * o.d)

    __rmul__ = __mul__

    def __truediv__(self, o):
        o = RatFun.lift(o)
        if o is None:
            return NotImplemented
        if o.n.is_zero():
            raise ZeroDivisionError("division by the zero rational function")
        return RatFun(self.n * o.d, self.d * o.n)

    def __rtruediv__(self, o):
        return RatFun.lift(o) / self

    def __pow__(self, e):
        if isinstance(e, RatFun):
            if not (e.n.is_const() and e.d.is_const()):
                raise TypeError("RatFun ** non-constant")
            e = e.n.const_value()
        if isinstance(e, Fraction) and e.denominator == 1:
            e = int(e)
        if isinstance(e, bool):
            e = int(e)
        if not isinstance(e, int):
            raise TypeError("RatFun ** non-integer")
        if e >= 0:
            return RatFun(self.n ** e, self.d ** e)
        if self.n.is_zero():
            raise ZeroDivisionError("0 ** negative")
        return RatFun(self.d ** (-e), self.n ** (-e))

    def __rpow__(self, b):
        return RatFun.lift(b) ** self

    def is_zero(self):
        return self.n.is_zero()

    def __bool__(self):
        return not self.n.is_zero()

    def __eq__(self, o):
        o = RatFun.lift(o)
        if o is None:
            return False
        return self.n * o.d == o.n * self.d

    def __hash__(self):
        # only stable for polynomials (d == 1); good enough for dict keys in tests
        return hash(self.n) if self.d == Poly.const(1) else 0

    def is_const(self):
        return (self.n * Poly.const(1)).is_const() and self.d.is_const()

    def const_value(self):
        return self.n.const_value() / self.d.const_value()

    def atoms(self):
        return self.n.atoms() | self.d.atoms()

    def subs(self, env):
        return RatFun.lift(self.n.subs(env)) / RatFun.lift(self.d.subs(env))

    def __repr__(self):
        if self.d == Poly.const(1):
            return f"({self.n!r})"
        return f"({self.n!r})/({self.d!r})"

# }}}


# {{{ NCPoly

class NCPoly:
    __slots__ = ("t",)

    def __init__(self, terms=None):
        self.t = {w: c for w, c in (terms or {}).items() if c != 0}

    @staticmethod
    def gen(a):
        return NCPoly({(a,): 1})

    @staticmethod
    def lift(x):
        if isinstance(x, NCPoly):
            return x
        if isinstance(x, bool):
            return NCPoly({(): int(x)})
        if _isnum(x):
            return NCPoly({(): x})
        return None

    def __add__(self, o):
        o = NCPoly.lift(o)
        if o is None:
            return NotImplemented
        r = dict(self.t)
        for w, c in o.t.items():
            r[w] = r.get(w, 0) + c
        return NCPoly(r)

    __radd__ = __add__

    def __neg__(self):
        return NCPoly({w: -c for w, c in self.t.items()})

    def __sub__(self, o):
        o = NCPoly.lift(o)
        if o is None:
            return NotImplemented
        return self + (-o)

    def __rsub__(self, o):
        return NCPoly.lift(o) + (-self)

    def __mul__(self, o):
        o = NCPoly.lift(o)
        if o is None:
            return NotImplemented
        r = {}
        for w1, c1 in self.t.items():
            for w2, c2 in o.t.items():
                r[w1 + w2] = r.get(w1 + w2, 0) + c1 * c2
        return NCPoly(r)

    def __rmul__(self, o):
        o = NCPoly.lift(o)
        if o is None:
            return NotImplemented
        return o * self

    def __pow__(self, n):
        if isinstance(n, bool) or not isinstance(n, int) or n < 0:
            raise TypeError("NCPoly ** needs a non-negative int")
        r = NCPoly({(): 1})
        for _ in range(n):
            r = r * self
        return r

    def __eq__(self, o):
        o = NCPoly.lift(o)
        return o is not None and self.t == o.t

    def __hash__(self):
        return hash(frozenset(self.t.items()))

    def __bool__(self):
        return bool(self.t)

    def __repr__(self):
        if not self.t:
            return "NC(0)"
        return "NC(" + " + ".join(
            f"{c}*{'.'.join(map(str, w)) or '1'}" for w, c in sorted(
                self.t.items(), key=lambda wc: repr(wc[0]))) + ")"

# }}}

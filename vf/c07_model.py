"""C07 helpers: neutral bracketing form of parse results (from CPython's ast and from pymbolic
trees) and a table-driven precedence-climbing reference parser.

The reference parser is instantiated with Python's binding-power table (validated against
``ast.parse`` on every enumerated string) and with that table plus the *named overrides* that
describe the known deviations of pymbolic's parser.
"""
from __future__ import annotations

import ast

BIN = ["+", "-", "*", "/", "//", "%", "**", "<<", ">>", "&", "|", "^",
       "<", "<=", ">", ">=", "==", "!=", "and", "or"]
CMP = {"<", "<=", ">", ">=", "==", "!="}
UN = ["-", "+", "~", "not"]


# {{{ neutral form

def neg(x):
    return prod([("c", -1), x])


def summ(xs):
    """n-ary sum = the left-associated chain ((x0 + x1) + x2) ...: only a sum in the FIRST
    position is spliced in; a + (b + c) keeps its right operand as a sum of its own (float
    addition is not associative)."""
    xs = list(xs)
    out = list(xs[0][1]) if xs and xs[0][0] == "sum" else xs[:1]
    out += xs[1:]
    return ("sum", tuple(out))


def _is_minus_one(x):
    return x[0] == "c" and type(x[1]) is int and x[1] == -1


def prod(xs):
    """Flattened product in sign-normal form: factors that are the literal -1 only contribute
    their parity, which is absorbed into a leading numeric literal or kept as one leading -1."""
    out = []
    for x in xs:
        out += list(x[1]) if x[0] == "prod" else [x]
    k = sum(1 for x in out if _is_minus_one(x))
    rest = [x for x in out if not _is_minus_one(x)]
    if k % 2:
        if rest and rest[0][0] == "c":
            v = rest[0][1]
            rest[0] = ("c", -(int(v) if isinstance(v, bool) else v))
        else:
            rest.insert(0, ("c", -1))
    if not rest:
        return ("c", 1)
    if len(rest) == 1:
        return rest[0]
    return ("prod", tuple(rest))


def mkbin(op, l, r):
    if op == "+":
        return summ([l, r])
    if op == "-":
        return summ([l, neg(r)])
    if op == "*":
        return prod([l, r])
    return ("bin", op, l, r)


def mkun(op, x):
    if op == "-":
        return neg(x)
    if op == "+":
        return x
    return ("un", op, x)


_OPS = {ast.Add: "+", ast.Sub: "-", ast.Mult: "*", ast.Div: "/", ast.FloorDiv: "//",
        ast.Mod: "%", ast.Pow: "**", ast.LShift: "<<", ast.RShift: ">>", ast.BitAnd: "&",
        ast.BitOr: "|", ast.BitXor: "^", ast.Lt: "<", ast.LtE: "<=", ast.Gt: ">",
        ast.GtE: ">=", ast.Eq: "==", ast.NotEq: "!=", ast.And: "and", ast.Or: "or",
        ast.USub: "-", ast.UAdd: "+", ast.Invert: "~", ast.Not: "not"}


class Unsupported(Exception):
    pass


def from_py(n):
    if isinstance(n, ast.Name):
        return ("v", n.id)
    if isinstance(n, ast.Constant):
        if isinstance(n.value, (int, float, bool, complex)):
            return ("c", n.value)
        raise Unsupported(repr(n.value))
    if isinstance(n, ast.BinOp):
        if type(n.op) not in _OPS:
            raise Unsupported(type(n.op).__name__)
        return mkbin(_OPS[type(n.op)], from_py(n.left), from_py(n.right))
    if isinstance(n, ast.UnaryOp):
        return mkun(_OPS[type(n.op)], from_py(n.operand))
    if isinstance(n, ast.BoolOp):
        vals = [from_py(v) for v in n.values]
        r = vals[0]
        for v in vals[1:]:
            r = ("bin", _OPS[type(n.op)], r, v)
        return r
    if isinstance(n, ast.Compare):
        if any(type(o) not in _OPS for o in n.ops):
            raise Unsupported("compare op")
        if len(n.ops) == 1:
            return ("bin", _OPS[type(n.ops[0])], from_py(n.left), from_py(n.comparators[0]))
        return ("chain", tuple(_OPS[type(o)] for o in n.ops),
                tuple(from_py(v) for v in [n.left, *n.comparators]))
    if isinstance(n, ast.IfExp):
        return ("if", from_py(n.test), from_py(n.body), from_py(n.orelse))
    if isinstance(n, ast.Tuple):
        return ("tuple", tuple(from_py(v) for v in n.elts))
    if isinstance(n, ast.Call):
        if any(k.arg is None for k in n.keywords) or any(
                isinstance(a, ast.Starred) for a in n.args):
            raise Unsupported("star args")
        return ("call", from_py(n.func), tuple(from_py(a) for a in n.args),
                tuple((k.arg, from_py(k.value)) for k in n.keywords))
    if isinstance(n, ast.Subscript):
        if isinstance(n.slice, ast.Slice):
            raise Unsupported("slice")
        return ("sub", from_py(n.value), from_py(n.slice))
    if isinstance(n, ast.Attribute):
        return ("attr", from_py(n.value), n.attr)
    raise Unsupported(type(n).__name__)


def from_pm(e):
    import pymbolic.primitives as p
    if isinstance(e, p.Variable):
        return ("v", e.name)
    if isinstance(e, (int, float, bool, complex)):
        return ("c", e)
    if isinstance(e, p.Sum):
        return summ([from_pm(c) for c in e.children])
    if isinstance(e, p.Product):
        return prod([from_pm(c) for c in e.children])
    two = {p.Quotient: "/", p.FloorDiv: "//", p.Remainder: "%"}
    if type(e) in two:
        return ("bin", two[type(e)], from_pm(e.numerator), from_pm(e.denominator))
    if isinstance(e, p.Power):
        return ("bin", "**", from_pm(e.base), from_pm(e.exponent))
    if isinstance(e, p.LeftShift):
        return ("bin", "<<", from_pm(e.shiftee), from_pm(e.shift))
    if isinstance(e, p.RightShift):
        return ("bin", ">>", from_pm(e.shiftee), from_pm(e.shift))
    nary = {p.BitwiseOr: "|", p.BitwiseXor: "^", p.BitwiseAnd: "&", p.LogicalOr: "or",
            p.LogicalAnd: "and"}
    if type(e) in nary:
        ks = [from_pm(c) for c in e.children]
        r = ks[0]
        for k in ks[1:]:
            r = ("bin", nary[type(e)], r, k)
        return r
    if isinstance(e, p.Comparison):
        return ("bin", e.operator, from_pm(e.left), from_pm(e.right))
    if isinstance(e, p.BitwiseNot):
        return ("un", "~", from_pm(e.child))
    if isinstance(e, p.LogicalNot):
        return ("un", "not", from_pm(e.child))
    if isinstance(e, p.If):
        return ("if", from_pm(e.condition), from_pm(e.then), from_pm(e.else_))
    if isinstance(e, tuple):
        return ("tuple", tuple(from_pm(c) for c in e))
    if isinstance(e, p.Call):
        return ("call", from_pm(e.function), tuple(from_pm(a) for a in e.parameters), ())
    if isinstance(e, p.CallWithKwargs):
        return ("call", from_pm(e.function), tuple(from_pm(a) for a in e.parameters),
                tuple((k, from_pm(v)) for k, v in e.kw_parameters.items()))
    if isinstance(e, p.Subscript):
        return ("sub", from_pm(e.aggregate), from_pm(e.index))
    if isinstance(e, p.Lookup):
        return ("attr", from_pm(e.aggregate), e.name)
    return ("other", type(e).__name__, repr(e))


def neutral_eval(t, env):
    """Plain-Python value of a neutral tree (chains included)."""
    import operator as op
    k = t[0]
    if k == "v":
        return env[t[1]]
    if k == "c":
        return t[1]
    if k == "sum":
        acc = 0
        for c in t[1]:
            acc = acc + neutral_eval(c, env)
        return acc
    if k == "prod":
        acc = 1
        for c in t[1]:
            acc = acc * neutral_eval(c, env)
        return acc
    if k == "bin":
        o = t[1]
        if o == "and":
            return neutral_eval(t[2], env) and neutral_eval(t[3], env)
        if o == "or":
            return neutral_eval(t[2], env) or neutral_eval(t[3], env)
        f = {"/": op.truediv, "//": op.floordiv, "%": op.mod, "**": op.pow, "<<": op.lshift,
             ">>": op.rshift, "&": op.and_, "|": op.or_, "^": op.xor, "<": op.lt, "<=": op.le,
             ">": op.gt, ">=": op.ge, "==": op.eq, "!=": op.ne}[o]
        a, b = neutral_eval(t[2], env), neutral_eval(t[3], env)
        if o == "**":
            from vf.refsem import guard_power
            guard_power(a, b)
        if o == "<<" and isinstance(b, int) and b > 4096:
            from vf.refsem import TooBig
            raise TooBig()
        return f(a, b)
    if k == "un":
        v = neutral_eval(t[2], env)
        return ~v if t[1] == "~" else (not v)
    if k == "if":
        return neutral_eval(t[2], env) if neutral_eval(t[1], env) else neutral_eval(t[3], env)
    if k == "chain":
        vals = [neutral_eval(c, env) for c in t[2]]
        f = {"<": op.lt, "<=": op.le, ">": op.gt, ">=": op.ge, "==": op.eq, "!=": op.ne}
        return all(f[o](a, b) for o, a, b in zip(t[1], vals, vals[1:]))
    if k == "tuple":
        return tuple(neutral_eval(c, env) for c in t[1])
    if k == "call":
        return neutral_eval(t[1], env)(*[neutral_eval(a, env) for a in t[2]],
                                       **{kk: neutral_eval(v, env) for kk, v in t[3]})
    if k == "sub":
        return neutral_eval(t[1], env)[neutral_eval(t[2], env)]
    if k == "attr":
        return getattr(neutral_eval(t[1], env), t[2])
    raise NotImplementedError(k)

# }}}


# {{{ table-driven reference parser

L = dict(COMMA=5, IF=75, OR=80, AND=90, NOT=95, CMP=100, BOR=110, BXOR=115, BAND=120, SHIFT=205,
         PLUS=210, TIMES=220, UNARY=225, POWER=230, CALL=250)

OVERRIDES = {
    "unary-over-power":
        "operand of prefix - + ~ not is parsed above ** (and above everything): "
        "-a**b -> (-a)**b, not a == b -> (not a) == b",
    "times-right-operand":
        "right operand of * is parsed at sum level: a*b//c -> a*(b//c), a*b/c -> a*(b/c)",
    "or-xor-one-level":
        "| and ^ share one precedence level: a | b ^ c -> (a | b) ^ c",
    "cmp-over-bitwise":
        "comparisons bind tighter than & ^ | : a & b == c -> a & (b == c)",
    "no-cmp-chains":
        "comparison chains are left-nested binaries: a < b < c -> (a < b) < c",
}


def table(overrides=()):
    """Python's binding powers, then the named overrides."""
    ov = set(overrides)
    unknown = ov - set(OVERRIDES)
    assert not unknown, unknown
    t = {"bin": {}, "un": {}, "opts": {}}

    def b(op, l, r=None):
        t["bin"][op] = (l, l if r is None else r)

    b("or", L["OR"])
    b("and", L["AND"])
    cmp_l = 200 if "cmp-over-bitwise" in ov else L["CMP"]
    for c in CMP:
        b(c, cmp_l)
    b("|", L["BOR"])
    b("^", L["BOR"] if "or-xor-one-level" in ov else L["BXOR"])
    b("&", L["BAND"])
    b("<<", L["SHIFT"])
    b(">>", L["SHIFT"])
    b("+", L["PLUS"])
    b("-", L["PLUS"])
    for o in ["*", "/", "//", "%"]:
        b(o, L["TIMES"])
    if "times-right-operand" in ov:
        b("*", L["TIMES"], L["PLUS"])
    # right operand of **: a 'factor' in Python (unary allowed, right-assoc)
    b("**", L["POWER"], L["UNARY"] - 1)
    if "unary-over-power" in ov:
        t["un"] = {k: 240 for k in UN}
    else:
        t["un"] = {"-": L["UNARY"] - 1, "+": L["UNARY"] - 1, "~": L["UNARY"] - 1,
                   "not": L["NOT"] - 1}
    t["opts"] = dict(chain="no-cmp-chains" not in ov, else_min=L["IF"] - 1, cond_min=L["IF"],
                     if_lbp=L["IF"])
    return t


class ModelError(Exception):
    pass


class Model:
    def __init__(self, tbl, toks):
        self.t = tbl
        self.toks = list(toks)
        self.i = 0

    def peek(self, k=0):
        return self.toks[self.i + k] if self.i + k < len(self.toks) else None

    def adv(self):
        self.i += 1

    def expect(self, tok):
        if self.peek() != tok:
            raise ModelError(f"expected {tok} at {self.i}")
        self.adv()

    def atom(self):
        tk = self.peek()
        if tk is None:
            raise ModelError("unexpected end")
        if tk == "(":
            self.adv()
            if self.peek() == ")":
                self.adv()
                return ("tuple!", ())
            r = self.expr(0)
            self.expect(")")
            if r[0] == "tuple":
                r = ("tuple!", r[1])      # closed by its parenthesis: nothing is appended
            return r
        if tk in self.t["bin"] or tk in (")", "]", ",", "if", "else", "=", ".", "[", "not", "~"):
            raise ModelError(f"unexpected {tk}")
        self.adv()
        if tk[0].isdigit() or tk[0] == ".":
            try:
                return ("c", int(tk, 10))
            except ValueError:
                pass
            try:
                return ("c", float(tk))
            except ValueError:
                try:
                    return ("c", complex(tk))
                except ValueError:
                    raise ModelError(f"bad literal {tk}") from None
        if tk == "True":
            return ("c", True)
        if tk == "False":
            return ("c", False)
        return ("v", tk)

    def postfix(self, left):
        while True:
            tk = self.peek()
            if tk == "(":
                self.adv()
                args, kw = [], []
                while self.peek() != ")":
                    if self.peek(1) == "=" and self.peek() is not None:
                        name = self.peek()
                        self.adv()
                        self.adv()
                        kw.append((name, self.expr(L["COMMA"])))
                    else:
                        if kw:
                            raise ModelError("positional after keyword")
                        args.append(self.expr(L["COMMA"]))
                    if self.peek() == ",":
                        self.adv()
                    elif self.peek() != ")":
                        raise ModelError("comma expected")
                self.adv()
                left = ("call", left, tuple(args), tuple(kw))
            elif tk == "[":
                self.adv()
                idx = self.expr(0)
                self.expect("]")
                left = ("sub", left, idx)
            elif tk == ".":
                self.adv()
                name = self.peek()
                self.adv()
                left = ("attr", left, name)
            else:
                return left

    def prefix(self):
        tk = self.peek()
        if tk in UN:
            self.adv()
            return mkun(tk, self.expr(self.t["un"][tk]))
        return self.postfix(self.atom())

    def expr(self, minp):
        left = self.prefix()
        while True:
            tk = self.peek()
            if tk is None or tk in (")", "]", "else", "="):
                return left
            if tk == ",":
                if not L["COMMA"] > minp:
                    return left
                self.adv()
                items = list(left[1]) if left[0] == "tuple" else [left]
                if self.peek() in (None, ")", "]"):
                    left = ("tuple", tuple(items))
                else:
                    items.append(self.expr(L["COMMA"]))
                    left = ("tuple", tuple(items))
                continue
            if tk == "if":
                if not self.t["opts"]["if_lbp"] > minp:
                    return left
                self.adv()
                cond = self.expr(self.t["opts"]["cond_min"])
                self.expect("else")
                left = ("if", cond, left, self.expr(self.t["opts"]["else_min"]))
                continue
            if tk in self.t["bin"]:
                lbp, rbp = self.t["bin"][tk]
                if not lbp > minp:
                    return left
                self.adv()
                if tk in CMP and self.t["opts"]["chain"]:
                    ops = [tk]
                    operands = [left, self.expr(rbp)]
                    while self.peek() in CMP:
                        ops.append(self.peek())
                        self.adv()
                        operands.append(self.expr(rbp))
                    left = (("bin", ops[0], operands[0], operands[1]) if len(ops) == 1
                            else ("chain", tuple(ops), tuple(operands)))
                    continue
                left = mkbin(tk, left, self.expr(rbp))
                continue
            raise ModelError(f"unexpected token {tk}")


def model_parse(tbl, toks):
    m = Model(tbl, toks)
    r = m.expr(0)
    if m.i != len(m.toks):
        raise ModelError("leftover input")
    return _unmark(r)


def _unmark(t):
    if isinstance(t, tuple):
        if t and t[0] == "tuple!":
            return ("tuple", _unmark(t[1]))
        return tuple(_unmark(c) for c in t)
    return t

# }}}

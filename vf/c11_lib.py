"""Helpers of C11: exact evaluators on specs (Fraction / RatFun / NCPoly), fragment predicates,
normal-form readers, enumerators.  Nothing in here uses a pymbolic mapper.
"""
from __future__ import annotations

import itertools
from fractions import Fraction

from vf.exact import NCPoly, Poly, RatFun
from vf.spec import C, T, V, spec_children, walk

# {{{ bounds (named constants)

RF_LEAVES = (V("x"), V("y"), C(0), C(1), C(2), C(-1))       # leaves of the rational fragment
RF_EXPONENTS = (-2, -1, 0, 1, 2, 3)                         # literal integer exponents
RF_QUICK_INNER_LEAVES = (V("x"), V("y"), C(1), C(2))        # leaves of depth-2 children (quick)
RF_QUICK_INNER_POWERS = ((V("x"), -1), (V("x"), 0), (V("x"), 2), (V("y"), -1), (V("y"), 2),
                         (C(2), -1), (C(2), 0), (C(2), 2))
RF_TERNARY_POOL_QUICK = 9                                   # pool size for Sum3/Product3 parents
RF_TERNARY_POOL_THOROUGH = 26
CHAIN4_OUTER = {"quick": (V("x"), C(2)), "thorough": (V("x"), C(2), C(0), C(1))}
CHAIN4_LEAVES = {"quick": (V("x"), C(0), C(1), C(2)),
                 "thorough": (V("x"), V("y"), C(0), C(1), C(2))}
CHAIN4_POWERS = (2, -1, 0)
BIGPOW_EXPONENTS = {"quick": range(4, 10), "thorough": range(4, 14)}
BIGPOW_NC_MAX = 9          # distribute(commutative=False) keeps all 2**n terms: only up to here
HISTORY_POOL = {"quick": 6, "thorough": 12}
POWPOW_EXPONENTS = {"quick": (-1, 2, 3), "thorough": (-2, -1, 0, 2, 3)}
QUOT_DENOMINATORS = {"quick": (3, -3, 5), "thorough": (3, -3, 5, 7, 6, 10)}   # not powers of two
POLY_MAX_EXP = 3                                            # exponents 0..3 in the poly4 family
SHORT_MANTISSA_BITS = 32
FLOAT_SETS = {                                              # boundary magnitudes of float constants
    "quick": ((2.0 ** -60, 3 * 2.0 ** -61), (2.0 ** -20, 1.5)),
    "thorough": ((2.0 ** -60, 3 * 2.0 ** -61), (2.0 ** -20, 1.5), (2.0 ** 30, 2.0 ** 12),
                 (5e-324, 2.0 ** -1000)),
}
BIGPOW_LINEAR = {"quick": range(10, 41), "thorough": range(10, 67)}   # exponents of (x+1) alone
MAX_FLOAT_DENOM = 4096                                      # decoding of folded float constants
FLOAT_DECODE_TOL = Fraction(1, 10 ** 9)

BOX_2 = (Fraction(-2), Fraction(-1), Fraction(0), Fraction(1), Fraction(2), Fraction(1, 2))
BOX_3 = (Fraction(-1), Fraction(0), Fraction(1), Fraction(2))
BOX_N = (Fraction(0), Fraction(1), Fraction(-2))

# }}}


class NotInFragment(Exception):
    """The spec is not an expression of the fragment the exact evaluator understands."""


# {{{ exact evaluation

def decode_float(f: float) -> Fraction:
    """A float constant -> the rational it stands for.  Dyadics with a small denominator or a
    short mantissa (<= SHORT_MANTISSA_BITS significant bits, any magnitude) are themselves; a
    float that arose from int/int division (constant folding uses Python's true division) is
    mapped to the unique rational with denominator <= MAX_FLOAT_DENOM next to it."""
    if f != f or f in (float("inf"), float("-inf")):
        raise NotInFragment("non-finite float")
    exact = Fraction(f)
    if exact.denominator <= MAX_FLOAT_DENOM \
            or exact.numerator.bit_length() <= SHORT_MANTISSA_BITS:
        return exact                        # a deliberate dyadic constant of any magnitude
    near = exact.limit_denominator(MAX_FLOAT_DENOM)
    if abs(near - exact) > FLOAT_DECODE_TOL * max(1, abs(near)):
        raise NotInFragment(f"float constant {f!r} is not a small rational")
    return near


FACE_VALUE = {"on": False}      # floats taken as the exact dyadic they are (no decoding)


def xeval(s, env, one=Fraction(1)):
    """Exact value of a spec of the rational fragment.  *env* maps variable names to Fractions,
    RatFuns or Polys.  Raises ZeroDivisionError where the expression is undefined and
    NotInFragment for anything else than Sum/Product/Quotient/Power(int literal)/leaves."""
    t = s[0]
    if t == "int":
        return Fraction(s[1])
    if t == "bool":
        return Fraction(int(s[1]))
    if t == "float":
        if FACE_VALUE["on"]:
            if s[1] != s[1] or s[1] in (float("inf"), float("-inf")):
                raise NotInFragment("non-finite float")
            return Fraction(s[1])
        return decode_float(s[1])
    if t == "frac":
        return Fraction(s[1], s[2])
    if t == "Variable":
        return env[s[1][1]]
    if t == "Sum":
        acc = Fraction(0)
        for c in s[1][1:]:
            acc = acc + xeval(c, env)
        return acc
    if t == "Product":
        acc = Fraction(1)
        for c in s[1][1:]:
            acc = acc * xeval(c, env)
        return acc
    if t == "Quotient":
        n = xeval(s[1], env)
        d = xeval(s[2], env)
        if isinstance(d, Fraction):
            if d == 0:
                raise ZeroDivisionError("division by zero")
            if isinstance(n, Fraction):
                return n / d
            return n * (1 / d)
        return n / d
    if t == "Power":
        e = s[2]
        if e[0] in ("float",) and float(e[1]).is_integer():
            e = ("int", int(e[1]))
        if e[0] != "int":
            raise NotInFragment("exponent is not an integer literal")
        b = xeval(s[1], env)
        n = e[1]
        if isinstance(b, Fraction):
            if b == 0 and n < 0:
                raise ZeroDivisionError("0 ** negative")
            return b ** n
        return b ** n                      # RatFun handles negative exponents / zero base
    raise NotInFragment(t)


def rf_value(s, names, face_value=False):
    """Spec -> RatFun over formal atoms (may raise ZeroDivisionError / NotInFragment).  With
    *face_value* float constants are the exact dyadic rationals they are."""
    env = {n: RatFun.atom(n) for n in names}
    FACE_VALUE["on"] = face_value
    try:
        return RatFun.lift(xeval(s, env))
    finally:
        FACE_VALUE["on"] = False


def nc_eval(s, env):
    """Value in the free non-commutative ring (products keep their order)."""
    t = s[0]
    if t == "int":
        return NCPoly({(): s[1]})
    if t == "Variable":
        return env[s[1][1]]
    if t == "Sum":
        acc = NCPoly({})
        for c in s[1][1:]:
            acc = acc + nc_eval(c, env)
        return acc
    if t == "Product":
        acc = NCPoly({(): 1})
        for c in s[1][1:]:
            acc = acc * nc_eval(c, env)
        return acc
    if t == "Power":
        if s[2][0] != "int" or s[2][1] < 0:
            raise NotInFragment("nc power")
        return nc_eval(s[1], env) ** s[2][1]
    raise NotInFragment(t)


def box_for(names):
    n = len(names)
    dom = BOX_2 if n <= 2 else (BOX_3 if n == 3 else BOX_N)
    if n > 6:
        dom = BOX_N[:2]
    for vals in itertools.product(dom, repeat=n):
        yield dict(zip(names, vals))

# }}}


# {{{ fragment predicates (on input specs)

_CONST = ("int", "float", "bool")


def is_rational(s) -> bool:
    """Sum / Product / Quotient / Power with an integer literal exponent over variables, ints and
    (rf-floats family) float literals."""
    t = s[0]
    if t in ("int", "float") or t == "Variable":
        return True
    if t in ("Sum", "Product"):
        return s[1][0] == "tuple" and all(is_rational(c) for c in s[1][1:])
    if t == "Quotient":
        return is_rational(s[1]) and is_rational(s[2])
    if t == "Power":
        return s[2][0] == "int" and is_rational(s[1])
    return False


def is_polynomial(s) -> bool:
    t = s[0]
    if t in ("int", "float") or t == "Variable":
        return True
    if t in ("Sum", "Product"):
        return s[1][0] == "tuple" and all(is_polynomial(c) for c in s[1][1:])
    if t == "Power":
        return s[2][0] == "int" and s[2][1] >= 0 and is_polynomial(s[1])
    return False


def is_closed(s) -> bool:
    return not any(c[0] == "Variable" for c in walk(s))


def in_collector_fragment(s) -> bool:
    """TermCollector's documented precondition ("has to be fully expanded already", "expects a
    multiplicative term"): every summand of every sum is a product, a power, a quotient, a leaf
    or closed."""
    for c in walk(s):
        if c[0] == "Sum":
            for k in c[1][1:]:
                if k[0] in ("Product", "Power", "Quotient", "Variable") or k[0] in _CONST \
                        or is_closed(k):
                    continue
                return False
    return True

# }}}


# {{{ normal forms (on output specs)

def _nary_children(s):
    return s[1][1:] if len(s) == 2 and s[1][0] == "tuple" else ()


def _is_literal(s, value):
    return s[0] in ("int", "float", "bool", "complex") and s[1] == value


def flatten_nf(out):
    """-> None or a short description of the first violated clause."""
    for c in walk(out):
        if c[0] == "Sum":
            for k in _nary_children(c):
                if k[0] == "Sum":
                    return "sum-under-sum"
                if _is_literal(k, 0):
                    return "zero-summand"
        elif c[0] == "Product":
            for k in _nary_children(c):
                if k[0] == "Product":
                    return "product-under-product"
                if _is_literal(k, 1):
                    return "one-factor"
    return None


def fold_nf(out, tags, is_constant_operand):
    """At most one constant operand in every node whose tag is in *tags*."""
    for c in walk(out):
        if c[0] in tags:
            n = sum(1 for k in _nary_children(c) if is_constant_operand(k))
            if n > 1:
                return f"{n}-constants-in-{c[0].lower()}"
    return None


def _sum_below(s, below=False):
    t = s[0]
    if t == "Sum" and below:
        return True
    nb = below or t in ("Product", "Power")
    return any(_sum_below(c, nb) for c in spec_children(s) if c and isinstance(c[0], str))


def read_terms(out):
    """Summands of the output with nested sums flattened."""
    if out[0] == "Sum":
        res = []
        for k in _nary_children(out):
            res.extend(read_terms(k))
        return res
    return [out]


def expand_nf(out, want: Poly, names):
    """Normal form of expand on a polynomial input: no Sum beneath a Product/Power, every summand
    a single monomial, no two summands with the same monomial, no zero summand, and the
    (monomial, coefficient) multiset equal to the canonical dictionary *want*."""
    if _sum_below(out):
        return "sum-beneath-product-or-power"
    env = {n: RatFun.atom(n) for n in names}
    got = []
    terms = read_terms(out)
    for tm in terms:
        try:
            v = RatFun.lift(xeval(tm, env))
        except (NotInFragment, ZeroDivisionError):
            return "term-not-polynomial"
        if not v.d.is_const():
            return "term-not-polynomial"
        mono = v.n.monomial_dict()
        if len(mono) > 1:
            return "term-not-monomial"
        if not mono:
            if len(terms) == 1:
                continue                    # the zero polynomial is written 0
            return "zero-term"
        got.extend(mono.items())
    monos = [m for m, _ in got]
    if len(set(monos)) != len(monos):
        return "like-terms-not-merged"
    if sorted(got, key=repr) != sorted(want.monomial_dict().items(), key=repr):
        return "term-multiset"
    return None

# }}}


# {{{ enumerators

def _bin(tag, a, b):
    return (tag, a, b) if tag in ("Quotient", "Power") else (tag, T(a, b))


def rf_depth2(leaves=RF_LEAVES, exps=RF_EXPONENTS):
    """All depth-2 trees of the rational fragment over *leaves*."""
    for tag in ("Sum", "Product"):
        for a, b in itertools.product(leaves, repeat=2):
            yield (tag, T(a, b))
        for a, b, c in itertools.product(leaves, repeat=3):
            yield (tag, T(a, b, c))
    for a, b in itertools.product(leaves, repeat=2):
        yield ("Quotient", a, b)
    for a in leaves:
        for e in exps:
            yield ("Power", a, C(e))


def rf_child_pool(tier):
    pool = list(RF_LEAVES)
    if tier == "quick":
        for tag in ("Sum", "Product", "Quotient"):
            for a, b in itertools.product(RF_QUICK_INNER_LEAVES, repeat=2):
                pool.append(_bin(tag, a, b))
        for b, e in RF_QUICK_INNER_POWERS:
            pool.append(("Power", b, C(e)))
    else:
        for tag in ("Sum", "Product", "Quotient"):
            for a, b in itertools.product(RF_LEAVES, repeat=2):
                pool.append(_bin(tag, a, b))
        for b in RF_LEAVES:
            for e in RF_EXPONENTS:
                pool.append(("Power", b, C(e)))
    return pool


def rf_ternary_pool(tier):
    x, y = V("x"), V("y")
    base = [x, y, C(2), C(0), C(1),
            ("Sum", T(x, C(1))), ("Product", T(C(2), x)), ("Power", x, C(2)), ("Quotient", x, y),
            C(-1), ("Sum", T(x, y)), ("Product", T(x, y)), ("Power", x, C(-1)),
            ("Quotient", C(1), y), ("Product", T(C(-1), x)), ("Sum", T(y, C(-1))),
            ("Power", y, C(3)), ("Sum", T(C(2), C(1))),
            ("Product", T(C(2), C(2))), ("Quotient", y, C(2)), ("Power", C(2), C(-1)),
            ("Sum", T(x, x)), ("Product", T(x, x)), ("Quotient", x, x), ("Power", x, C(0)),
            ("Sum", T(C(0), y))]
    seen, pool = set(), []
    for s in base:
        if s not in seen:
            seen.add(s)
            pool.append(s)
    n = RF_TERNARY_POOL_QUICK if tier == "quick" else RF_TERNARY_POOL_THOROUGH
    return pool[:n]


def rf_depth3(tier):
    """Depth-3 trees: every binary parent over the child pool squared, every power of a pool
    element, every ternary sum/product over the small pool."""
    pool = rf_child_pool(tier)
    for tag in ("Sum", "Product", "Quotient"):
        for a, b in itertools.product(pool, repeat=2):
            if a[0] in ("int", "Variable") and b[0] in ("int", "Variable"):
                continue                    # depth 2: in rf_depth2
            yield _bin(tag, a, b)
    for a in pool:
        if a[0] in ("int", "Variable"):
            continue
        for e in RF_EXPONENTS:
            yield ("Power", a, C(e))
    tp = rf_ternary_pool(tier)
    for tag in ("Sum", "Product"):
        for a, b, c in itertools.product(tp, repeat=3):
            if all(k[0] in ("int", "Variable") for k in (a, b, c)):
                continue
            yield (tag, T(a, b, c))


def rf_chain4(tier):
    """Depth-4 chains  P(a, M(.., I(c, d)))  and mirrored: an outer sum/product with one plain
    operand and one operand M (binary or single-operand sum/product, quotient, literal power)
    that contains an inner binary sum/product I.  These are the inputs on which an operand only
    *becomes* a sum/product (or a constant-carrying one) after it has been rewritten itself, and
    on which a nested sum/product sits beneath a non-sum/product operand."""
    lv = CHAIN4_LEAVES[tier]
    inners = [(tag, T(c, d)) for tag in ("Sum", "Product")
              for c, d in itertools.product(lv, repeat=2)]
    for inner in inners:
        mids = [("Sum", T(inner)), ("Product", T(inner))]
        mids += [("Power", inner, C(e)) for e in CHAIN4_POWERS]
        for b in lv:
            mids += [("Sum", T(b, inner)), ("Sum", T(inner, b)),
                     ("Product", T(b, inner)), ("Product", T(inner, b)),
                     ("Quotient", inner, b), ("Quotient", b, inner)]
        for m in mids:
            for a in CHAIN4_OUTER[tier]:
                for tag in ("Sum", "Product"):
                    yield (tag, T(a, m))
                    yield (tag, T(m, a))


def bigpow(tier):
    """Larger literal powers of small sums (alone, times a variable, and -- thorough, exponents up
    to BIGPOW_NC_MAX -- minus the next lower power)."""
    x, y = V("x"), V("y")
    bases = [("Sum", T(x, C(1))), ("Sum", T(x, y)), ("Sum", T(x, C(-1))),
             ("Sum", T(("Product", T(C(2), x)), y))]
    for b in bases:
        for n in BIGPOW_EXPONENTS[tier]:
            yield ("Power", b, C(n))
            yield ("Product", T(x, ("Power", b, C(n))))
            if tier != "quick" and n <= BIGPOW_NC_MAX:
                yield ("Sum", T(("Power", b, C(n)),
                                ("Product", T(C(-1), ("Power", b, C(n - 1))))))
    # the exponent dimension continued: every exponent up to the bound for the univariate binomial
    for n in BIGPOW_LINEAR[tier]:
        if n not in BIGPOW_EXPONENTS[tier]:
            yield ("Power", bases[0], C(n))


def _short_exact(q: Fraction) -> bool:
    if q == 0:
        return True
    try:
        f = float(q)
    except OverflowError:
        return False
    return Fraction(f) == q and q.numerator.bit_length() <= SHORT_MANTISSA_BITS and f != 0.0


def float_arithmetic_exact(s, extra=()) -> bool:
    """Every sum, product and (product of a part) + (sum of the rest) of every sub-multiset of
    the literal constants occurring in the tree (plus *extra*: the implicit coefficient 1 and
    count 2 that term collection brings in) is a double with a short mantissa: in whatever
    order a rewriter combines the constants with Python's float arithmetic, no rounding, overflow
    or underflow takes place
    (rounding is not the subject)."""
    occ = [Fraction(c[1]) for c in walk(s) if c[0] in ("int", "float")] + list(extra)
    for r in range(1, len(occ) + 1):
        for combo in itertools.combinations(occ, r):
            total, prod = sum(combo), Fraction(1)
            for q in combo:
                prod *= q
            if not (_short_exact(total) and _short_exact(prod)):
                return False
            for k in range(2, len(combo)):
                for idx in itertools.combinations(range(len(combo)), k):
                    part = Fraction(1)
                    for i in idx:
                        part *= combo[i]
                    rest = sum(q for i, q in enumerate(combo) if i not in idx)
                    if not _short_exact(part + rest):
                        return False
    return True


def float_trees(tier):
    """Sums/products (depth 2 complete, depth 3 binary over a reduced pool) whose constants
    include float literals of boundary magnitude; only trees on which float arithmetic is exact
    (-> (mode, tree): all configurations, or only those that do not collect terms)."""
    x, y = V("x"), V("y")
    for fs in FLOAT_SETS[tier]:
        f1, f2 = C(fs[0]), C(fs[1])
        leaves = [x, y, C(2), f1, f2]
        inner_leaves = [x, f1, f2]
        trees = []
        for tag in ("Sum", "Product"):
            for a, b in itertools.product(leaves, repeat=2):
                trees.append((tag, T(a, b)))
            for a, b, c in itertools.product(leaves, repeat=3):
                trees.append((tag, T(a, b, c)))
        pool = list(leaves) + [(tag, T(a, b)) for tag in ("Sum", "Product")
                               for a, b in itertools.product(inner_leaves, repeat=2)]
        for tag in ("Sum", "Product"):
            for a, b in itertools.product(pool, repeat=2):
                if a[0] in ("Sum", "Product") or b[0] in ("Sum", "Product"):
                    trees.append((tag, T(a, b)))
        for t in trees:
            if not any(c[0] == "float" for c in walk(t)):
                continue
            if float_arithmetic_exact(t, (Fraction(1), Fraction(2))):
                yield ("rf", t)             # all configurations
            elif float_arithmetic_exact(t):
                yield ("rfc", t)            # no term collection: flatten and the folders only


def max_exponent(s):
    return max((c[2][1] for c in walk(s) if c[0] == "Power" and c[2][0] == "int"), default=0)


def history_pool(tier):
    """Inputs of the call histories; y is the variable that some configurations declare a
    parameter (coefficient)."""
    x, y = V("x"), V("y")
    sxy = ("Sum", T(y, x))
    pool = [
        ("Product", T(("Sum", T(y, C(1))), ("Sum", T(x, C(2))))),
        ("Sum", T(("Product", T(sxy, sxy)), ("Product", T(y, x)))),
        ("Sum", T(("Product", T(y, x)), ("Product", T(C(2), x)), y)),
        ("Power", ("Sum", T(x, y)), C(2)),
        ("Sum", T(("Product", T(C(2), x)), ("Sum", T(x, C(0))), C(1), C(2))),
        ("Sum", T(x, ("Quotient", y, x))),
        ("Product", T(("Product", T(x, y)), C(1), ("Sum", T(y, C(2), C(3))))),
        ("Sum", T(("Product", T(y, y)), ("Product", T(C(3), y, x)), ("Product", T(x, x)))),
        ("Product", T(y, ("Power", ("Sum", T(x, C(1))), C(2)))),
        ("Sum", T(("Power", y, C(2)), ("Product", T(("Power", y, C(-1)), x)), y)),
        ("Quotient", ("Sum", T(x, y)), ("Sum", T(y, C(1)))),
        ("Sum", T(y, y, x)),
    ]
    return pool[:HISTORY_POOL[tier]]


def rename(s, mapping):
    if s[0] == "Variable":
        return ("Variable", ("str", mapping.get(s[1][1], s[1][1])))
    ch = spec_children(s)
    if not ch:
        return s
    from vf.spec import rebuild
    return rebuild(s, [rename(c, mapping) for c in ch])


def param_inputs(tier):
    """Inputs of the parameter dimension: sums of two monomials whose factors are constants,
    variables and explicit powers of either variable (first summand: every single factor and
    every ordered product of two; second summand: a small pool), plus the square of every
    monomial and its product with a binomial (parameters reach the collector through distribute)."""
    x, y = V("x"), V("y")
    facs = [C(2), x, y, ("Power", x, C(2)), ("Power", y, C(2)), ("Power", x, C(-1)),
            ("Power", y, C(-1))]
    if tier != "quick":
        facs += [("Power", x, C(3)), ("Power", y, C(3)), C(-1), ("Power", x, C(0))]
    terms = list(facs) + [("Product", T(f, g)) for f, g in itertools.product(facs, repeat=2)]
    small = [x, y, C(2), ("Product", T(C(2), x)), ("Product", T(y, x)), ("Power", y, C(2)),
             ("Product", T(("Power", y, C(2)), x)), ("Product", T(("Power", x, C(2)), y))]
    if tier != "quick":
        small += [("Power", x, C(2)), ("Product", T(x, y)), ("Product", T(("Power", x, C(-1)), y)),
                  ("Product", T(C(3), ("Power", y, C(3)), x))]
    for t1 in terms:
        for t2 in small:
            yield ("Sum", T(t1, t2))
            yield ("Sum", T(t2, t1))
        yield ("Power", t1, C(2))
        yield ("Product", T(("Sum", T(t1, C(1))), ("Sum", T(x, C(-1)))))
        yield ("Sum", T(t1, ("Product", T(y, x)), ("Product", T(C(3), x))))


def powpow(tier):
    """Powers of powers as terms and as factors: (v**a)**b, (v**a * w)**b and (w * v**a)**b (the
    form the distributor turns into a product of nested powers itself), thorough also
    ((v**2)**a)**b -- alone, as a summand next to / as a factor of a term next to each of a few
    plain terms (either order), times a binomial (either order), and summed pairwise."""
    x, y = V("x"), V("y")
    ex = POWPOW_EXPONENTS[tier]
    nested, prodpow = [], []
    for v, w in ((x, y), (y, x)):
        for a, b in itertools.product(ex, repeat=2):
            nested.append(("Power", ("Power", v, C(a)), C(b)))
            prodpow.append(("Power", ("Product", T(("Power", v, C(a)), w)), C(b)))
            prodpow.append(("Power", ("Product", T(w, ("Power", v, C(a)))), C(b)))
            if tier != "quick":
                nested.append(("Power", ("Power", ("Power", v, C(2)), C(a)), C(b)))
    plain = [C(1), x, ("Power", x, C(3)), ("Product", T(C(2), ("Power", x, C(2))))]
    binom = ("Sum", T(x, C(1)))
    partners = [("Power", ("Power", v, C(a)), C(b)) for v in (x, y)
                for a, b in itertools.product(POWPOW_EXPONENTS["quick"], repeat=2)]
    for p_ in nested + prodpow:
        yield p_
        for t in plain:
            yield ("Sum", T(p_, t))
            yield ("Sum", T(t, p_))
            yield ("Sum", T(("Product", T(C(2), p_, y)), t))
        yield ("Product", T(p_, binom))
        yield ("Product", T(binom, p_))
        for q in partners:
            yield ("Sum", T(p_, q))


def may_yield_floats(s) -> bool:
    """Python arithmetic on the constants of *s* can legitimately produce a float: *s* has a float
    literal, or a variable-free subexpression that divides (a Quotient, a negative literal power)
    -- the folders evaluate such operands with Python's true division."""
    for c in walk(s):
        if c[0] == "float":
            return True
        if c[0] == "Quotient" and is_closed(c):
            return True
        if c[0] == "Power" and c[2][0] == "int" and c[2][1] < 0 and is_closed(c):
            return True
    return False


def float_literals(s):
    return [c[1] for c in walk(s) if c[0] == "float"]


def quotient_inputs(tier):
    """Quotients of composite numerators by integer constants that are not powers of two, alone
    and as an operand of a product, a power and a quotient (not directly of a sum)."""
    x, y = V("x"), V("y")
    nums = [x, ("Sum", T(x, C(1))), ("Sum", T(x, y)), ("Product", T(C(6), x)),
            ("Product", T(("Sum", T(x, C(1))), ("Sum", T(y, C(2))))), ("Power", x, C(2)),
            ("Product", T(x, y))]
    for d in QUOT_DENOMINATORS[tier]:
        for n in nums:
            q = ("Quotient", n, C(d))
            yield q
            yield ("Product", T(y, q))
            yield ("Product", T(q, y))
            yield ("Product", T(C(2), q, ("Sum", T(y, C(1)))))
            yield ("Power", q, C(2))
            yield ("Power", q, C(-1))
            yield ("Quotient", q, y)
            yield ("Quotient", y, q)
            yield ("Quotient", q, C(d))
            yield ("Product", T(q, ("Quotient", y, C(d))))


def poly4(tier):
    """Deeper polynomial inputs for expand: products and powers of sums, sums of such."""
    x, y = V("x"), V("y")
    sums = [("Sum", T(x, C(1))), ("Sum", T(x, y)), ("Sum", T(x, C(-1))),
            ("Sum", T(("Product", T(C(2), x)), y)), ("Sum", T(x, y, C(1))),
            ("Sum", T(("Power", x, C(2)), C(-1)))]
    if tier != "quick":
        sums += [("Sum", T(C(1), x)), ("Sum", T(y, ("Product", T(C(-1), x)))),
                 ("Sum", T(("Product", T(x, y)), C(2))), ("Sum", T(x, x))]
    facs = sums + [x, y, C(2), C(-1), ("Power", x, C(2)), ("Product", T(x, y))]
    exps = range(POLY_MAX_EXP + 1)
    pows = [("Power", s, C(e)) for s in sums for e in exps]
    yield from pows
    for a, b in itertools.product(facs, repeat=2):
        yield ("Product", T(a, b))
        yield ("Power", ("Product", T(a, b)), C(2))
    for a, b, c in itertools.product(sums[:4] + [x, C(2)], repeat=3):
        yield ("Product", T(a, b, c))
    small = pows if tier != "quick" else [p_ for p_ in pows if p_[2][1] in (0, 2)]
    for pw in small:
        for b in facs:
            yield ("Product", T(pw, b))
            yield ("Product", T(b, pw))
            yield ("Sum", T(pw, b))
    prods = [("Product", T(a, b)) for a, b in itertools.product(sums[:4], repeat=2)]
    for a, b in itertools.product(prods, repeat=2):
        yield ("Sum", T(a, b))
        if tier != "quick":
            yield ("Sum", T(a, ("Product", T(C(-1), b))))
    # function-equal pairs written differently (both sides are inputs of their own; the shared
    # canonical dictionary is what makes their outputs comparable)
    for s1, s2 in itertools.product(sums[:4], repeat=2):
        yield ("Sum", T(("Power", s1, C(2)), ("Product", T(C(-1), ("Power", s2, C(2))))))
        yield ("Product", T(("Sum", T(s1, s2)), ("Sum", T(s1, ("Product", T(C(-1), s2))))))

# }}}

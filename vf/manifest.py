"""Regenerate /verif/MANIFEST.json from the table below:  python -m vf.manifest"""
from __future__ import annotations

import json
import os

VERIF = os.path.dirname(os.path.dirname(os.path.abspath(__file__)))

A = "bounded-exhaustive structure enumeration against an independent reference model (Engine A)"
B = "explicit-state BFS over operation histories on the real objects (Engine B)"

CHECKS = {
    "C02": dict(
        category="exploration", design="DESIGN.md 4/C02",
        technique="bounded-exhaustive enumeration of expression trees x environment boxes x "
                  "evaluator entry points, checked against an independent reference evaluator",
        text="Every evaluable node shape with every leaf combination, every (parent, position, "
             "child) nesting and (thorough) three-level chains, each over the complete value box "
             "of its free variables and through all four evaluator entry points, is compared "
             "with an independent reference semantics (value or exception class). Exhaustive "
             "within those bounds, not sampled: a wrong rule for one node type / operand "
             "position / entry point has a witness inside the bounds.",
        note="Trusted: vf/refsem.py as the intended denotation; CPython's operators. Values "
             "outside the boxes and nestings deeper than three levels are not explored."),
    "C06": dict(
        category="exploration", design="DESIGN.md 4/C06",
        technique="bounded-exhaustive enumeration of printable trees (all parent/position/child "
                  "nestings and three-level chains), each printed, re-parsed and compared",
        text="Every shape of the printable fragment with every leaf combination (negative, "
             "fractional, boolean constants included), every (parent, position, child) nesting "
             "and every three-level chain (thorough: the whole fragment, ~490k trees) is printed, "
             "parsed back, compared after Sum/Product flattening with strict constant types, "
             "evaluated against the reference semantics on a box when the trees differ, and "
             "re-printed. The printer/parser interaction is local to a node and its direct "
             "parent, so three levels cover every precedence/associativity interaction.",
        note="Trusted: spec reader vf/spec.py, reference semantics for the value "
             "classification. Known parser/printer deviations are listed in "
             "known_findings.jsonl by minimal failing (parent, position, child) signature."),
    "C07": dict(
        category="exploration", design="DESIGN.md 4/C07",
        technique="bounded-exhaustive enumeration of token strings (all operator pairs/triples x "
                  "prefix assignments, mutations) compared with CPython's ast.parse through a "
                  "table-driven reference parser that attributes known deviations",
        text="Every ordered pair (thorough: triple) of the 20 binary operators with every "
             "assignment of prefix operators, conditional mixes, parenthesisations, postfix forms, "
             "literal and no-whitespace spellings and every token-level mutation (prefix, "
             "deletion, duplication; 760k strings thorough) is parsed by pymbolic and by CPython; "
             "bracketings are compared in a neutral form; the AST importer is checked on every "
             "sub-node. A precedence-climbing reference parser is validated against ast.parse on "
             "every string and, with five named table overrides, must predict pymbolic's tree "
             "exactly for a deviation to count as known - so a new deviation cannot hide behind "
             "the ~38% of strings that already deviate.",
        note="Trusted: CPython's parser as the definition of the shared grammar; the neutral "
             "form (negation sign-normalised, sums/products flattened). Strings CPython rejects "
             "are only required to be fully consumed or rejected with ParseError."),
    "C13": dict(
        category="exploration", design="DESIGN.md 4/C13",
        technique="bounded-exhaustive enumeration of expression trees, each translated through the "
                  "four Python code-generation paths and executed over the full environment box "
                  "against an independent reference evaluator",
        text="Every shape of the Python-expressible fragment with every leaf combination, every "
             "well-typed (parent, position, child) nesting and three-level chains are sent "
             "through compile() (all argument orders of listed variables, pickle round trip for "
             "every protocol), to_python_ast (unparse + eval), to_evaluatable_python_function "
             "(exec + keyword call) and the AST importer; each generated program is run on the "
             "whole box and compared with the reference semantics (value or arithmetic error). "
             "The four paths are judged independently so that a failure in one cannot mask "
             "another.",
        note="Trusted: vf/refsem.py, CPython's compile/eval. Float-valued results compared "
             "with 1e-9 relative tolerance; environments ill-typed for a tree (reference raises "
             "TypeError) are skipped; the per-path fragment boundaries are tabulated in the "
             "check (EXPECTED_REFUSALS)."),
    "C14": dict(
        category="model_checking", design="DESIGN.md 4/C14",
        technique="bounded-exhaustive enumeration of C-expressible trees, each compiled by gcc "
                  "and run on the whole environment box, plus explicit-state exploration of all "
                  "map/copy histories on one CCodeMapper with invariants after every transition",
        text="Engine A: every shape of the integer and the floating C fragment with every leaf "
             "combination, every (parent, position, child) nesting and three-level chains; the "
             "emitted text plus its hoisted assignments is compiled with gcc and run on every "
             "in-range environment, against the reference semantics. Engine B: all histories up "
             "to depth 3 (quick) / 4 (thorough; 11110 histories) over {map one of 8 expressions "
             "with shared / fresh / nested / equally prefixed wrappers, copy(), "
             "copy_with_mapped_cses()}: after every transition the name list is checked (unique "
             "names, assignment before use, one assignment per distinct wrapped child), and the "
             "program of every maximal history is compiled and run.",
        note="Trusted: gcc -O0 -fwrapv as C semantics, vf/refsem.py with range guards. The "
             "fragment typing (pow() is a double, integer-only operators) is decided by the "
             "check. States are deduplicated only for reporting; every history is executed."),
    "C09": dict(
        category="exploration", design="DESIGN.md 4/C09",
        technique="bounded-exhaustive enumeration of expression trees x all 72 analysis flag "
                  "vectors x cached/uncached, compared with reference rules written on specs",
        text="Every node shape with every leaf combination, every (parent, position, child) "
             "nesting, three-level chains over the node types the flags distinguish, and sharing "
             "families are analysed under all 72 flag vectors by the plain and the cached "
             "dependency mapper and compared as sets with the rule of the statement implemented "
             "on specs; the all-off result is cross-checked against the reference evaluator "
             "(exactly these variables are needed); the node counter is compared with the number "
             "of distinct sub-objects and both flop counters with an independent operation count.",
        note="Trusted: the child table and the rules in vf/checks/c09.py (written from the "
             "statement, not from the mappers), vf/refsem.py."),
    "C19": dict(
        category="exploration", design="DESIGN.md 4/C19",
        technique="bounded-exhaustive enumeration of flat inputs (exponents, integer and "
                  "polynomial pairs, vector lengths, raw term lists) against exact Q[x] / Bezout / "
                  "DFT-definition oracles, with shrinking to canonical minimal witnesses",
        text="Every input inside the stated boxes (integer_power over ints, Fractions, matrices "
             "and free-monoid words for n up to 64; all integer pairs of [-200,200]^2 and 4096 "
             "polynomial pairs for Euclid; every FFT length 1..64 on every unit vector; every "
             "sparse polynomial pair of small degree under + - * divmod ** and after mappers; "
             "quotient nodes on [-12,12]^2) is executed on the real code and compared exactly "
             "(FFT: 1e-9). Within those bounds the property is decided, not sampled.",
        note="Trusted: Python int / Fraction / complex arithmetic, math.gcd / math.lcm, "
             "cmath.exp, the plain EvaluationMapper for evaluating sym_fft output. "
             "Non-termination is judged by a 4000-call budget (13x the largest terminating run)."),
    "C08": dict(
        category="exploration", design="DESIGN.md 4/C08",
        technique="bounded-exhaustive enumeration of (expression tree, substitution map) pairs x "
                  "entry forms, compared with an independent simultaneous substitution on specs and "
                  "with evaluation under rebound names",
        text="Every evaluable node shape over the leaves {x, y, arr[0], arr[x], obj.a, 2} and "
             "every (parent, position, child) nesting is substituted under every map with one or "
             "two keys (names, Variables, subscript and look-up nodes; values that mention other "
             "keys, swaps included) through five entry forms (plain/cached mapper, dict, keyword, "
             "explicit mapper class). The result must equal in value the original evaluated with "
             "the replaced names rebound (the statement's own formulation, on the box), every "
             "maximal key-free subtree must come back as the identical object, and all forms "
             "must agree structurally.",
        note="Trusted: vf/refsem.py; the reference substitution on specs is cross-validated "
             "against the rebinding formulation on every variable-only map. The memoizing forms "
             "are given inputs in which equal subtrees are one object."),
    "C04": dict(
        category="exploration", design="DESIGN.md 4/C04",
        technique="bounded-exhaustive enumeration of (class hierarchy, handler subset, mapper "
                  "kind, entry point) dispatch cases and of expression trees x argument shapes x "
                  "stock traversals, against a child table and resolution rule written "
                  "independently",
        text="Dispatch: all 67 generated user classes (decorated / undecorated / legacy / mixed "
             "hierarchies of depth 1-2 over four bases) x every subset of the handlers in their "
             "chain x plain/cached mapper x __call__/rec/rec_fallback x argument shapes, 23 kinds "
             "of foreign objects, and the derived handler name of every class. Traversals: every "
             "node shape with every leaf combination and every (parent, position, child) nesting "
             "(thorough: three-level chains) through identity, rewriting identity (exactly the "
             "ancestors of the rewritten leaf are new objects), walk (well-nested visit/post_visit "
             "per occurrence, visit()=False at every composite node), leaf-counting combine, "
             "collector, callback and the cached variants, with extra positional/keyword "
             "arguments observed at every handler; unsupported node types must raise.",
        note="Trusted: the child table (vf/checks/c09.py expr_children), the restated "
             "resolution order, the independent CamelCase converter."),
    "C15": dict(
        category="exploration", design="DESIGN.md 4/C15",
        technique="bounded-exhaustive enumeration of expression trees x target sets and of small "
                  "integer affine systems x writing forms x unknown orders x hash seeds, checked "
                  "against exact rational-function and Fraction oracles",
        text="Every tree of depth <= 3 over x y z a[0] f(x) 2 -1 3 with Sum/Product/Quotient/Power "
             "(plus 3-ary nestings), under target_names None and all 16 subsets of {x,y,z,a}, is "
             "run through CoefficientCollector: a returned dict must have target keys, target-free "
             "coefficients and satisfy the reconstruction identity exactly (RatFun); syntactically "
             "affine input must return; input with a non-zero second finite difference must "
             "raise. Every integer system up to 3x3 (square, over- and under-determined; right-hand "
             "sides with parameters) in 5 equivalent lhs/rhs forms and all unknown orders, under 3 "
             "(quick) / 8 (thorough) hash seeds, is solved and compared with exact Fraction "
             "elimination: whatever is accepted must be uniquely and integrally solvable and "
             "satisfy every equation identically in the parameters.",
        note="Trusted: vf.exact Poly/RatFun, vf.spec.to_spec, the Fraction reference solver "
             "(self-checked on every system). Composite leaves are opaque atoms; acceptance of "
             "solvable systems is counted, not demanded."),
    "C05": dict(
        category="model_checking", design="DESIGN.md 4/C05",
        technique="explicit-state BFS over call histories on one memoizing mapper instance, "
                  "lock-step against a fresh non-memoizing counterpart, for every cached/uncached "
                  "pair and every class the mapper optimizer produces",
        text="For 10 cached/uncached mapper pairs and every class optimize_mapper produces from "
             "four source classes (all legal on/off combinations of its five options, each also "
             "after an earlier use of the optimizer in the same process), every history of calls "
             "(expression from a pool built for sharing and typed twins x extra-argument tuple) "
             "up to the largest depth fitting the transition budget (quick 15k, thorough 250k per "
             "pair; depth 3-5; 2.5M transitions thorough) is replayed on a fresh instance. After "
             "every transition the result is compared strictly (constant types included) with a "
             "fresh non-memoizing mapper and the handler log must not contain a strict key twice.",
        note="Trusted: vf/spec.py to_spec as the strict comparison, the handler-logging "
             "subclass. State canon = history with exact repeats removed (soundness argument and "
             "its run-time check in the evidence assumptions)."),
    "C10": dict(
        category="exploration", design="DESIGN.md 4/C10",
        technique="bounded-exhaustive tree enumeration against exact forward-mode dual numbers "
                  "in a formal-atom rational-function field",
        text="All trees of the differentiable fragment to depth 3 (quick 25k, thorough 110k), "
             "every differentiation variable (present, absent, subscript; name, object and mapper "
             "forms) and all three non-smoothness settings: the returned derivative is compared "
             "with an independently computed forward-mode derivative at every point of an exact "
             "rational grid by exact equality in Q(atoms), no floating tolerance. Refusal is "
             "demanded exhaustively for fabs, sign, If and unknown functions; CSE sharing and all "
             "call histories up to length 3 over re-used mapper instances are covered.",
        note="Trusted: vf.exact RatFun, vf.refsem. Atoms are treated as algebraically "
             "independent (a pass is sound, a mismatch is triaged). A float shadow only picks the "
             "side of a break point; break points and out-of-domain points are skipped and "
             "counted. A bare `log` in results is accepted as the natural logarithm."),
    "C01": dict(
        category="model_checking", design="DESIGN.md 4/C01",
        technique="all ordered pairs of a variant pool against a spec-level equality reference, "
                  "plus explicit-state BFS over hash/compare/copy/pickle/map histories with the "
                  "full equality-hash matrix after every history, in default and -O mode",
        text="Engine A: for every built-in node class and each of 76 generated user classes "
             "(decorated, undecorated, legacy, mixed hierarchies) a base instance, a clone, one "
             "variant per field, typed-constant and normalisation variants and same-field "
             "instances of neighbouring classes; ALL ordered pairs of this pool (about 1.1M) are "
             "compared with a reference that reads the fields by introspection: ==, !=, hash "
             "consistency, dict/set substitution; every field of every pool object is set and "
             "deleted. Engine B: per family all histories up to depth 2-3 over 10+ operations on "
             "3-4 objects (11M transitions thorough), the complete matrix over live and derived "
             "objects after each. Both interpreter modes.",
        note="Trusted: vf/spec.py to_spec as the reading of the fields; Python's == on "
             "constants. Transitivity follows because the reference is an equivalence relation "
             "and every pair agrees with it."),
    "C11": dict(
        category="exploration", design="DESIGN.md 4/C11",
        technique="bounded-exhaustive tree enumeration x 8 rewriter configurations x hash seeds, "
                  "decided by an exact rational-function oracle and structural normal-form readers",
        text="Every tree of the rational fragment to depth 3 (plus deeper products and powers "
             "of sums) under every listed hash seed, and every evaluable constructor shape or "
             "nesting for flatten and the folders: each instance is decided by identity of exact "
             "rational functions plus definedness on a Fraction box; the normal-form clauses "
             "(no sum under sum, neutral elements dropped, one constant per folded node, "
             "expanded polynomials with merged like terms equal to the canonical monomial "
             "dictionary) are checked structurally on the output.",
        note="Trusted: vf.exact (Poly, RatFun), vf.refsem, vf.spec. Float constants are decoded "
             "as rationals with denominator <= 4096. Inputs with no exact value are excluded; "
             "TermCollector's fragment is its documented precondition."),
    "C16": dict(
        category="exploration", design="DESIGN.md 4/C16",
        technique="bounded-exhaustive pattern/target/candidate enumeration against an independent "
                  "substitution and AC-normal-form model, under several hash seeds",
        text="Every (pattern, candidate set, target) triple of the stated space (targets as "
             "instances under every assignment, reordered and regrouped, as injective renamings "
             "and as independent trees) and every matchpy-bridge (subject, pattern) pair is "
             "executed on the real unifier / bridge under 3 (quick) / 8 (thorough) hash seeds: "
             "every record must bind only candidates, one value per name, and instantiate to "
             "the target up to AC; every injective renaming must be matched; round trips, "
             "matches and replacements obey the same law.",
        note="Trusted: vf.spec build/to_spec, the spec-level substitution and normal forms of "
             "vf/c16_model.py, matchpy 0.5.5 itself. Completeness is demanded only for "
             "structural renamings; looping rewrite rules are skipped."),
    "C18": dict(
        category="exploration", design="DESIGN.md 4/C18",
        technique="bounded-exhaustive blade-level enumeration over all small diagonal metrics "
                  "against an independent list-based Clifford product",
        text="Every diagonal metric over {1,-1,0,2} in dimensions 0-3 (thorough 0-4 plus 8 "
             "metrics in dimension 5) and three metric dtypes: all blade pairs under six "
             "products, all blade triples for associativity, two-term operands and all "
             "multivectors over {0,1,-1} in dimension <= 2 for bilinearity and ==/hash/bool, all "
             "unary operations and inverses, with exact integer, rational and symbolic "
             "coefficients (1.1M cases quick, 20.9M thorough). Products are bilinear and "
             "blade-level results agree exactly with the oracle, so the identities are decided "
             "for every multivector of these spaces.",
        note="Trusted: the reference algebra vf/c18_ref.py (bubble-sort blade product, exact "
             "arithmetic, self-checked against vf.exact.RatFun). Bounded assurance, not a proof "
             "for arbitrary dimension or metric entries."),
    "C03": dict(
        category="exploration", design="DESIGN.md 4/C03",
        technique="bounded-exhaustive enumeration of operator programs over every (operator, left "
                  "kind, right kind) and every two-operator nesting, executed on pymbolic operands "
                  "and on plain numbers, compared through the reference evaluator on the full box "
                  "and in a free non-commutative ring",
        text="Every (operator, left kind, right kind) with at least one expression side over 13 "
             "expression kinds and 9 numeric kinds (the special operands 0, 1, -1, 0.0, 1.0, True, "
             "False included) for the 12 binary operators, the unary operators and abs, every "
             "two-operator program in both nestings (thorough: all 144 operator pairs over 11 "
             "kinds), the call / subscript / attribute / comparison / logical constructor "
             "methods, the smart constructors on all operand lists up to length 3, and ordering "
             "comparisons in both orders: the resulting tree must evaluate (reference semantics) "
             "to the plain Python value in every environment of the box where the plain "
             "computation is defined, + - * programs must agree in the free non-commutative ring "
             "(no reordering), and < <= > >= must raise TypeError.",
        note="Trusted: vf/refsem.py, CPython's operators. Programs containing '/' are judged on "
             "Fraction-valued environments only (int / int is a float in Python); float results "
             "within 1e-12."),
    "C20": dict(
        category="model_checking", design="DESIGN.md 4/C20",
        technique="explicit-state BFS over fusion histories plus bounded-exhaustive stream pairs, "
                  "identifier placements and DAGs against an independent structural oracle, under "
                  "several hash seeds",
        text="Engine B: every history of <= 4 (quick) / <= 5 (thorough) fuse / "
             "disambiguate-and-fuse operations over a 6-stream pool (id clashes, identifier "
             "clashes, generated-looking names, all statement classes), from the empty stream, "
             "executed on the real code with every transition checked and states deduplicated by "
             "the observable stream. Engine A: all small stream pairs with every id assignment and "
             "acyclic dependency relation, every identifier placement (written name, lhs index, "
             "rhs, condition) under three filters, a grid of statements for read/written sets, all "
             "labelled DAGs on <= 4 / <= 5 nodes plus long chains for the dot export. Everything "
             "under 3 / 8 hash seeds.",
        note="Trusted: vf.spec.to_spec and the statement constructors, pytools' unique-name "
             "generator. The read set is read as required <= reported <= permitted; ids that do "
             "not clash are not required to keep their names."),
    "C12": dict(
        category="model_checking", design="DESIGN.md 4/C12",
        technique="bounded-exhaustive enumeration of expression lists through both taggers plus "
                  "explicit-state BFS over evaluator histories, against the reference evaluator "
                  "and a once-per-wrapper reference model",
        text="Every ordered list of 1-2 expressions from a 220 / 712 expression pool (commuted "
             "twins, nested repeats), every triple over 23 / 69, and every 1-3-list of inputs that "
             "already contain wrappers (prefixes, scopes, CSE(CSE)) is run through "
             "tag_common_subexpressions and the histogram tagger: value by the reference "
             "semantics, once-only evaluation by ONE rec-intercepting evaluator with call-counting "
             "functions, and shape (no wrapper directly around a wrapper, repeats in or below a "
             "wrapper). 2180 wrapping-helper cases are compared with the literal statement. "
             "Engine B: every evaluator history up to depth 3 / 4 over 6 scenarios (12k / 170k "
             "states) on reused, fresh and cached evaluator instances is replayed from scratch and "
             "compared with a once-per-wrapper reference model.",
        note="Trusted: vf.refsem as denotation and as the once-per-wrapper model "
             "(Ref(cse_once=True)). 'Same operands in another order' is read at one level. The "
             "known findings for the legacy histogram tagger use broad globs (same-subkind "
             "defects there would be masked)."),
    "C17": dict(
        category="model_checking", design="DESIGN.md 4/C17",
        technique="cross-process explicit-state exploration: producer/consumer subprocess pairs "
                  "over hash seeds x -O, all producer histories x pickle protocols x every "
                  "transition of the consumer state graph",
        text="Every ordered pair of configurations (PYTHONHASHSEED in {0,1,4242} x {python, "
             "python -O}: 36 pairs quick, 64 thorough) x every pool expression (all constructor "
             "shapes, nestings, 82 user node classes incl. legacy ones, equal-but-built-differently "
             "variants, compiled expressions) x all 13 producer histories over {hash, ==, pickle} "
             "x protocols 0-5 x every transition of the 17-state consumer graph over {unpickle, "
             "build, hash, ==, dict/set insert, look-up}, in real separate processes, against a "
             "pymbolic-free model (one key, equal hash in the consumer, look-ups succeed, reference "
             "value of compiled expressions, identical persistent digests everywhere). 3.6M "
             "(quick) / 52M (thorough) consumer histories executed.",
        note="Trusted: CPython pickle / hash / dict, vf.spec.build, vf.refsem. Consumer states "
             "are merged by canon(history) (unpickled / local: absent, fresh, observed; insertion "
             "order); equal pickle bytes imply equal consumer behaviour."),
}

NOT_BUILT_REASON = "check not built (see DESIGN.md)"


def main():
    checks = []
    for pid, c in sorted(CHECKS.items()):
        # the explored space as the check itself states it (kept current with the check)
        try:
            import importlib
            rule = importlib.import_module(f"vf.checks.{pid.lower()}").CHECK.rule
        except Exception:  # noqa: BLE001
            rule = ""
        c = dict(c)
        if rule:
            c["text"] = (c["text"] + " -- Explored space as built (the check's own rule text, "
                         "extended after each wave of seeded changes): " + rule)
        checks.append({
            "property_id": pid,
            "quick_cmd": f"./check {pid} --tier quick",
            "thorough_cmd": f"./check {pid} --tier thorough",
            "evidence_file": f"/verif/evidence/{pid}.json",
            "replay_cmd_template": f"./check {pid} --replay {{path}}",
            "engine": "vf",
            "level_claimed": {"category": c["category"], "text": c["text"],
                              "design_ref": c["design"]},
            "level_note": c["note"],
            "technique": c["technique"],
        })
    all_ids = [f"C{i:02d}" for i in range(1, 21)]
    na = [{"property_id": pid, "reason": NOT_BUILT_REASON} for pid in all_ids
          if pid not in CHECKS]
    man = {
        "version": 1,
        "setup_cmd": "./setup.sh",
        "hooks": {
            "guard": "PYMBOLIC_VERIF",
            "enable": "no hooks exist: the checks import /repo's working tree directly "
                      "(PYTHONPATH=/repo); PYMBOLIC_VERIF=1 is exported by ./check for form only",
            "baseline_off_cmd": "cd /repo && env -u PYMBOLIC_VERIF /venv/bin/python -m pytest "
                                "-ra -q -p no:cacheprovider --timeout=900 "
                                "--continue-on-collection-errors",
            "source_commits": [],
            "add_only": True,
        },
        "engines": [
            {"name": "vf", "path": "/verif/vf",
             "serves_properties": sorted(CHECKS),
             "kind_free_text": "hand-written Python explorers running the real code of /repo: "
                               + A + "; " + B},
        ],
        "checks": checks,
        "not_applicable": na,
        "notes": "All checks are deterministic and exhaustive within stated bounds; VERIF_SEED "
                 "only rotates family order and chooses the samples shown. Known genuine defects "
                 "are listed in /verif/known_findings.jsonl (KNOWN-FINDING lines, exit 0).",
    }
    with open(os.path.join(VERIF, "MANIFEST.json"), "w") as fh:
        json.dump(man, fh, indent=1)
        fh.write("\n")


if __name__ == "__main__":
    main()

"""C17 -- the expression pool, the configurations and the operation orders.

Imported by the check (runner process) and by every producer / consumer subprocess
(`vf.c17_worker`): the pool is a deterministic function of the tier, so the processes only ever
exchange entry *names*, pickle bytes and digests -- every process rebuilds the specs itself.

An entry is a dict
    name    unique, stable
    label   what the entry stands for in a signature (constructor shape / class / variant kind)
    family  single | extra | arith | user | nest | variant | compiled
    prod    spec the PRODUCER builds, hashes, compares and pickles
    cons    spec the CONSUMER builds "from source" (identical to prod except in `variant` entries,
            where it is an equal expression built differently)
    prod_shared / cons_shared  (optional) build that side with vf.spec.build_shared: equal
            sub-specs become one shared object instead of separate equal objects
    tags    node tags occurring in prod (used to attribute a nested failure to a simpler one)
    vars    (compiled only) spec of the `variables` argument or None
"""
from __future__ import annotations

import itertools
import pickle

from vf import gen
from vf.spec import (
    C, NONE, S, SCOPE_EVAL, SCOPE_EXPR, T, V, class_tag, walk)

# {{{ configurations

HASH_SEEDS = {"quick": (0, 1, 4242), "thorough": (0, 1, 2, 7, 123, 4242)}
INTERP_MODES = ("", "-O")
PROTOCOLS = (0, 1, 2, 3, 4, 5)


def protocols_for(entry, tier, by_name=None):
    return PROTOCOLS


def configs(tier):
    """Configuration names: '<seed>' (default mode) and '<seed>-O' (python -O)."""
    return [f"{s}{m}" for s in HASH_SEEDS[tier] for m in INTERP_MODES]


def parse_config(cfg):
    opt = cfg.endswith("-O")
    return int(cfg[:-2] if opt else cfg), opt

# }}}


# {{{ operation orders

PROD_OPS = ("hash", "eq", "pickle")
PROD_DEPTH = 3


def producer_histories():
    """Every sequence over {hash, ==, pickle} of length <= PROD_DEPTH that ends in pickle,
    followed by every such sequence over {hash, ==, digest, pickle} that contains `digest`
    (computing the persistent keys of the object; executed under DIGEST_PROTOCOLS only)."""
    out = []
    for n in range(PROD_DEPTH):
        for pre in itertools.product(PROD_OPS, repeat=n):
            out.append((*pre, "pickle"))
    for n in range(PROD_DEPTH):
        for pre in itertools.product((*PROD_OPS[:-1], "digest", "pickle"), repeat=n):
            if "digest" in pre:
                out.append((*pre, "pickle"))
    return out


# "digest" (= compute the persistent keys; pytools' KeyBuilder leaves a per-instance attribute
# behind that is not a field) is an expensive operation: histories containing it are run under
# the default pickle protocol only -- what they probe (non-field instance attributes must not
# take part in ==, hash and look-ups) does not depend on the byte format
DIGEST_PROTOCOLS = (pickle.DEFAULT_PROTOCOL,)
# consumer: which families get the digest histories
DIGEST_FAMILIES = {"quick": ("single", "extra", "user", "arith"),
                   "thorough": ("single", "extra", "user", "arith", "nest", "variant")}
DIGEST_DEPTH = 4


CONS_OPS = ("U", "B", "H", "E", "I", "L")
#   U  unpickle                      -> object u          (once)
#   B  build from the spec           -> object l          (once)
#   H  hash every existing object (stable per object, equal between u and l)
#   E  u == l, l == u, not (u != l)  (needs both)
#   I  insert every existing, not yet inserted object into one dict and one set
#   L  look every existing object up in the dict and the set
COMPILED_CONS_OPS = ("U", "B", "C")
#   C  call every existing compiled function on the whole argument box, compare with vf.refsem
CONS_DEPTH = 6


def cons_step(state, op):
    """Canonical consumer state, computed from the HISTORY alone (never from the objects):
    (u, l, inserted) with u, l in {0 absent, 1 fresh (never observed), 2 observed} and the
    insertion order of the objects put into the dict/set.  None if *op* cannot act."""
    su, sl, ins = state
    if op == "U":
        return None if su else (1, sl, ins)
    if op == "B":
        return None if sl else (su, 1, ins)
    if not (su or sl):
        return None
    if op == "E":
        return (2, 2, ins) if (su and sl) else None
    nu, nl = (2 if su else 0), (2 if sl else 0)
    if op == "I":
        if su and "u" not in ins:
            ins = (*ins, "u")
        if sl and "l" not in ins:
            ins = (*ins, "l")
    return (nu, nl, ins)


def cons_step_digest(state, op):
    """cons_step extended by D = compute the persistent key of every existing object that has
    none yet.  Object state: 0 absent, else (observed, keyed)."""
    su, sl, ins = state
    if op == "U":
        return None if su else ((False, False), sl, ins)
    if op == "B":
        return None if sl else (su, (False, False), ins)
    if not (su or sl):
        return None
    if op == "D":
        if (not su or su[1]) and (not sl or sl[1]):
            return None
        return (su and (su[0], True), sl and (sl[0], True), ins)
    if op == "E":
        return ((True, su[1]), (True, sl[1]), ins) if (su and sl) else None
    nu, nl = su and (True, su[1]), sl and (True, sl[1])
    if op == "I":
        if su and "u" not in ins:
            ins = (*ins, "u")
        if sl and "l" not in ins:
            ins = (*ins, "l")
    return (nu, nl, ins)


def digest_histories():
    """The maximal transition histories of the digest-extended graph (explored to DIGEST_DEPTH)
    that contain D; the others are covered by the plain graph.  -> (histories, n new states)"""
    states, _, hs = state_graph((*CONS_OPS, "D"), cons_step_digest, DIGEST_DEPTH)
    keyed = [st for st in states if (st[0] and st[0][1]) or (st[1] and st[1][1])]
    return [h for h in hs if "D" in h], len(keyed)


def compiled_step(state, op):
    su, sl, _ = state
    if op == "U":
        return None if su else (1, sl, ())
    if op == "B":
        return None if sl else (su, 1, ())
    if not (su or sl):
        return None
    return (2 if su else 0, 2 if sl else 0, ())


def state_graph(ops=CONS_OPS, step=cons_step, depth=CONS_DEPTH):
    """Breadth-first exploration of the canonical state graph.  -> (states, transitions,
    histories): *transitions* = every (shortest history reaching a state) + (applicable op);
    *histories* = the transition histories that are not a prefix of another one -- executing
    those executes every transition, each from scratch on fresh objects."""
    from collections import deque
    start = (0, 0, ())
    path = {start: ()}
    queue = deque([start])
    transitions = []
    while queue:
        st = queue.popleft()
        for op in ops:
            nxt = step(st, op)
            if nxt is None:
                continue
            h = (*path[st], op)
            transitions.append(h)
            if nxt not in path and len(h) < depth:
                path[nxt] = h
                queue.append(nxt)
    tset = set(transitions)
    prefixes = {t[:i] for t in tset for i in range(1, len(t))}
    histories = [t for t in transitions if t not in prefixes]
    return list(path), transitions, histories


# }}}


# {{{ pool

X, Y, Z = V("x"), V("y"), V("z")

NODE_CTORS = [c for c in gen.ALL_CTORS if c.tag[0].isupper()]
HASHABLE_CONTAINERS = [c for c in gen.ALL_CTORS if c.name in ("tuple1", "tuple2")]

# one constructor shape per node class (the richest one), used for the nestings
REPRESENTATIVE = (
    "Call2", "CallKw02", "SubscriptT", "Lookup", "Sum2", "Product3", "Quotient", "FloorDiv",
    "Remainder", "Power", "LeftShift", "RightShift", "BitwiseNot", "BitwiseOr2", "BitwiseXor3",
    "BitwiseAnd2", "Cmp<=", "LogicalNot", "LogicalOr2", "LogicalAnd3", "If", "Min2", "Max3",
    "CSEg", "Substitution", "Derivative", "Slice3b", "NaNf", "Wildcard", "DotWildcard",
    "StarWildcard", "FunctionSymbol")
# (parent, position) of the quick nestings: one per *kind of field* a child can sit in -- plain
# field, element of a tuple field, value of the keyword mapping
QUICK_POSITIONS = (("Power", 0), ("Sum2", 1), ("CallKw02", 2))


def _tags(spec):
    return tuple(sorted({c[0] for c in walk(spec) if c[0][0].isupper()}))


def _entry(name, label, family, prod, cons=None, **kw):
    return dict(name=name, label=label, family=family, prod=prod,
                cons=prod if cons is None else cons, tags=_tags(prod), **kw)


def single_entries():
    return [_entry(f"single:{c.name}", c.name, "single", c(*gen.fill_slots(c)))
            for c in NODE_CTORS]


GA = "U:pymbolic.geometric_algebra.primitives."


def extra_entries():
    out = []

    def add(name, spec):
        out.append(_entry(f"extra:{name}", name, "extra", spec))

    add("Variable", X)
    add("Variable-nonascii", V("éα"))
    add("Variable-empty", V(""))
    add("Variable-quote", V("it's\n"))
    add("AlgebraicLeaf", ("AlgebraicLeaf",))
    add("Leaf", ("Leaf",))
    add("NaN-np", ("NaN", ("type", "np.float64")))
    add("Sum-empty", ("Sum", T()))
    add("Sum-one", ("Sum", T(X)))
    add("CallKw-empty", ("CallWithKwargs", V("f"), T(), ("map",)))
    add("CallKw-3", ("CallWithKwargs", V("f"), T(X),
                     ("map", ("k", Y), ("j", C(1)), ("i", ("Sum", T(X, Y))))))
    add("CSE-scope-expr", ("CommonSubexpression", X, S("pfx"), SCOPE_EXPR))
    add("Slice-none", ("Slice", T(NONE,)))
    add("Subscript-slice", ("Subscript", V("a"), T(("Slice", T(X, NONE)), C(0))))
    add("Lookup-chain", ("Lookup", ("Lookup", V("o"), S("b")), S("c")))
    add("Derivative-2", ("Derivative", ("Power", X, C(2)), T(S("x"), S("y"))))
    add("Substitution-2", ("Substitution", ("Sum", T(X, Y)), T(S("x"), S("y")), T(C(1), Z)))
    # constants of every kind as operands
    consts = [("int1", C(1)), ("int0", C(0)), ("neg", C(-7)), ("big", C(2 ** 70)),
              ("negbig", C(-2 ** 70)), ("float", C(2.5)), ("float0", C(0.0)),
              ("floatinf", C(float("inf"))), ("true", C(True)), ("false", C(False)),
              ("complex", C(1 + 2j)), ("npint", ("np", "int64", 3)),
              ("npfloat", ("np", "float64", 2.5)), ("npbool", ("np", "bool", True)),
              # reduced / other precisions, values that are not exactly representable
              ("npf32", ("np", "float32", 0.1)), ("npf32big", ("np", "float32", 1e10)),
              ("npf32dyadic", ("np", "float32", 1.5)), ("npf16", ("np", "float16", 0.3)),
              ("npf64third", ("np", "float64", 1 / 3)), ("npc64", ("np", "complex64", 0.1 + 0.2j)),
              ("npc128", ("np", "complex128", 0.1 + 0.2j)), ("npi8", ("np", "int8", -3)),
              ("npu64", ("np", "uint64", 2 ** 63)),
              ("str", S("text")), ("none", NONE)]
    for nm, c in consts:
        add(f"const-{nm}", ("Product", T(X, c)))
    # nodes of the geometric-algebra module and a subclass defined outside primitives
    add("ga-Nabla", (GA + "Nabla", S("id0")))
    add("ga-NablaComponent", (GA + "NablaComponent", C(1), S("id0")))
    add("ga-DerivativeSource", (GA + "DerivativeSource", ("Sum", T(X, C(1))), S("id0")))
    add("ga-MultiVectorVariable", (GA + "MultiVectorVariable", S("mv")))
    # deeper tree: every level caches a hash when the root is hashed
    deep = X
    for i in range(6):
        deep = ("Sum", T(("Product", T(deep, C(i + 2))), V(f"v{i}")))
    add("deep", deep)
    # shared sub-object (pickle memo) -- built through build(), equal sub-specs
    sh = ("Power", ("Sum", T(X, Y)), C(2))
    add("shared", ("Sum", T(sh, sh, ("Quotient", sh, sh))))
    # repeated composite subtrees: built with one shared object (vf.spec.build_shared) or with
    # separate equal objects (vf.spec.build) -- see the `shared` variants
    sm = ("Sum", T(X, Y))
    add("share-product-call", ("Sum", T(("Product", T(sm, sm)), ("Call", V("f"), T(sm)))))
    add("share-kw", ("CallWithKwargs", V("f"), T(sm), ("map", ("k", sm), ("j", sm))))
    add("share-cse", ("Sum", T(("CommonSubexpression", sm, NONE, SCOPE_EVAL),
                               ("Power", ("CommonSubexpression", sm, NONE, SCOPE_EVAL), C(2)))))
    add("share-if", ("If", ("Comparison", sm, S("<"), C(0)), ("BitwiseNot", sm), sm))
    add("share-user", ("U:vf.usercls_gen.ExpD1D1", sm, ("Sum", T(sm, C(1)))))
    add("share-legacy", ("U:vf.usercls_gen.ExpLL", sm, ("Quotient", sm, sm)))
    return out


def arith_entries():
    """The two init-args classes of the exact-arithmetic helpers (Expression subclasses)."""
    return [
        _entry("arith:Polynomial", "Polynomial", "arith",
               ("U:pymbolic.polynomial.Polynomial", X, T(T(C(0), C(1)), T(C(2), C(3))))),
        _entry("arith:Rational", "Rational", "arith",
               ("U:pymbolic.rational.Rational", ("Sum", T(X, C(1))), C(3))),
    ]


def user_entries():
    import vf.usercls_gen as u
    vals = {"name": S("x"), "children": T(X, C(1)), "child": ("Sum", T(X, Y)), "prefix": NONE,
            "scope": SCOPE_EVAL, "u": V("uu"), "w": ("Product", T(Y, C(2)))}
    out = []
    for name, info in u.CLASSES.items():
        tag = class_tag(info["cls"])
        spec = (tag, *[vals[f] for f in info["fields"]])
        out.append(_entry(f"user:{name}", name, "user", spec))
    return out


OLD = "U:vf.c17_usercls."


def oldstyle_entries():
    """Backend-only old-style nodes (vf/c17_usercls.py): pickle may refuse them (may_refuse);
    whatever it accepts must satisfy every invariant."""
    tag, pair = (OLD + "OldTag", S("alpha")), (OLD + "OldPair", S("beta"), ("Sum", T(X, C(1))))
    sub = (OLD + "OldTagSub", S("gamma"))
    out = [
        _entry("oldstyle:OldTag", "OldTag", "user", tag, may_refuse=True),
        _entry("oldstyle:OldPair", "OldPair", "user", pair, may_refuse=True),
        _entry("oldstyle:OldTagSub", "OldTagSub", "user", sub, may_refuse=True),
        _entry("nest:Sum2[1]:OldTag", "Sum2[1]:OldTag", "nest", ("Sum", T(X, tag)),
               may_refuse=True),
        _entry("nest:Call2[1]:OldPair", "Call2[1]:OldPair", "nest",
               ("Call", V("f"), T(pair, ("Product", T(C(2), X)))), may_refuse=True),
        _entry("nest:OldPair[1]:OldTagSub", "OldPair[1]:OldTagSub", "nest",
               (OLD + "OldPair", S("delta"), sub), may_refuse=True),
    ]
    return out


def postinit_entries():
    """expr_dataclass user nodes whose __post_init__ validates / normalises idempotently /
    transforms its fields non-idempotently (vf/c17_usercls.py), alone and nested."""
    sm = ("Sum", T(X, Y))
    specs = {
        "PostCheck": (OLD + "PostCheck", sm),
        "PostNormalize": (OLD + "PostNormalize", sm, NONE),
        "PostNormalize-set": (OLD + "PostNormalize", X, S("strict")),
        "PostWrap": (OLD + "PostWrap", sm),
        "PostScale": (OLD + "PostScale", V("arr"), C(3)),
        "PostScale0": (OLD + "PostScale", V("arr"), C(0)),
        "PostExtend": (OLD + "PostExtend", T(X, C(1))),
        "PostWrapD0": (OLD + "PostWrapD0", sm),
        "PostScaleU": (OLD + "PostScaleU", V("arr"), C(2)),
    }
    out = [_entry(f"postinit:{k}", k, "user", v) for k, v in specs.items()]
    for k in ("PostCheck", "PostNormalize", "PostWrap", "PostScale", "PostExtend"):
        out.append(_entry(f"nest:Sum2[1]:{k}", f"Sum2[1]:{k}", "nest", ("Sum", T(Z, specs[k]))))
    out.append(_entry("nest:PostWrap[0]:PostScale", "PostWrap[0]:PostScale", "nest",
                      (OLD + "PostWrap", specs["PostScale"])))
    out.append(_entry("nest:CallKw02[2]:PostWrap", "CallKw02[2]:PostWrap", "nest",
                      ("CallWithKwargs", V("f"), T(), ("map", ("k", Z), ("j", specs["PostWrap"])))))
    return out


def legacy_arity_entries():
    """Old-style init-args classes with 0, 1, 2, 3 init args (vf/c17_usercls.py) -- 0 is the
    boundary of the protocol: the state tuple is empty -- alone and nested."""
    sm = ("Sum", T(X, Y))
    specs = {
        "LegacyArgs0": (OLD + "LegacyArgs0",),
        "LegacyArgs0U": (OLD + "LegacyArgs0U",),
        "LegacyLeaf0": (OLD + "LegacyLeaf0",),
        "LegacyArgs1": (OLD + "LegacyArgs1", sm),
        "LegacyArgs1-flat": (OLD + "LegacyArgs1", S("n")),
        "LegacyArgs2": (OLD + "LegacyArgs2", X, C(7)),
        "LegacyArgs3": (OLD + "LegacyArgs3", X, T(Y, C(1)), NONE),
    }
    out = [_entry(f"legacyargs:{k}", k, "user", v) for k, v in specs.items()]
    for k in ("LegacyArgs0", "LegacyArgs0U", "LegacyLeaf0", "LegacyArgs2"):
        out.append(_entry(f"nest:Sum2[1]:{k}", f"Sum2[1]:{k}", "nest",
                          ("Sum", T(V("velocity"), specs[k]))))
    out.append(_entry("nest:LegacyArgs1[0]:LegacyArgs0", "LegacyArgs1[0]:LegacyArgs0", "nest",
                      (OLD + "LegacyArgs1", specs["LegacyArgs0"])))
    out.append(_entry("nest:CallKw02[2]:LegacyArgs0", "CallKw02[2]:LegacyArgs0", "nest",
                      ("CallWithKwargs", V("f"), T(), ("map", ("k", Z),
                                                       ("j", specs["LegacyArgs0"])))))
    return out


def init_false_entries():
    """expr_dataclass user nodes with a dataclasses.field(init=False, default=...) whose
    per-instance value equals / differs from the default, set in __post_init__ or by a factory
    function (the spec's tag then names the factory; vf.spec.build just calls it)."""
    sm = ("Sum", T(X, Y))
    specs = {
        "InitFalseDerived-odd": (OLD + "InitFalseDerived", sm, C(3)),          # parity 1 != default
        "InitFalseDerived-even": (OLD + "InitFalseDerived", X, C(4)),          # parity 0 == default
        "InitFalseFactory": (OLD + "make_init_false_factory", S("n"), C(7)),
        "InitFalseFactory-default": (OLD + "InitFalseFactory", S("n")),        # serial -1
        "InitFalseOnly": (OLD + "make_init_false_only", sm),
        "InitFalseOnly-default": (OLD + "InitFalseOnly",),
    }
    out = [_entry(f"initfalse:{k}", k, "user", v) for k, v in specs.items()]
    out.append(_entry("nest:Sum3:InitFalse", "Sum3:InitFalse", "nest", ("Sum", T(
        ("Product", T(specs["InitFalseFactory"], specs["InitFalseDerived-odd"])), C(1),
        specs["InitFalseOnly"]))))
    return out


FLAT_VALUES = {"name": S("x"), "u": C(11), "w": S("tag")}


def user_flat_entries(tier="thorough"):
    """User nodes whose fields / init args are all plain str / int (a state made of names and
    numbers only), for every class whose fields allow it (quick: only the classes with an
    undecorated or init-args level in their hierarchy)."""
    import vf.usercls_gen as u
    out = []
    for name, info in u.CLASSES.items():
        if not info["fields"] or not all(f in FLAT_VALUES for f in info["fields"]):
            continue
        if tier == "quick" and not ({"L", "U"} & set(info["kinds"])):
            continue
        spec = (class_tag(info["cls"]), *[FLAT_VALUES[f] for f in info["fields"]])
        out.append(_entry(f"userflat:{name}", f"{name}:flat", "user", spec))
    return out


def user_nest_entries(tier):
    """User nodes as children of built-in nodes and built-in nodes in the fields of user nodes."""
    import vf.usercls_gen as u
    out = []
    names = list(u.CLASSES)
    if tier == "quick":
        # one class of every (base, kinds) combination of depth 1 plus the legacy-over-dataclass
        # and undecorated-over-dataclass mixes
        names = [n for n, i in u.CLASSES.items()
                 if len(i["kinds"]) == 1 or i["kinds"] in (("D1", "L"), ("D1", "U"), ("L", "L"),
                                                           ("L", "U"), ("D0", "D1"))]
    for e in user_entries():
        nm = e["name"][5:]
        if nm not in names:
            continue
        s = e["prod"]
        out.append(_entry(f"nest:Sum2[0]:{nm}", f"Sum2[0]:{nm}", "nest", ("Sum", T(s, Z))))
        if tier == "quick" and "L" not in u.CLASSES[nm]["kinds"]:
            continue        # quick: inside a keyword mapping only the init-args classes
        out.append(_entry(f"nest:CallKw02[2]:{nm}", f"CallKw02[2]:{nm}", "nest",
                          ("CallWithKwargs", V("f"), T(), ("map", ("k", Z), ("j", s)))))
    for e in user_flat_entries(tier):
        nm = e["name"][9:]
        if tier == "quick" and "L" not in u.CLASSES[nm]["kinds"]:
            continue
        out.append(_entry(f"nest:Sum2[0]:flat:{nm}", f"Sum2[0]:{nm}:flat", "nest",
                          ("Sum", T(e["prod"], ("Product", T(C(2), e["prod"])), Z))))
    return out


def nest_entries(tier):
    rep = [gen.CTOR[n] for n in REPRESENTATIVE]
    if tier == "quick":
        parents = [gen.CTOR[n] for n in dict.fromkeys(n for n, _ in QUICK_POSITIONS)]
    else:
        parents = [c for c in rep if c.slots]
    children = rep + HASHABLE_CONTAINERS
    out = []
    for (pn, pos, cn), spec in gen.nest2(parents, children):
        if tier == "quick" and (pn, pos) not in QUICK_POSITIONS:
            continue
        out.append(_entry(f"nest:{pn}[{pos}]:{cn}", f"{pn}[{pos}]:{cn}", "nest", spec))
    return out


# {{{ equal expressions built differently

_OP_NAME = {"==": "eq", "!=": "ne", ">=": "ge", ">": "gt", "<=": "le", "<": "lt"}


def _rebuild(s, f):
    """Apply f bottom-up to every sub-spec (specs only, payload of np/type/array shape kept)."""
    t = s[0]
    if t in ("int", "float", "bool", "complex", "str", "none", "type", "np"):
        return f(s)
    if t == "array":
        return f((t, s[1], *[_rebuild(c, f) for c in s[2:]]))
    if t in ("map", "dict"):
        return f((t, *[(k, _rebuild(v, f)) for k, v in s[1:]]))
    return f((t, *[_rebuild(c, f) for c in s[1:]]))


def kw_reversed(s):
    """Same expression, keyword arguments inserted in the reverse order."""
    return _rebuild(s, lambda c: (c[0], *reversed(c[1:])) if c[0] == "map" else c)


def op_by_name(s):
    """Same expression, comparison operators passed by name ('lt' for '<')."""
    return _rebuild(s, lambda c: (c[0], c[1], S(_OP_NAME[c[2][1]]), c[3])
                    if c[0] == "Comparison" else c)


def kw_as_dict(s):
    """Same expression, keyword arguments passed as a plain dict (normalised by the node)."""
    return _rebuild(s, lambda c: ("dict", *c[1:]) if c[0] == "map" else c)


def np_as_python(s):
    """Same expression, every numpy scalar constant replaced by the Python scalar c.item()."""
    import numpy as np

    def f(c):
        if c[0] == "np":
            return C(np.dtype(c[1]).type(c[2]).item())
        return c
    return _rebuild(s, f)


VARIANTS = (("kwrev", kw_reversed), ("opname", op_by_name), ("kwdict", kw_as_dict),
            ("npitem", np_as_python))
# digest functions whose key must agree across a variant.  A numpy scalar and its .item() are
# one key for the walk mapper (its map_constant says so); pytools' KeyBuilder keys constants by
# type on purpose (np.float32(0.1) and 0.10000000149011612 get different keys), not asserted.
VARIANT_DIGESTS = {"npitem": ("walk",)}


def variant_entries(base_entries):
    out = []
    for e in base_entries:
        if e["family"] in ("compiled", "arith"):
            continue
        for vn, fn in VARIANTS:
            v = fn(e["prod"])
            if v == e["prod"]:
                continue
            if e["family"] == "nest" and vn == "kwdict":
                continue
            # pickled as base, rebuilt as variant -- and (not for nestings) the other way round
            out.append(_entry(f"variant:{vn}:{e['name']}", f"{vn}:{e['label']}", "variant",
                              e["prod"], v, variant=vn, base=e["name"]))
            if e["family"] != "nest":
                out.append(_entry(f"variant:{vn}-rev:{e['name']}", f"{vn}-rev:{e['label']}",
                                  "variant", v, e["prod"], variant=vn, base=e["name"]))
        # same spec, equal sub-expressions as ONE object on one side and as separate objects on
        # the other (pickle keeps sharing, so the unpickled object has the producer's form)
        if e["family"] != "nest" and has_repeated_composite(e["prod"]):
            out.append(_entry(f"variant:shared:{e['name']}", f"shared:{e['label']}", "variant",
                              e["prod"], variant="shared", base=e["name"], prod_shared=True))
            out.append(_entry(f"variant:shared-rev:{e['name']}", f"shared-rev:{e['label']}",
                              "variant", e["prod"], variant="shared", base=e["name"],
                              cons_shared=True))
    return out


def has_repeated_composite(spec):
    """Some node with a node beneath it occurs twice (build_shared then differs from build)."""
    seen = set()
    for c in walk(spec):
        if c[0][0].isupper() and any(k[0][0].isupper() for k in walk(c) if k is not c):
            if c in seen:
                return True
            seen.add(c)
    return False

# }}}


# {{{ compiled expressions

COMPILED_BOX = (-2, 1, 3)
_CMP = lambda a, op, b: ("Comparison", a, S(op), b)     # noqa: E731


# variable-name alphabets for (x, y, z): names differing only in case, upper before lower case,
# digits / underscores (lexicographic is not numeric), a prefix of another name
NAMINGS = (("case", ("x", "X", "z")), ("case-rev", ("X", "x", "z")), ("case2", ("ab", "AB", "Ab")),
           ("upper", ("b", "A", "a")), ("digits", ("x10", "x9", "x_")),
           ("underscore", ("_x", "x_", "X_")), ("prefix", ("xy", "x", "xyz")))
NAMING_SHAPES = {"quick": ("Quotient", "Power", "If"),
                 "thorough": ("Quotient", "Power", "If", "Remainder", "LeftShift", "Cmp<",
                              "horner", "Sum3")}


def compiled_entries(tier):
    exprs = []
    for n in ("Sum2", "Sum3", "Product2", "Product3", "Quotient", "FloorDiv", "Remainder",
              "Power", "LeftShift", "RightShift", "BitwiseNot", "BitwiseOr2", "BitwiseXor2",
              "BitwiseAnd3", "Cmp<", "Cmp<=", "Cmp>", "Cmp>=", "Cmp==", "Cmp!=", "Min2", "Max3"):
        c = gen.CTOR[n]
        exprs.append((n, c(*gen.fill_slots(c))))
    exprs += [
        ("LogicalNot", ("LogicalNot", _CMP(X, "<", Y))),
        ("LogicalOr2", ("LogicalOr", T(_CMP(X, "<", Y), _CMP(Y, "<", Z)))),
        ("LogicalAnd2", ("LogicalAnd", T(_CMP(X, "<", Y), _CMP(Y, "!=", Z)))),
        ("If", ("If", _CMP(X, "<", Y), ("Sum", T(X, Z)), ("Product", T(Y, Z)))),
        ("const", ("Sum", T(("Product", T(C(-3), X)), C(2.5), ("Power", C(-1), Y)))),
        ("horner", ("Sum", T(("Product", T(("Sum", T(("Product", T(X, C(2))), Y)), X)), Z))),
        ("one-var", ("Power", X, C(2))),
        ("no-var", ("Sum", T(C(2), C(3)))),
        ("math", ("Call", ("Lookup", V("math"), S("floor")), T(("Quotient", X, Y)))),
    ]
    if tier == "thorough":
        arith = [gen.CTOR[n] for n in ("Sum2", "Product2", "Quotient", "Power", "BitwiseNot",
                                       "Cmp<", "If", "Min2")]
        for (pn, pos, cn), spec in gen.nest2(arith, arith):
            exprs.append((f"{pn}[{pos}]:{cn}", spec))
    # the same shapes under other variable-name alphabets (argument order is "by name")
    shapes = NAMING_SHAPES[tier]
    renamed = []
    for nm, spec in exprs:
        if nm in shapes:
            for an, names3 in NAMINGS:
                ren = dict(zip(("x", "y", "z"), names3))
                renamed.append((f"{nm}@{an}", _rebuild(
                    spec, lambda c, ren=ren: V(ren.get(c[1][1], c[1][1]))
                    if c[0] == "Variable" else c)))
    out = []
    for nm, spec in exprs + renamed:
        names = sorted({c[1][1] for c in walk(spec) if c[0] == "Variable"} - {"math", "numpy"})
        listings = [("auto", None)]
        if len(names) >= 2:
            rev = list(reversed(names))
            listings.append(("rev-str", ("list", *[S(n) for n in rev])))
            listings.append(("last-var", ("list", V(names[-1]))))
        elif names:
            listings.append(("var", ("list", V(names[0]))))
            listings.append(("extra-str", ("list", S("unused"), S(names[0]))))
        for ln, lst in listings:
            out.append(_entry(f"compiled:{nm}:{ln}", f"compiled:{nm}:{ln}", "compiled", spec,
                              vars=lst))
    return out


def compiled_argnames(entry):
    """Documented argument order: the listed variables, then the remaining ones by name."""
    listed = []
    if entry["vars"] is not None:
        for v in entry["vars"][1:]:
            listed.append(v[1] if v[0] == "str" else v[1][1])
    rest = sorted({c[1][1] for c in walk(entry["prod"]) if c[0] == "Variable"}
                  - set(listed) - {"math", "numpy"})
    return listed + rest

# }}}


_POOLS = {}


def pool(tier):
    if tier not in _POOLS:
        base = (single_entries() + extra_entries() + arith_entries() + user_entries()
                + user_flat_entries(tier) + oldstyle_entries() + postinit_entries()
                + legacy_arity_entries() + init_false_entries()
                + nest_entries(tier)
                + user_nest_entries(tier))
        allp = base + variant_entries(base) + compiled_entries(tier)
        names = [e["name"] for e in allp]
        if len(set(names)) != len(names):
            raise RuntimeError("duplicate pool entry names")
        _POOLS[tier] = allp
    return _POOLS[tier]


def pool_by_name(tier):
    return {e["name"]: e for e in pool(tier)}


# }}}

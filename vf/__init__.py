"""Bounded-exhaustive exploration machinery for the pymbolic properties C01-C20.

See /verif/DESIGN.md.  Everything here runs the real code of /repo's working tree.
"""

"""Engine B: explicit-state breadth-first exploration of operation histories on live objects.

A state is the history that reaches it.  Live objects are never copied: every transition replays
its whole history on fresh objects (``step`` does that) and judges the last operation.  States are
deduplicated by ``canon(history)``, which must be computed from the history alone (never from the
implementation's internals) and come with an argument why merged states have the same futures.
A violating transition is not expanded, so every reported history is minimal (BFS order).
"""
from __future__ import annotations

from collections import deque


class Exploration:
    def __init__(self):
        self.states = 0
        self.transitions = 0
        self.max_depth = 0
        self.violations = []        # (history, kind, detail)
        self.outcomes = set()


def drop_repeats(hist):
    """History with exact repeats of an earlier operation removed, order kept."""
    out = []
    seen = set()
    for op in hist:
        if op not in seen:
            seen.add(op)
            out.append(op)
    return tuple(out)


def bfs(menu, step, depth, canon=drop_repeats, root=()):
    """*step(history)* replays the history on fresh objects and returns
    ``(violation or None, outcome)`` for its LAST operation; violation = (kind, detail)."""
    ex = Exploration()
    seen = {canon(root)}
    frontier = deque([tuple(root)])
    ex.states = 1
    while frontier:
        hist = frontier.popleft()
        for op in menu:
            h2 = (*hist, op)
            viol, outcome = step(h2)
            ex.transitions += 1
            ex.outcomes.add(outcome)
            if viol is not None:
                ex.violations.append((h2, viol[0], viol[1]))
                continue
            k = canon(h2)
            if k not in seen:
                seen.add(k)
                ex.states += 1
                ex.max_depth = max(ex.max_depth, len(h2))
                if len(h2) < depth:
                    frontier.append(h2)
    return ex

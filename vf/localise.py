"""Reduce a failing tree to the minimal failing trees it contains (DESIGN 2.6).

``fails(spec)`` is the check's own predicate: it returns a hashable failure kind (truthy) when the
check fails on *spec* taken as an input on its own, and None otherwise (also for sub-specs that are
not valid inputs of the check).
"""
from __future__ import annotations

from vf.spec import C, V, canon_vars, rebuild, show, spec_children

_SKIP = ("str", "none", "type", "map", "dict")


def paths(s, prefix=()):
    """(path, subspec) in post-order (children before parents)."""
    for i, c in enumerate(spec_children(s)):
        yield from paths(c, (*prefix, i))
    yield prefix, s


def get_at(s, path):
    for i in path:
        s = spec_children(s)[i]
    return s


def replace_at(s, path, new):
    if not path:
        return new
    ch = list(spec_children(s))
    ch[path[0]] = replace_at(ch[path[0]], path[1:], new)
    return rebuild(s, ch)


def _is_expr(s):
    return s[0] not in _SKIP


def _fresh(used, base="w"):
    i = 0
    while f"{base}{i}" in used:
        i += 1
    used.add(f"{base}{i}")
    return V(f"{base}{i}")


def _names(s):
    out = set()
    for _, c in paths(s):
        if c[0] == "Variable":
            out.add(c[1][1])
    return out


PAYLOAD = {
    "Call": {1}, "CallWithKwargs": {1, 2}, "Sum": {0}, "Product": {0}, "BitwiseOr": {0},
    "BitwiseXor": {0}, "BitwiseAnd": {0}, "LogicalOr": {0}, "LogicalAnd": {0}, "Min": {0},
    "Max": {0}, "Slice": {0}, "Substitution": {1, 2}, "Derivative": {1},
}


def is_structural(t, path):
    """A tuple/map that is the payload field of a node (children, parameters, ...), i.e. not an
    expression by itself."""
    if not path:
        return False
    c = get_at(t, path)
    parent = get_at(t, path[:-1])
    if c[0] in ("map", "dict"):
        return True
    return c[0] == "tuple" and path[-1] in PAYLOAD.get(parent[0], ())


def minimal_failing_subtree(t, fails, kind=None):
    """First (post-order) sub-spec that fails on its own (with failure kind *kind* if given);
    None if none (not even *t*)."""
    for path, c in paths(t):
        if not _is_expr(c) or is_structural(t, path):
            continue
        k = fails(c)
        if k and (kind is None or k == kind):
            return path, c, k
    return None


def shrink(s, kind, fails, budget=200):
    """Greedy shrinking keeping the same failure kind."""
    used = _names(s)
    changed = True
    while changed and budget > 0:
        changed = False
        for path, c in list(paths(s)):
            if not path or not _is_expr(c):
                continue
            cands = []
            if c[0] == "Variable":
                continue
            if c[0] in ("int", "float", "bool", "complex"):
                if c != C(2):
                    cands.append(C(2))
            else:
                if c[0] == "tuple" and len(c) > 3:
                    for j in range(1, len(c)):
                        cands.append(c[:j] + c[j + 1:])
                if not is_structural(s, path):
                    cands.append(None)  # fresh variable
            for cand in cands:
                budget -= 1
                if cand is None:
                    u2 = set(used)
                    cand = _fresh(u2)
                else:
                    u2 = used
                try:
                    s2 = replace_at(s, path, cand)
                    k2 = fails(s2)
                except Exception:  # noqa: BLE001
                    k2 = None
                if k2 == kind:
                    s = s2
                    used = u2
                    changed = True
                    break
            if changed:
                break
    return generalise(s, kind, fails, used)


def generalise(s, kind, fails, used=None):
    """Replace every leaf (variable or constant) by its own fresh variable where the failure
    (same kind) persists: the most general form of the minimal failing tree."""
    used = set(used or _names(s))
    for path, c in list(paths(s)):
        if not path or is_structural(s, path):
            continue
        if c[0] == "Variable" or c[0] in ("int", "float", "bool", "complex"):
            u2 = set(used)
            cand = _fresh(u2, "u")
            try:
                s2 = replace_at(s, path, cand)
                k2 = fails(s2)
            except Exception:  # noqa: BLE001
                k2 = None
            if k2 == kind:
                s, used = s2, u2
    return s


WIDE_LIMIT = 120


def localise(t, fails, max_rounds=6, do_shrink=True):
    """-> list of (kind, signature, minimal spec).

    Each round takes the failure kind the check reports for the current tree, finds the minimal
    sub-tree failing with *that* kind (so a different, more widespread failure in a leaf cannot
    hide it), shrinks and generalises it, replaces it by a fresh variable and continues.
    """
    out = []
    n_nodes = sum(1 for _ in paths(t))
    if n_nodes > WIDE_LIMIT:
        # a wide / deep tree: minimising it node by node costs a quadratic number of full checks;
        # it is its own witness and is named by its shape
        kind = fails(t)
        if not kind:
            return []
        k = kind if isinstance(kind, str) else ":".join(str(x) for x in kind)
        return [(kind, f"{k}|large {t[0]} tree with {n_nodes} nodes", t)]
    used = _names(t)
    cur = t
    for _ in range(max_rounds):
        kind = fails(cur)
        if not kind:
            break
        hit = minimal_failing_subtree(cur, fails, kind)
        if hit is None:
            out.append((kind, signature(kind, cur), cur))
            break
        path, sub, kind = hit
        m = shrink(sub, kind, fails) if do_shrink else sub
        out.append((kind, signature(kind, m), m))
        if not path or not spec_children(sub):
            break           # the whole tree, or a leaf that a fresh variable would not repair
        cur = replace_at(cur, path, _fresh(used))
    return out


def signature(kind, s):
    k = kind if isinstance(kind, str) else ":".join(str(x) for x in kind)
    return f"{k}|{show(canon_vars(s))}"

"""Environment objects shared by the value-oriented checks: functions with positional/keyword
parameters (call counting), an aggregate that accepts scalar and tuple subscripts, an attribute
holder, a raising function, and a small non-commutative value type."""
from __future__ import annotations

from fractions import Fraction


class Boom(Exception):
    pass


class Counter:
    def __init__(self):
        self.calls = []


def make_f(counter, name, weights=(2, 3, 5), kw=(("k", 7), ("j", 11))):
    kwd = dict(kw)

    def f(*a, **k):
        # keyword arguments are logged and weighted in the order in which they ARRIVE (the order
        # the call node holds them in is the order Python would evaluate and pass them in)
        counter.calls.append((name, a, tuple(k.items())))
        r = 1
        for i, v in enumerate(a):
            r = r + weights[i % len(weights)] * v
        for n, (key, v) in enumerate(k.items()):
            r = r + (n + 1) * kwd.get(key, 13) * v
        return r
    f.__name__ = name
    return f


def boom(*a, **k):
    raise Boom()


class Arr:
    """Aggregate: arr[i] = 10 + 7*i, arr[i, j, ...] = 100 + sum 3**n * v_n; slices rejected."""
    def __getitem__(self, k):
        if isinstance(k, tuple):
            r = 100
            for n, v in enumerate(k):
                r = r + 3 ** n * v
            return r
        if isinstance(k, slice):
            raise TypeError("slices not supported by Arr")
        return 10 + 7 * k

    def __eq__(self, other):
        return isinstance(other, Arr)

    def __hash__(self):
        return 17

    def __repr__(self):
        return "Arr()"


class Obj2:
    """a second attribute holder with other values"""
    a = 50
    b = 90
    x = 210
    y = 220

    def __eq__(self, other):
        return isinstance(other, Obj2)

    def __hash__(self):
        return 23

    def __repr__(self):
        return "Obj2()"


class Obj:
    a = 5
    b = 9
    x = 21          # attribute names that collide with variable names on purpose
    y = 22

    def __eq__(self, other):
        return isinstance(other, Obj)

    def __hash__(self):
        return 19

    def __repr__(self):
        return "Obj()"


def base_env(counter=None):
    counter = counter or Counter()
    return {
        "f": make_f(counter, "f"),
        "g": make_f(counter, "g", weights=(3, 2, 7), kw=(("k", 5), ("j", 3))),
        "boom": boom,
        "arr": Arr(),
        "obj": Obj(),
        "obj2": Obj2(),
    }


SPECIAL_NAMES = ("f", "g", "boom", "arr", "obj", "obj2")

QUICK_DOMAIN = (-1, 0, 2, Fraction(1, 2), True)
FULL_DOMAIN = (-2, -1, 0, 1, 2, 3, Fraction(-3, 2), Fraction(1, 2), Fraction(5, 2), True, False)
INT_DOMAIN = (-2, -1, 0, 1, 2, 3)


class Mat:
    """2x2 integer matrices: a non-commutative ring accepting ints on either side of + and *."""
    __slots__ = ("m",)

    def __init__(self, a, b, c, d):
        self.m = (a, b, c, d)

    @staticmethod
    def _lift(o):
        if isinstance(o, Mat):
            return o
        if isinstance(o, (int, Fraction)) and not isinstance(o, bool):
            return Mat(o, 0, 0, o)
        return None

    def __add__(self, o):
        o = Mat._lift(o)
        if o is None:
            return NotImplemented
        return Mat(*[x + y for x, y in zip(self.m, o.m)])

    __radd__ = __add__

    def __mul__(self, o):
        o = Mat._lift(o)
        if o is None:
            return NotImplemented
        a, b, c, d = self.m
        e, f, g, h = o.m
        return Mat(a * e + b * g, a * f + b * h, c * e + d * g, c * f + d * h)

    def __rmul__(self, o):
        o = Mat._lift(o)
        if o is None:
            return NotImplemented
        return o.__mul__(self)

    def __neg__(self):
        return Mat(*[-x for x in self.m])

    def __sub__(self, o):
        o = Mat._lift(o)
        if o is None:
            return NotImplemented
        return self + (-o)

    def __rsub__(self, o):
        o = Mat._lift(o)
        if o is None:
            return NotImplemented
        return o + (-self)

    def __eq__(self, o):
        o = Mat._lift(o)
        return o is not None and self.m == o.m

    def __hash__(self):
        return hash(self.m)

    def __repr__(self):
        return f"Mat{self.m}"


MATS = {"x": Mat(1, 1, 0, 1), "y": Mat(1, 0, 1, 1), "z": Mat(0, 1, -1, 2)}

"""CLI runner: sharding over worker processes, per-item watchdog, merging, known-finding
matching, evidence files, replay files.

    python -m vf.run C02 --tier quick
    python -m vf.run C02 --replay evidence/replays/C02-xxxx.json

Exit status: 0 = property held on everything explored (known findings are printed as
KNOWN-FINDING lines); 1 = at least one violation not listed in known_findings.jsonl;
2 = infrastructure error (e.g. a violation that does not replay deterministically).
"""
from __future__ import annotations

import argparse
import hashlib
import importlib
import json
import multiprocessing
import os
import re
import signal
import subprocess
import sys
import time
import traceback
import warnings

VERIF = os.path.dirname(os.path.dirname(os.path.abspath(__file__)))
# evidence directory: redirected while the checks are tried against seeded (deliberately broken)
# trees, so that the committed evidence of the real tree is not overwritten
EVIDENCE = os.environ.get("VF_EVIDENCE_DIR") or os.path.join(VERIF, "evidence")
REPLAYS = os.path.join(EVIDENCE, "replays")
KNOWN = os.path.join(VERIF, "known_findings.jsonl")

ITEM_TIMEOUT = int(os.environ.get("VF_ITEM_TIMEOUT", "30"))
NPROC = int(os.environ.get("VF_NPROC", "0")) or min(16, os.cpu_count() or 1)


class Hang(BaseException):
    """Raised by the per-item watchdog; a BaseException so that 'except Exception' blocks in
    checks and in the localiser cannot swallow it."""


class Res:
    """What checking one item produced."""
    __slots__ = ("evals", "keys", "fails", "counters", "sample")

    def __init__(self):
        self.evals = 0
        self.keys = []          # hashables identifying distinct non-trivial cases
        self.fails = []         # dicts: kind, sig, detail (+ item added by the runner)
        self.counters = {}
        self.sample = None

    def fail(self, kind, sig, detail="", witness=None):
        f = {"kind": kind, "sig": sig, "detail": detail}
        if witness is not None:
            f["witness"] = witness
        self.fails.append(f)

    def count(self, name, n=1):
        self.counters[name] = self.counters.get(name, 0) + n


class Check:
    """Base class of a property check.  Subclasses define ``families`` and ``check_item``."""
    pid = "C00"
    level = "exploration"
    rule = ""
    assumptions: list[str] = []
    hash_seeds = {"quick": [0], "thorough": [0]}
    # interpreter modes the whole check is repeated under ("" = default, "-O" = optimised);
    # checks read sys.flags.optimize to know where they are
    interp_modes = {"quick": [""], "thorough": [""]}
    chunk = 64

    def families(self, tier):
        """-> list of (family name, zero-argument callable returning an iterator of items)."""
        raise NotImplementedError

    def check_item(self, family, item, tier) -> Res:
        raise NotImplementedError

    def replay(self, witness, tier="thorough") -> Res:
        """Re-run one recorded witness: {"family":..., "item":...}."""
        return self.check_item(witness["family"], _detuple(witness["item"]), tier)

    def describe(self, family, item):
        return {"family": family, "item": item}

    def setup(self, tier):
        pass

    def teardown(self, tier):
        pass


def _detuple(x):
    """JSON lists -> tuples (specs are tuples)."""
    if isinstance(x, list):
        return tuple(_detuple(c) for c in x)
    if isinstance(x, dict):
        if set(x) == {"__complex__"}:
            return complex(*x["__complex__"])
        return {k: _detuple(v) for k, v in x.items()}
    return x


def _jsonable(x):
    if isinstance(x, (tuple, list)):
        return [_jsonable(c) for c in x]
    if isinstance(x, dict):
        return {str(k): _jsonable(v) for k, v in x.items()}
    if isinstance(x, complex):
        return {"__complex__": [x.real, x.imag]}
    if isinstance(x, (str, int, float, bool)) or x is None:
        return x
    if isinstance(x, (set, frozenset)):
        return sorted((_jsonable(c) for c in x), key=repr)
    return repr(x)


def h64(x) -> int:
    return int.from_bytes(hashlib.blake2b(repr(x).encode(), digest_size=8).digest(), "big")


# {{{ worker side

_CHECK = None
_TIER = None
_PROGRESS = None        # shared array: per worker slot (start time, family index, item index)
_FAMILY_INDEX = {}
HARD_TIMEOUT = int(os.environ.get("VF_HARD_TIMEOUT", "150"))


def _slot():
    ident = multiprocessing.current_process()._identity
    return (ident[0] - 1) % NPROC if ident else 0


def _alarm(signum, frame):
    raise Hang()


def _work(task):
    family, start, items = task
    out = {"evals": 0, "keys": set(), "fails": {}, "counters": {}, "samples": [], "items": 0}
    signal.signal(signal.SIGALRM, _alarm)
    for off, item in enumerate(items):
        idx = start + off
        if _PROGRESS is not None:
            sl = _slot() * 3
            _PROGRESS[sl + 1] = _FAMILY_INDEX.get(family, -1)
            _PROGRESS[sl + 2] = idx
            _PROGRESS[sl] = time.time()
        signal.alarm(getattr(_CHECK, "item_timeout", ITEM_TIMEOUT))
        try:
            r = _CHECK.check_item(family, item, _TIER)
        except Hang:
            r = Res()
            r.evals = 1
            r.fail("hang", f"hang:{family}", "item did not finish within "
                   f"{getattr(_CHECK, 'item_timeout', ITEM_TIMEOUT)}s")
        except RecursionError:
            r = Res()
            r.evals = 1
            r.fail("crash", f"crash:{family}:RecursionError", "RecursionError in harness/item")
        except Exception as e:  # noqa: BLE001
            r = Res()
            r.evals = 1
            tb = traceback.format_exc()[-1500:]
            r.fail("harness-exception", f"harness:{family}:{type(e).__name__}", tb)
        finally:
            signal.alarm(0)
            if _PROGRESS is not None:
                _PROGRESS[_slot() * 3] = 0.0
        out["items"] += 1
        out["evals"] += r.evals
        for k in r.keys:
            out["keys"].add(h64(k))
        for k, v in r.counters.items():
            if k.startswith("max_"):
                out["counters"][k] = max(out["counters"].get(k, 0), v)
            else:
                out["counters"][k] = out["counters"].get(k, 0) + v
        for f in r.fails:
            key = (f["kind"], f["sig"])
            slot = out["fails"].get(key)
            if slot is None:
                out["fails"][key] = {"count": 1, "family": family,
                                      "item": f.get("witness", item),
                                      "detail": f["detail"], "index": idx}
            else:
                slot["count"] += 1
        if idx % 997 == 0 or (r.sample is not None and len(out["samples"]) < 2):
            if len(out["samples"]) < 3:
                out["samples"].append(_CHECK.describe(family, r.sample if r.sample is not None
                                                      else item))
    return out

# }}}


def _merge(total, part):
    total["items"] += part["items"]
    total["evals"] += part["evals"]
    total["keys"] |= part["keys"]
    for k, v in part["counters"].items():
        if k.startswith("max_"):
            total["counters"][k] = max(total["counters"].get(k, 0), v)
        else:
            total["counters"][k] = total["counters"].get(k, 0) + v
    for key, f in part["fails"].items():
        slot = total["fails"].get(key)
        if slot is None:
            total["fails"][key] = dict(f)
        else:
            slot["count"] += f["count"]
            if f["index"] < slot["index"]:
                cnt = slot["count"]
                slot.update(f)
                slot["count"] = cnt
    fam = part.get("family")
    if fam is not None:
        total["families"][fam] = total["families"].get(fam, 0) + part["items"]
    total["samples"].extend(part["samples"])


def _chunks(gen, n):
    buf = []
    start = 0
    for it in gen:
        buf.append(it)
        if len(buf) >= n:
            yield start, buf
            start += len(buf)
            buf = []
    if buf:
        yield start, buf


def explore(check, tier, seed):
    """Run every family of *check* over the worker pool and merge."""
    global _CHECK, _TIER
    _CHECK, _TIER = check, tier
    total = {"items": 0, "evals": 0, "keys": set(), "fails": {}, "counters": {},
             "samples": [], "families": {}}
    fams = list(check.families(tier))
    if fams:
        rot = seed % len(fams)
        fams = fams[rot:] + fams[:rot]
    check.setup(tier)
    try:
        ctx = multiprocessing.get_context("fork")

        def tasks():
            for name, genf in fams:
                for start, items in _chunks(genf(), check.chunk):
                    yield (name, start, items)

        if NPROC <= 1:
            for t in tasks():
                part = _work(t)
                part["family"] = t[0]
                _merge(total, part)
        else:
            global _PROGRESS
            _PROGRESS = ctx.Array("d", NPROC * 3, lock=False)
            _FAMILY_INDEX.clear()
            _FAMILY_INDEX.update({name: i for i, (name, _) in enumerate(fams)})
            pool = ctx.Pool(NPROC)
            try:
                it = pool.imap_unordered(_work_named, tasks(), chunksize=1)
                while True:
                    try:
                        part_t = it.next(timeout=5)
                    except StopIteration:
                        break
                    except multiprocessing.TimeoutError:
                        hung = _find_hung()
                        if hung is None:
                            continue
                        fi, idx = hung
                        name, genf = fams[fi]
                        item = next((x for i, x in enumerate(genf()) if i == idx), None)
                        total["fails"][("hang", f"hang:{name}")] = {
                            "count": 1, "family": name, "item": item, "index": idx,
                            "detail": f"item did not finish within {HARD_TIMEOUT}s and could not "
                                      "be interrupted; exploration aborted"}
                        total["aborted"] = True
                        pool.terminate()
                        break
                    _merge(total, part_t)
            finally:
                pool.terminate()
                pool.join()
                _PROGRESS = None
    finally:
        check.teardown(tier)
    return total


def _find_hung():
    now = time.time()
    hard = max(HARD_TIMEOUT, 5 * getattr(_CHECK, "item_timeout", ITEM_TIMEOUT))
    for w in range(NPROC):
        t = _PROGRESS[w * 3]
        if t and now - t > hard:
            return int(_PROGRESS[w * 3 + 1]), int(_PROGRESS[w * 3 + 2])
    return None


def _work_named(task):
    part = _work(task)
    part["family"] = task[0]
    return part


# {{{ known findings

def glob_match(pattern: str, s: str) -> bool:
    rx = ".*".join(re.escape(part) for part in pattern.split("*"))
    return re.fullmatch(rx, s, flags=re.S) is not None


def rec_matches(rec, sig) -> bool:
    keys = rec.get("keys") or [rec["key"]]
    return any(glob_match(k, sig) for k in keys)


def load_known(pid):
    recs = []
    if os.path.exists(KNOWN):
        with open(KNOWN) as f:
            for line in f:
                line = line.strip()
                if not line.startswith("{"):
                    continue        # comments and "fixed: property=<id> <commit> <what>" lines
                r = json.loads(line)
                if r.get("property") == pid:
                    recs.append(r)
    return recs

# }}}


def write_replay(pid, kind, sig, f):
    os.makedirs(REPLAYS, exist_ok=True)
    hid = hashlib.blake2b(f"{kind}|{sig}".encode(), digest_size=6).hexdigest()
    path = os.path.join(REPLAYS, f"{pid}-{hid}.json")
    doc = {
        "property": pid, "kind": kind, "signature": sig,
        "witness": {"family": f["family"], "item": _jsonable(f["item"])},
        "count_in_run": f["count"], "detail": f["detail"],
        "replay": f"cd /verif && ./check {pid} --replay {path}",
    }
    with open(path, "w") as fh:
        json.dump(doc, fh, indent=1)
    return path


def replay_file(check, path, as_json=False):
    with open(path) as fh:
        doc = json.load(fh)
    # the same per-item watchdog as in a run: an item that hangs replays as "hang"
    signal.signal(signal.SIGALRM, _alarm)
    signal.alarm(getattr(check, "item_timeout", ITEM_TIMEOUT))
    try:
        r = check.replay(doc["witness"])
    except Hang:
        r = Res()
        r.fail("hang", f"hang:{doc['witness'].get('family')}", "item did not finish within "
               f"{getattr(check, 'item_timeout', ITEM_TIMEOUT)}s")
    except RecursionError:
        r = Res()
        r.fail("crash", f"crash:{doc['witness'].get('family')}:RecursionError",
               "RecursionError in harness/item")
    finally:
        signal.alarm(0)
    fails = sorted((f["kind"], f["sig"], f["detail"]) for f in r.fails)
    if as_json:
        print(json.dumps(fails))
    else:
        if fails:
            for k, s, d in fails:
                print(f"still fails: kind={k} signature={s}\n   {d}")
        else:
            print("does not fail any more")
    return 1 if fails else 0


def deterministic_replay(pid, path):
    """Replay twice in fresh subprocesses; both observations must agree."""
    outs = []
    for _ in range(2):
        try:
            pr = subprocess.run([sys.executable, "-m", "vf.run", pid, "--replay", path, "--json"],
                                cwd=VERIF, capture_output=True, text=True, timeout=1200)
        except subprocess.TimeoutExpired:
            outs.append('[["hang", "replay", "the replay did not finish within 1200 s"]]')
            continue
        outs.append(pr.stdout.strip().splitlines()[-1] if pr.stdout.strip() else pr.stderr[-300:])
    if outs[0] == outs[1]:
        return True, outs
    # two replays that BOTH fail with the same failure kinds agree on the verdict even if the
    # texts differ (a change that makes behaviour depend on the process history does that)
    try:
        k = [sorted({f[0] for f in json.loads(o)}) for o in outs]
        if k[0] and k[0] == k[1]:
            return True, outs
    except Exception:  # noqa: BLE001
        pass
    return False, outs


def load_check(pid):
    mod = importlib.import_module(f"vf.checks.{pid.lower()}")
    return mod.CHECK


def main(argv=None):
    ap = argparse.ArgumentParser()
    ap.add_argument("pid")
    ap.add_argument("--tier", default=os.environ.get("VERIF_TIER", "quick"),
                    choices=["quick", "thorough"])
    ap.add_argument("--replay")
    ap.add_argument("--json", action="store_true")
    ap.add_argument("--child", action="store_true", help="internal: emit partial result")
    args = ap.parse_args(argv)

    warnings.simplefilter("ignore")
    import pymbolic
    repo = os.environ.get("VF_REPO", "/repo")
    assert os.path.realpath(pymbolic.__file__).startswith(os.path.realpath(repo) + os.sep), \
        f"pymbolic imported from {pymbolic.__file__}, not from {repo}"

    pid = args.pid.upper()
    check = load_check(pid)
    seed = int(os.environ.get("VERIF_SEED", "0") or 0)

    if args.replay:
        return replay_file(check, args.replay, as_json=args.json)

    t0 = time.time()
    seeds = check.hash_seeds[args.tier]
    modes = check.interp_modes[args.tier]
    if args.child or (len(seeds) <= 1 and modes == [""]):
        total = explore(check, args.tier, seed)
        total["hash_seeds"] = [int(os.environ.get("PYTHONHASHSEED", "0"))]
        if args.child:
            import pickle
            sys.stdout.buffer.write(b"\n@@PARTIAL@@" + pickle.dumps(total).hex().encode() + b"\n")
            return 0
    else:
        import pickle
        total = {"items": 0, "evals": 0, "keys": set(), "fails": {}, "counters": {},
                 "samples": [], "families": {}, "hash_seeds": []}
        for hs, mode in [(h, m_) for h in seeds for m_ in modes]:
            env = dict(os.environ, PYTHONHASHSEED=str(hs))
            cmd = [sys.executable, *([mode] if mode else []), "-m", "vf.run", pid, "--tier",
                   args.tier, "--child"]
            pr = subprocess.run(cmd, cwd=VERIF, env=env, capture_output=True)
            m = re.search(rb"@@PARTIAL@@([0-9a-f]+)", pr.stdout)
            if pr.returncode != 0 or not m:
                sys.stderr.write(pr.stderr.decode()[-3000:])
                print(f"infrastructure error: child run under PYTHONHASHSEED={hs} {mode} failed")
                return 2
            hs = (hs, mode) if mode else hs
            part = pickle.loads(bytes.fromhex(m.group(1).decode()))
            fams = part.pop("families")
            part_keys = part["keys"]
            # keep configurations apart in the distinct-case count
            part["keys"] = {h64((hs, k)) for k in part_keys}
            _merge(total, part)
            for k, v in fams.items():
                total["families"][k] = total["families"].get(k, 0) + v
            total["hash_seeds"].append(hs if not isinstance(hs, tuple) else f"{hs[0]} {hs[1]}")

    # ---- known findings --------------------------------------------------------------------
    recs = load_known(pid)
    known = [r for r in recs if r.get("status") == "known"]
    exit_code = 0
    lines = []
    for r in known:
        try:
            rr = check.replay(r["witness"])
            still = any(rec_matches(r, f["sig"]) for f in rr.fails)
        except Exception as e:  # noqa: BLE001
            still = False
            lines.append(f"note: replaying known finding {r['id']!r} raised {type(e).__name__}: {e}")
        if still:
            lines.append(f"KNOWN-FINDING: property={pid} {r['what']}")
        else:
            lines.append(f"note: known finding no longer reproduces: property={pid} {r['what']}")

    violations = []
    known_hits = {}
    for (kind, sig), f in sorted(total["fails"].items(), key=lambda kv: kv[1]["index"]):
        hit = next((r for r in known if rec_matches(r, sig)), None)
        if hit is not None:
            known_hits[hit["id"]] = known_hits.get(hit["id"], 0) + f["count"]
        else:
            violations.append((kind, sig, f))

    checked_replays = 0
    for kind, sig, f in violations:
        path = write_replay(pid, kind, sig, f)
        if checked_replays < 3:
            ok, outs = deterministic_replay(pid, path)
            checked_replays += 1
            if not ok:
                print(f"infrastructure error: replay of {path} is not deterministic: {outs}")
                exit_code = 2
        lines.append(f"VIOLATION property={pid} replay={path}")
        lines.append(f"   kind={kind} signature={sig} occurrences={f['count']}")
        lines.append("   " + str(f["detail"])[:600].replace("\n", "\n   "))
        if exit_code == 0:
            exit_code = 1

    wall = time.time() - t0
    cov = {
        "evaluations": total["evals"],
        "distinct_nontrivial": len(total["keys"]),
        "rule": check.rule,
        "samples": _jsonable(_pick_samples(total["samples"], seed)),
        "exhaustive": not total.get("aborted", False),
        "items": total["items"],
        "families": total["families"],
        "hash_seeds": total.get("hash_seeds"),
        "known_finding_occurrences": known_hits,
    }
    for k, v in total["counters"].items():
        cov[k] = v
    if check.level == "model_checking":
        cov.setdefault("states", 0)
        cov.setdefault("transitions", 0)
        cov.setdefault("traces_validated_against_impl", cov.get("histories", 0))
    ev = {
        "property_id": pid, "tier": args.tier, "seed": seed, "level": check.level,
        "coverage": cov, "assumptions": list(check.assumptions),
        "wall_s": round(wall, 2), "violations": len(violations),
    }
    os.makedirs(EVIDENCE, exist_ok=True)
    with open(os.path.join(EVIDENCE, f"{pid}.json"), "w") as fh:
        json.dump(ev, fh, indent=1, sort_keys=True)
        fh.write("\n")
    _validate_evidence(ev)

    for ln in lines:
        print(ln)
    print(f"{pid} {args.tier}: items={total['items']} evaluations={total['evals']} "
          f"distinct_nontrivial={len(total['keys'])} "
          + " ".join(f"{k}={v}" for k, v in sorted(total["counters"].items()))
          + f" known_findings={len(known)} violations={len(violations)} wall={wall:.1f}s")
    return exit_code


def _pick_samples(samples, seed):
    if not samples:
        return []
    n = len(samples)
    idx = sorted({(seed * 7 + i * max(1, n // 4)) % n for i in range(4)})
    return [samples[i] for i in idx]


def _validate_evidence(ev):
    """Validate against the evidence schema with the tooling interpreter (jsonschema lives there)."""
    schema = os.path.join(VERIF, "schemas", "EVIDENCE.schema.json")
    vt = "/opt/veriftools/pyvenv/bin/python"
    if not (os.path.exists(schema) and os.path.exists(vt)):
        return
    code = ("import json,sys,jsonschema;"
            "jsonschema.validate(json.load(sys.stdin), json.load(open(sys.argv[1])))")
    env = {k: v for k, v in os.environ.items() if not k.startswith("PYTHON")}
    pr = subprocess.run([vt, "-c", code, schema], input=json.dumps(ev), text=True,
                        capture_output=True, env=env)
    if pr.returncode != 0:
        print("infrastructure error: evidence file does not validate:", pr.stderr[-500:])
        sys.exit(2)


if __name__ == "__main__":
    sys.exit(main())

"""C20 helpers: neutral specs of statements and streams, builder / reader for the real statement
objects, independent scans (identifiers, read / written sets), the reference oracle for fusion and
disambiguation, the independent transitive reduction, and shrinkers that turn a failing case into
a minimal one (its rendering is the signature).

Statement spec (JSON-able nested tuple):

    (cls, id, lhs, rhs, cond, deps)      cls in "A" (Assignment), "CA" (ConditionalAssignment),
                                          "N" (Nop); lhs / rhs / cond are vf.spec expression specs
                                          or None where the class has no such field; deps is the
                                          sorted tuple of ids the statement depends on.

A stream is a tuple of statement specs.  Nothing in this module calls a pymbolic mapper: objects
are built by constructor calls and read back field by field (``vf.spec.to_spec``).
"""
from __future__ import annotations

import re

from vf.spec import build, show, spec_children, rebuild, to_spec

CLS_NAMES = {"A": "Assignment", "CA": "ConditionalAssignment", "N": "Nop"}
CLS_TAGS = {v: k for k, v in CLS_NAMES.items()}

ZERO = ("int", 0)


def Var(n):
    return ("Variable", ("str", n))


# {{{ statements: constructors of specs, builder, reader

def A(id, lhs, rhs, deps=()):
    return ("A", id, lhs, rhs, None, tuple(sorted(deps)))


def CA(id, lhs, rhs, cond, deps=()):
    return ("CA", id, lhs, rhs, cond, tuple(sorted(deps)))


def N(id, deps=()):
    return ("N", id, None, None, None, tuple(sorted(deps)))


_BUILT: dict = {}


def build_expr(e):
    """Expressions are immutable values, so one object per distinct spec is shared."""
    o = _BUILT.get(e)
    if o is None:
        o = _BUILT[e] = build(e)
        _SPEC_OF_BUILT[id(o)] = (o, e)
    return o


_SPEC_OF_BUILT: dict = {}


def spec_of(o):
    """to_spec, short-cut for the (immutable, kept alive) expression objects built above when the
    code under test hands the very same object back."""
    ent = _SPEC_OF_BUILT.get(id(o))
    if ent is not None and ent[0] is o:
        return ent[1]
    return to_spec(o)


def build_stmt(s):
    from pymbolic.imperative.statement import Assignment, ConditionalAssignment, Nop
    cls, id, lhs, rhs, cond, deps = s
    if cls == "A":
        return Assignment(lhs=build_expr(lhs), rhs=build_expr(rhs), id=id,
                          depends_on=list(deps))
    if cls == "CA":
        return ConditionalAssignment(lhs=build_expr(lhs), rhs=build_expr(rhs),
                                     condition=build_expr(cond), id=id, depends_on=list(deps))
    if cls == "N":
        return Nop(id=id, depends_on=list(deps))
    raise ValueError(cls)


def build_stream(stream):
    return [build_stmt(s) for s in stream]


def observe_stmt(stmt):
    """Read a real statement back: class, id, fields, depends_on (no mapper involved)."""
    cls = CLS_TAGS.get(type(stmt).__name__, "?" + type(stmt).__name__)
    deps = tuple(sorted(stmt.depends_on))
    if cls == "N":
        return ("N", stmt.id, None, None, None, deps)
    lhs = spec_of(stmt.lhs)
    rhs = spec_of(stmt.rhs)
    cond = spec_of(stmt.condition) if cls == "CA" else None
    return (cls, stmt.id, lhs, rhs, cond, deps)


def observe_stream(stmts):
    return tuple(observe_stmt(s) for s in stmts)

# }}}


# {{{ rendering (signatures, details)

def show_expr(e):
    return "-" if e is None else show(e)


def show_stmt(s):
    cls, id, lhs, rhs, cond, deps = s
    d = ("{" + ",".join(deps) + "}") if deps else ""
    if cls == "N":
        body = "nop"
    elif cls == "A":
        body = f"{show(lhs)} <- {show(rhs)}"
    else:
        body = f"{show(lhs)} <- {show(rhs)} if {show(cond)}"
    return f"{id}{d}: {body}"


def show_stream(stream):
    return "[" + "; ".join(show_stmt(s) for s in stream) + "]"

# }}}


# {{{ independent scans

def scan_vars(e, out=None, fn_out=None, in_fn=False):
    """Names of all Variable nodes in expression spec *e*; those standing directly in the function
    position of a Call / CallWithKwargs go to *fn_out* instead of *out*."""
    if out is None:
        out = set()
    if fn_out is None:
        fn_out = set()
    if e is None:
        return out, fn_out
    if e[0] == "Variable":
        (fn_out if in_fn else out).add(e[1][1])
        return out, fn_out
    ch = spec_children(e)
    for i, c in enumerate(ch):
        scan_vars(c, out, fn_out, in_fn=(e[0] in ("Call", "CallWithKwargs") and i == 0))
    return out, fn_out


_CONVENTION: list = []


def fn_convention():
    """Whether the library counts the function symbol of a call as an identifier.  The property
    does not settle this, so both conventions are accepted -- but only one of them, everywhere:
    it is read off once from the plain assignment ``x <- f(y)`` and every other position
    (lhs index, condition), statement class and the disambiguation must agree with it."""
    if not _CONVENTION:
        try:
            st = build_stmt(A("s", Var("x"), ("Call", Var("f"), ("tuple", Var("y")))))
            _CONVENTION.append("f" in st.get_read_variables())
        except Exception:  # noqa: BLE001
            _CONVENTION.append(False)
    return _CONVENTION[0]


def stmt_idents(s):
    """Every identifier occurring in lhs, rhs or condition: the variables, plus function symbols
    if the library's convention counts them."""
    out = set()
    for e in s[2:5]:
        a, f = scan_vars(e)
        out |= a
        if f and fn_convention():
            out |= f
    return out


def stmt_fn_symbols(s):
    out = set()
    for e in s[2:5]:
        out |= scan_vars(e)[1]
    return out


def stream_idents(stream):
    out = set()
    for s in stream:
        out |= stmt_idents(s)
    return out


def written_name(s):
    """The assigned name (None for a Nop): the variable itself or the aggregate of a subscript."""
    lhs = s[2]
    if lhs is None:
        return None
    if lhs[0] == "Variable":
        return lhs[1][1]
    if lhs[0] == "Subscript" and lhs[1][0] == "Variable":
        return lhs[1][1][1]
    raise ValueError("lhs outside the alphabet")


def rw_reference(s):
    """-> (written, required_reads, permitted_reads) by an independent scan.

    required: variables in the rhs, in the index expressions of a subscripted lhs and in the
    condition, outside call-function position.  permitted additionally: the written name and
    names in call-function position under the convention observed for the library
    (fn_convention: then they are required as well; otherwise they are not permitted)."""
    cls, _id, lhs, rhs, cond, _deps = s
    if cls == "N":
        return set(), set(), set()
    w = written_name(s)
    req, fns = set(), set()
    scan_vars(rhs, req, fns)
    if cond is not None:
        scan_vars(cond, req, fns)
    if lhs[0] == "Subscript":
        scan_vars(lhs[2], req, fns)
    if fn_convention():
        return {w}, req | fns, req | fns | {w}
    return {w}, req, req | {w}

# }}}


# {{{ filters

ANSWER_STYLES = ("bool", "match", "count", "numpy", "str")


def _split_filter(filt):
    """'only:x,y@match' -> ('only:x,y', 'match'); the style defaults to 'bool'."""
    base, _, style = filt.partition("@")
    return base, style or "bool"


class _Yes:
    """A truthy non-bool answer (what re.match returns on success)."""

    def __repr__(self):
        return "<yes>"


def _answer(style, yes, name):
    """How a caller's predicate may say yes / no: a bool, a match object / None, a count, a
    numpy bool, the name / the empty string.  Only the truth value carries meaning."""
    if style == "bool":
        return yes
    if style == "match":
        return _Yes() if yes else None
    if style == "count":
        return 2 if yes else 0
    if style == "numpy":
        import numpy as np
        return np.bool_(yes)
    if style == "str":
        return name if yes else ""
    raise ValueError(style)


def filter_fn(filt):
    """'all' -> None (the default), 'none' -> reject everything, 'only:x,y' -> accept x and y;
    an '@style' suffix selects how the predicate expresses its answer (ANSWER_STYLES)."""
    base, style = _split_filter(filt)
    if base == "all" and style == "bool":
        return None
    return lambda name: _answer(style, filter_pass(base, name), name)


def filter_pass(filt, name):
    base, _style = _split_filter(filt)
    if base == "all":
        return True
    if base == "none":
        return False
    assert base.startswith("only:")
    return name in base[5:].split(",")

# }}}


# {{{ oracle: fusion and disambiguation

def _match(orig, new, rho, rho_fn=None, in_fn=False):
    """Structural comparison modulo variable names; records name -> set of new names in *rho*
    (variables standing in call-function position: in *rho_fn*, if given)."""
    if orig is None or new is None:
        return orig is None and new is None
    if not isinstance(new, tuple) or not new:
        return False
    if orig[0] == "Variable":
        if new[0] != "Variable" or new[1][0] != "str":
            return False
        target = rho_fn if (in_fn and rho_fn is not None) else rho
        target.setdefault(orig[1][1], set()).add(new[1][1])
        return True
    if orig[0] != new[0]:
        return False
    co, cn = spec_children(orig), spec_children(new)
    if not co:
        return orig == new
    if len(co) != len(cn) or len(orig) != len(new):
        return False
    # non-spec payload (e.g. the comparison operator string) lives in children as ("str", ..)
    is_call = orig[0] in ("Call", "CallWithKwargs")
    return all(_match(a, b, rho, rho_fn, is_call and i == 0)
               for i, (a, b) in enumerate(zip(co, cn)))


def check_transform(a, b, out, idmap, filt, subst):
    """Oracle for ``fuse`` (filt is None: bodies must be unchanged) and for
    ``disambiguate_and_fuse`` (filt given): *a*, *b* input stream specs, *out* the observed
    result stream spec, *idmap* the returned id mapping, *subst* the returned substitution
    (name -> expression spec) or None.  -> list of (kind, detail)."""
    fails = []
    na, nb = len(a), len(b)
    if len(out) != na + nb:
        return [("fuse:length", f"{len(out)} statements returned, expected {na}+{nb}")]
    for i in range(na):
        if out[i] != a[i]:
            fails.append(("fuse:first-stream-changed",
                          f"statement {i}: {show_stmt(a[i])} became {show_stmt(out[i])}"))
            break
    ids = [s[1] for s in out]
    if len(set(ids)) != len(ids) or any(i is None for i in ids):
        dup = sorted({i for i in ids if ids.count(i) > 1}, key=str)
        fails.append(("fuse:duplicate-id", f"ids {ids}: duplicated {dup}"))
    b_ids = [s[1] for s in b]
    if not isinstance(idmap, dict) or set(idmap) != set(b_ids):
        fails.append(("fuse:idmap-domain",
                      f"returned id mapping {idmap!r} is not defined exactly on {b_ids}"))
        return fails
    rho, rho_fn = {}, {}
    for i in range(nb):
        o, n = b[i], out[na + i]
        if n[0] != o[0]:
            fails.append(("fuse:class-changed", f"{show_stmt(o)} became class {n[0]}"))
            continue
        if n[1] != idmap[o[1]]:
            fails.append(("fuse:id-not-mapped",
                          f"{show_stmt(o)} has id {n[1]!r}, mapping says {idmap[o[1]]!r}"))
        want = tuple(sorted({idmap[d] for d in o[5]}))
        if n[5] != want:
            fails.append(("fuse:deps-not-remapped",
                          f"{show_stmt(o)} -> {show_stmt(n)}: depends_on {list(n[5])}, "
                          f"expected {list(want)} (mapping {idmap})"))
        if filt is None:
            if n[2:5] != o[2:5]:
                fails.append(("fuse:body-changed", f"{show_stmt(o)} became {show_stmt(n)}"))
        else:
            if not all(_match(o[k], n[k], rho, rho_fn) for k in (2, 3, 4)):
                fails.append(("disamb:structure-changed",
                              f"{show_stmt(o)} became {show_stmt(n)}"))
    if filt is not None:
        fails.extend(check_renaming(a, b, out[na:], rho, filt, subst, rho_fn))
    return fails


def check_disamb_only(a, b, bout, filt, subst):
    """Oracle for ``disambiguate_identifiers``: *bout* observed second stream."""
    fails = []
    if len(bout) != len(b):
        return [("disamb:length", f"{len(bout)} statements returned, expected {len(b)}")]
    rho, rho_fn = {}, {}
    for o, n in zip(b, bout):
        if (n[0], n[1], n[5]) != (o[0], o[1], o[5]):
            fails.append(("disamb:header-changed", f"{show_stmt(o)} became {show_stmt(n)}"))
        if not all(_match(o[k], n[k], rho, rho_fn) for k in (2, 3, 4)):
            fails.append(("disamb:structure-changed", f"{show_stmt(o)} became {show_stmt(n)}"))
    fails.extend(check_renaming(a, b, bout, rho, filt, subst, rho_fn))
    return fails


def check_renaming(a, b, bout, rho, filt, subst, rho_fn=None):
    """*rho*: observed name -> {new names} (*rho_fn*: the same for function symbols of calls).
    Conditions of the property on the renaming."""
    fails = []
    ia, ib = stream_idents(a), stream_idents(b)
    rho = {k: set(v) for k, v in rho.items()}
    for n, v in (rho_fn or {}).items():
        if fn_convention():
            # function symbols are identifiers like any other
            rho.setdefault(n, set()).update(v)
        elif n not in ib:
            # not an identifier of the second stream at all: must be left alone
            if v != {n}:
                fails.append(("disamb:function-symbol-renamed",
                              f"function symbol {n!r} of a call (not a variable of the second "
                              f"stream) became {sorted(v)}: {show_stream(bout)}"))
        elif not v <= {n} | rho.get(n, set()):
            # also a variable of the stream: may follow the variable's renaming or stay
            fails.append(("disamb:inconsistent",
                          f"function symbol {n!r} became {sorted(v)}, the variable of that name "
                          f"{sorted(rho.get(n, ()))}"))
    should = {n for n in ia & ib if filter_pass(filt, n)}
    incons = {n: sorted(v) for n, v in rho.items() if len(v) > 1}
    if incons:
        fails.append(("disamb:inconsistent",
                      f"one name renamed differently in different places: {incons}"))
    obs = {n: min(v) for n, v in rho.items()}
    renamed = {n for n, v in rho.items() if v != {n}}
    missed = sorted(should - renamed)
    if missed:
        fails.append(("disamb:clash-not-renamed",
                      f"{missed} occur in both streams and pass the filter {filt!r} but keep "
                      f"their names in the second stream: {show_stream(bout)}"))
    spurious = sorted(renamed - should)
    if spurious:
        fails.append(("disamb:renamed-without-clash",
                      f"{spurious} renamed to {[sorted(rho[n]) for n in spurious]} although they "
                      f"do not clash / do not pass the filter {filt!r}"))
    new_names = [m for n in sorted(renamed) for m in sorted(rho[n]) if m != n]
    stale = sorted(m for m in new_names if m in ia or m in ib)
    if stale:
        fails.append(("disamb:new-name-not-fresh",
                      f"new names {stale} already occur in the streams; renaming "
                      f"{ {n: sorted(rho[n]) for n in sorted(renamed)} }"))
    if len(set(new_names)) != len(new_names):
        fails.append(("disamb:new-names-collide",
                      f"renaming { {n: sorted(rho[n]) for n in sorted(renamed)} }"))
    if not missed and not stale:
        shared = sorted(n for n in ia & stream_idents(bout) if filter_pass(filt, n))
        if shared:
            fails.append(("disamb:still-shared",
                          f"after disambiguation the streams still share {shared}"))
    if subst is not None and not incons:
        want = {n: Var(obs[n]) for n in renamed}
        if subst != want:
            fails.append(("disamb:returned-substitution",
                          f"returned substitution { {k: show(v) for k, v in subst.items()} } "
                          f"does not describe the renaming performed "
                          f"{ {k: show(v) for k, v in want.items()} }"))
    return fails

# }}}


# {{{ running the real operations on specs

def subst_to_spec(subst):
    return {k: to_spec(v) for k, v in subst.items()}


CONTAINER_KINDS = ("l", "t", "g")     # list, tuple, one-shot generator


def split_op(op):
    """'fuse/lg' -> ('fuse', 'lg'): how the first / second stream is handed over (default 'll')."""
    base, _, kinds = op.partition("/")
    return base, kinds or "ll"


def join_op(base, kinds):
    return base if kinds == "ll" else f"{base}/{kinds}"


def wrap_stream(stmts, kind):
    if kind == "l":
        return list(stmts)
    if kind == "t":
        return tuple(stmts)
    if kind == "g":
        return (s for s in list(stmts))
    raise ValueError(kind)


def run_fuse(a, b, kinds="ll"):
    from pymbolic.imperative.transform import fuse_statement_streams_with_unique_ids
    out, idmap = fuse_statement_streams_with_unique_ids(
        wrap_stream(build_stream(a), kinds[0]), wrap_stream(build_stream(b), kinds[1]))
    return observe_stream(out), dict(idmap)


def run_daf(a, b, filt, kinds="ll"):
    from pymbolic.imperative.transform import disambiguate_and_fuse
    out, subst, idmap = disambiguate_and_fuse(
        wrap_stream(build_stream(a), kinds[0]), wrap_stream(build_stream(b), kinds[1]),
        filter_fn(filt))
    return observe_stream(out), subst_to_spec(subst), dict(idmap)


def run_disamb(a, b, filt, kinds="ll"):
    from pymbolic.imperative.transform import disambiguate_identifiers
    bout, subst = disambiguate_identifiers(
        wrap_stream(build_stream(a), kinds[0]), wrap_stream(build_stream(b), kinds[1]),
        filter_fn(filt))
    return observe_stream(bout), subst_to_spec(subst)


def case_fails(case):
    """case = (op, a, b, filt) with op in 'fuse', 'daf', 'disamb'.  -> list of (kind, detail).
    An exception of the real code is a failure of kind 'raises:<op>:<Class>'."""
    op, a, b, filt = case
    base, kinds = split_op(op)
    try:
        if base == "fuse":
            out, idmap = run_fuse(a, b, kinds)
            return check_transform(a, b, out, idmap, None, None)
        if base == "daf":
            out, subst, idmap = run_daf(a, b, filt, kinds)
            return check_transform(a, b, out, idmap, filt, subst)
        if base == "disamb":
            bout, subst = run_disamb(a, b, filt, kinds)
            return check_disamb_only(a, b, bout, filt, subst)
    except RecursionError:
        raise
    except Exception as e:  # noqa: BLE001
        return [(f"raises:{base}:{type(e).__name__}", f"{type(e).__name__}: {e}"[:300])]
    raise ValueError(op)


def show_case(case):
    op, a, b, filt = case
    f = "" if split_op(op)[0] == "fuse" or filt == "all" else f", filter={filt}"
    return f"{op}(A={show_stream(a)}, B={show_stream(b)}{f})"

# }}}


# {{{ well-formedness of inputs (preconditions of the property)

def acyclic(stream):
    deps = {s[1]: set(s[5]) for s in stream}
    seen, done = set(), set()

    def visit(n):
        if n in done:
            return True
        if n in seen:
            return False
        seen.add(n)
        ok = all(visit(m) for m in deps.get(n, ()))
        done.add(n)
        return ok
    return all(visit(n) for n in deps)


def well_formed(stream):
    ids = [s[1] for s in stream]
    return (len(set(ids)) == len(ids) and all(set(s[5]) <= set(ids) for s in stream)
            and acyclic(stream))

# }}}


# {{{ shrinking a failing case

def _expr_paths(e, prefix=()):
    for i, c in enumerate(spec_children(e)):
        yield from _expr_paths(c, (*prefix, i))
    yield prefix, e


def _replace(e, path, new):
    if not path:
        return new
    ch = list(spec_children(e))
    ch[path[0]] = _replace(ch[path[0]], path[1:], new)
    return rebuild(e, ch)


_NONEXPR = ("str", "none", "type", "map", "dict", "tuple")


def expr_simplifications(e, keep_root=False):
    """Smaller expressions: a sub-expression replaced by the constant 0 or by one of its own
    expression children."""
    for path, sub in _expr_paths(e):
        if sub[0] in _NONEXPR or sub == ZERO:
            continue
        if keep_root and not path:
            continue
        yield _replace(e, path, ZERO)
        if sub[0] == "int" and sub[1] not in (0, 1):
            yield _replace(e, path, ("int", 1))
        if sub[0] == "float" and sub[1] != 1.0:
            yield _replace(e, path, ("float", 1.0))
        if sub[0] == "Product":
            yield _replace(e, path, ("Sum", *sub[1:]))
        for c in spec_children(sub):
            if c[0] not in _NONEXPR:
                yield _replace(e, path, c)
            elif c[0] == "tuple":
                for cc in c[1:]:
                    if cc[0] not in _NONEXPR:
                        yield _replace(e, path, cc)


def _valid_lhs(lhs):
    return lhs[0] == "Variable" or (lhs[0] == "Subscript" and lhs[1][0] == "Variable")


def stmt_simplifications(s):
    cls, id, lhs, rhs, cond, deps = s
    if cls == "N":
        return
    yield ("N", id, None, None, None, deps)
    # jump straight to "n <- 0" for an identifier n of the statement (where an identifier sits
    # in a statement is irrelevant unless the failure depends on it)
    for name in sorted(stmt_idents(s)):
        t = ("A", id, Var(name), ZERO, None, deps)
        if t != s:
            yield t
    if lhs[0] == "Subscript":
        # likewise "n[index] <- 0", if that mentions fewer identifiers
        for name in sorted(stmt_idents(s)):
            t = ("A", id, ("Subscript", Var(name), lhs[2]), ZERO, None, deps)
            if len(stmt_idents(t)) < len(stmt_idents(s)):
                yield t
    # a non-trivial index / condition expression moved to the rhs of a plain assignment
    w = Var(written_name(s))
    movable = []
    if lhs[0] == "Subscript":
        movable.append(lhs[2])
    if cond is not None:
        movable.append(cond)
        movable.extend(c for c in spec_children(cond) if c[0] not in _NONEXPR)
    for e in movable:
        if e[0] not in ("int", "float", "bool", "Variable"):
            yield ("A", id, w, e, None, deps)
    if cls == "CA":
        yield ("A", id, lhs, rhs, None, deps)
        for c in expr_simplifications(cond):
            yield (cls, id, lhs, rhs, c, deps)
    for r in expr_simplifications(rhs):
        yield (cls, id, lhs, r, cond, deps)
    if lhs[0] == "Subscript":
        yield (cls, id, lhs[1], rhs, cond, deps)
        for name in sorted(scan_vars(lhs[2])[0]):
            yield (cls, id, Var(name), rhs, cond, deps)
        if lhs[2][0] == "tuple":
            for ix in lhs[2][1:]:
                yield (cls, id, ("Subscript", lhs[1], ix), rhs, cond, deps)
        for ix in expr_simplifications(lhs[2]):
            yield (cls, id, ("Subscript", lhs[1], ix), rhs, cond, deps)


def stream_simplifications(stream):
    for i, s in enumerate(stream):
        rid = s[1]
        yield tuple((t[0], t[1], t[2], t[3], t[4], tuple(d for d in t[5] if d != rid))
                    for j, t in enumerate(stream) if j != i)
    for i, s in enumerate(stream):
        for d in s[5]:
            yield (*stream[:i], (*s[:5], tuple(x for x in s[5] if x != d)), *stream[i + 1:])
    for i, s in enumerate(stream):
        for t in stmt_simplifications(s):
            yield (*stream[:i], t, *stream[i + 1:])


def case_simplifications(case):
    op, a, b, filt = case
    for a2 in stream_simplifications(a):
        yield (op, a2, b, filt)
    for b2 in stream_simplifications(b):
        yield (op, a, b2, filt)
    base_op, kinds = split_op(op)
    if kinds != "ll":
        yield (base_op, a, b, filt)
        for k2 in (kinds[0] + "l", "l" + kinds[1]):
            if k2 != kinds and k2 != "ll":
                yield (join_op(base_op, k2), a, b, filt)
    if base_op != "fuse" and filt != "all":
        yield (op, a, b, "all")
        base, style = _split_filter(filt)
        if style != "bool":
            yield (op, a, b, base)
        if base.startswith("only:"):
            yield (op, a, b, "none" + ("" if style == "bool" else "@" + style))
    # uniform rewrites of the whole case (twins must change together)
    for fn in (_product_to_sum, _small_constants):
        cand = (op, _map_exprs(a, fn), _map_exprs(b, fn), filt)
        if cand != case:
            yield cand
    # a statement carrying two non-trivial expressions split into two plain assignments
    for side, stream in ((1, a), (2, b)):
        for i, t in enumerate(stream):
            parts = _split_stmt(t, {x[1] for x in a} | {x[1] for x in b})
            if parts:
                new = (*stream[:i], *parts, *stream[i + 1:])
                yield (op, new, b, filt) if side == 1 else (op, a, new, filt)
    # identify two identifiers (strictly fewer distinct names, so this terminates)
    names = sorted(stream_idents(a) | stream_idents(b))
    for i, n in enumerate(names):
        for m in names[i + 1:]:
            yield (op, _merge_name(a, m, n), _merge_name(b, m, n), filt)


def _map_exprs(stream, fn):
    def rec(e):
        if e is None:
            return None
        ch = spec_children(e)
        if ch:
            e = rebuild(e, [rec(c) for c in ch])
        return fn(e)
    return tuple((t[0], t[1], rec(t[2]), rec(t[3]), rec(t[4]), t[5]) for t in stream)


def _product_to_sum(e):
    return ("Sum", *e[1:]) if e[0] == "Product" else e


def _small_constants(e):
    if e[0] == "int" and e[1] not in (0, 1):
        return ("int", 1)
    if e[0] == "float" and e[1] != 1.0:
        return ("float", 1.0)
    return e


def _split_stmt(t, used_ids):
    cls, id, lhs, rhs, cond, deps = t
    if cls == "N":
        return None
    trivial = ("int", "float", "bool", "Variable")
    exprs = [e for e in ((lhs[2] if lhs[0] == "Subscript" else None), rhs, cond)
             if e is not None and e[0] not in trivial]
    if len(exprs) < 2:
        return None
    w = Var(written_name(t))
    out = []
    for k, e in enumerate(exprs):
        nid = id if k == 0 else f"{id}_{k}"
        if k and nid in used_ids:
            return None
        out.append(("A", nid, w, e, None, deps if k == 0 else ()))
    return tuple(out)


def _merge_name(stream, old, new):
    def rv(e):
        if e is None:
            return None
        if e[0] == "Variable":
            return Var(new) if e[1][1] == old else e
        if e[0] == "Lookup":
            return ("Lookup", rv(e[1]), ("str", new) if e[2][1] == old else e[2])
        ch = spec_children(e)
        if not ch:
            return e
        return rebuild(e, [rv(c) for c in ch])
    return tuple((t[0], t[1], rv(t[2]), rv(t[3]), rv(t[4]), t[5]) for t in stream)


def rename_case(case, names=True, ids=True):
    """Identifiers renamed v0, v1, ... and / or ids renamed i0, i1, ... in order of first
    occurrence."""
    op, a, b, filt = case
    vmap, imap = {}, {}

    def rv(e):
        if e is None or not names:
            return e
        if e[0] == "Variable":
            n = e[1][1]
            if n not in vmap:
                vmap[n] = f"v{len(vmap)}"
            return Var(vmap[n])
        if e[0] == "Lookup":
            # attribute names are renamed along with equally named identifiers, so that a
            # coincidence of the two survives the canonical naming
            n = e[2][1]
            if n not in vmap:
                vmap[n] = f"v{len(vmap)}"
            return ("Lookup", rv(e[1]), ("str", vmap[n]))
        ch = spec_children(e)
        if not ch:
            return e
        return rebuild(e, [rv(c) for c in ch])

    def ri(i):
        if not ids:
            return i
        if i not in imap:
            imap[i] = f"i{len(imap)}"
        return imap[i]

    def rs(stream):
        out = [(s[0], ri(s[1]), rv(s[2]), rv(s[3]), rv(s[4]), s[5]) for s in stream]
        return tuple((*s[:5], tuple(sorted(ri(d) for d in s[5]))) for s in out)

    a2 = rs(a)
    b2 = rs(b)
    if names and filt.startswith("only:"):
        base, style = _split_filter(filt)
        filt = "only:" + ",".join(sorted(vmap.get(n, n) for n in base[5:].split(",")))
        if style != "bool":
            filt += "@" + style
    return (op, a2, b2, filt)


def _drop_stmt(stream, i):
    rid = stream[i][1]
    return tuple((*t[:5], tuple(d for d in t[5] if d != rid))
                 for j, t in enumerate(stream) if j != i)


_SHRINK_MEMO: dict = {}


def shrink_case(case, kind, budget=400):
    """Reduction of *case* keeping a failure of the same *kind*: first drop statements (one pass
    per round, so long fused streams shrink in linearly many runs), then greedy local
    simplifications, then canonical ids and names where that keeps the failure too.  A failure
    of the disambiguation (fusion) clauses inside disambiguate_and_fuse is reduced on
    disambiguate_identifiers (fuse_statement_streams_with_unique_ids) if it shows there as
    well."""
    def still(c):
        return any(k == kind for k, _ in case_fails(c))

    base_op, kinds = split_op(case[0])
    if base_op == "daf" and kind.startswith("disamb:"):
        cand = (join_op("disamb", kinds), *case[1:])
        if still(cand):
            case = cand
    if base_op == "daf" and kind.startswith("fuse:"):
        cand = (join_op("fuse", kinds), case[1], case[2], "all")
        if still(cand):
            case = cand
    changed = True
    while changed:
        changed = False
        for side in (1, 2):
            i = 0
            while i < len(case[side]):
                cand = list(case)
                cand[side] = _drop_stmt(case[side], i)
                cand = tuple(cand)
                if still(cand):
                    case = cand
                    changed = True
                else:
                    i += 1
    key = (kind, case)
    if key in _SHRINK_MEMO:
        return _SHRINK_MEMO[key]
    steps = 0
    progress = True
    while progress and steps < budget:
        progress = False
        for cand in case_simplifications(case):
            steps += 1
            if still(cand):
                case = cand
                progress = True
                break
            if steps >= budget:
                break
    if split_op(case[0])[0] == "disamb":
        ren = {t[1]: f"b{i}" for i, t in enumerate(case[2])}
        cand = (case[0], case[1],
                tuple((t[0], ren[t[1]], t[2], t[3], t[4], tuple(sorted(ren[d] for d in t[5])))
                      for t in case[2]), case[3])
        if still(cand):
            case = cand
    for names, ids in ((True, True), (False, True), (True, False)):
        canon = rename_case(case, names, ids)
        if canon == case or still(canon):
            case = canon
            break
    _SHRINK_MEMO[key] = case
    return case

# }}}


# {{{ read / written sets of one statement

def rw_fails(s):
    """-> list of (kind, detail) for the read / written clause on the real statement."""
    try:
        stmt = build_stmt(s)
        got_w = set(stmt.get_written_variables())
        got_r = set(stmt.get_read_variables())
    except RecursionError:
        raise
    except Exception as e:  # noqa: BLE001
        return [(f"raises:rw:{type(e).__name__}", f"{type(e).__name__}: {e}"[:300])]
    w, req, perm = rw_reference(s)
    fails = []
    if got_w != w:
        fails.append(("written-set", f"{show_stmt(s)}: reports written {sorted(got_w)}, "
                                     f"scan finds {sorted(w)}"))
    if not req <= got_r:
        fails.append(("read-set-misses", f"{show_stmt(s)}: reports read {sorted(got_r)}, misses "
                                         f"{sorted(req - got_r)}"))
    if not got_r <= perm:
        fails.append(("read-set-invents", f"{show_stmt(s)}: reports read {sorted(got_r)}, but "
                                          f"{sorted(got_r - perm)} are not variables of the statement (they "
                                          f"occur nowhere, or only as function symbols, which "
                                          f"'x <- f(y)' does not report)"))
    return fails


def shrink_stmt(s, kind, budget=300):
    def still(c):
        return any(k == kind for k, _ in rw_fails(c))

    steps = 0
    progress = True
    while progress and steps < budget:
        progress = False
        for cand in stmt_simplifications(s):
            steps += 1
            if cand[0] == "N":
                continue
            if still(cand):
                s = cand
                progress = True
                break
    # generalise: make variable occurrences pairwise distinct where the failure survives
    k = 0
    for field in (2, 3, 4):
        if s[field] is None:
            continue
        for path, sub in list(_expr_paths(s[field])):
            if sub[0] != "Variable":
                continue
            cand = list(s)
            cand[field] = _replace(s[field], path, Var(f"w{k}"))
            cand = tuple(cand)
            if still(cand):
                s = cand
                k += 1
    canon = rename_case(("fuse", (s,), (), "all"))[1][0]
    canon = (canon[0], "s", *canon[2:])
    if still(canon):
        s = canon
    return s

# }}}


# {{{ dot export: independent transitive reduction and reader of the dot text

def dag_from_mask(n, mask):
    """Edges (i, j), i != j, of the digraph on 0..n-1 encoded by *mask* (bit k = k-th ordered
    pair in lexicographic order)."""
    edges = []
    k = 0
    for i in range(n):
        for j in range(n):
            if i == j:
                continue
            if mask >> k & 1:
                edges.append((i, j))
            k += 1
    return edges


def mask_is_acyclic(n, adj):
    """adj[i] = bitmask of successors.  Kahn-style elimination on bitmasks."""
    alive = (1 << n) - 1
    while alive:
        removed = False
        for i in range(n):
            if alive >> i & 1 and not adj[i] & alive:
                alive &= ~(1 << i)
                removed = True
        if not removed:
            return False
    return True


def transitive_reduction(nodes, deps):
    """deps: node -> set of nodes it depends on (a DAG).  Edge u->v belongs to the reduction iff
    the longest path from u to v has length 1."""
    memo = {}

    def longest(u, v):
        # longest path length from u to v, -1 if unreachable
        if u == v:
            return 0
        key = (u, v)
        if key in memo:
            return memo[key]
        best = -1
        for w in deps.get(u, ()):
            l = longest(w, v)
            if l >= 0:
                best = max(best, l + 1)
        memo[key] = best
        return best

    return {(u, v) for u in nodes for v in deps.get(u, ()) if longest(u, v) == 1}


_EDGE_RE = re.compile(r"^\s*\"?([A-Za-z0-9_]+)\"?\s*->\s*\"?([A-Za-z0-9_]+)\"?\s*(\[.*\])?;?\s*$")
_NODE_RE = re.compile(r"^\s*\"([A-Za-z0-9_]+)\"\s*\[.*\];\s*$")


def read_dot(text):
    """-> (list of node ids, list of (a, b) edges) in the order drawn."""
    nodes, edges = [], []
    for line in text.splitlines():
        m = _EDGE_RE.match(line)
        if m:
            edges.append((m.group(1), m.group(2)))
            continue
        m = _NODE_RE.match(line)
        if m:
            nodes.append(m.group(1))
    return nodes, edges


def dot_fails(stream):
    """Dot export of *stream* (well-formed) against the independent reduction."""
    from pymbolic.imperative.utils import get_dot_dependency_graph
    try:
        text = get_dot_dependency_graph(build_stream(stream))
    except RecursionError:
        raise
    except Exception as e:  # noqa: BLE001
        return [(f"raises:dot:{type(e).__name__}", f"{type(e).__name__}: {e}"[:300])]
    nodes, edges = read_dot(text)
    ids = [s[1] for s in stream]
    deps = {s[1]: set(s[5]) for s in stream}
    want = transitive_reduction(ids, deps)
    fails = []
    if sorted(nodes) != sorted(ids):
        fails.append(("dot:nodes", f"nodes drawn {nodes}, statements {ids}"))
    if len(set(edges)) != len(edges):
        fails.append(("dot:edge-drawn-twice", f"edges {edges}"))
    got = set(edges)
    if got - want:
        fails.append(("dot:extra-edge", f"drawn {sorted(got)}, transitive reduction "
                                        f"{sorted(want)}, extra {sorted(got - want)}"))
    if want - got:
        fails.append(("dot:missing-edge", f"drawn {sorted(got)}, transitive reduction "
                                          f"{sorted(want)}, missing {sorted(want - got)}"))
    return fails

# }}}

"""Run-time registration of a constant class (pymbolic.primitives.register_constant_class), as a
caller does it AFTER pymbolic and its mapper modules have been imported.  The table is restored
afterwards whatever happened."""
from __future__ import annotations

import contextlib
from fractions import Fraction


class Frac2(Fraction):
    """a number class of the user's own (closed under negation)"""

    def __neg__(self):
        return Frac2(-self.numerator, self.denominator)


@contextlib.contextmanager
def constant_class_history(phase, cls=Fraction):
    """phase: 'never' (not registered), 'registered', 'unregistered-again' (registered, then
    removed with unregister_constant_class).  Yields whether instances count as constants."""
    import pymbolic.mapper  # noqa: F401  (the mapper modules are loaded BEFORE the registration)
    import pymbolic.primitives as p
    saved = p.VALID_CONSTANT_CLASSES
    try:
        if phase in ("registered", "unregistered-again"):
            p.register_constant_class(cls)
        if phase == "unregistered-again":
            p.unregister_constant_class(cls)
        yield phase == "registered"
    finally:
        p.VALID_CONSTANT_CLASSES = saved


PHASES = ("never", "registered", "unregistered-again")

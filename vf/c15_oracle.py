"""Oracles for C15 (linear-form extraction and affine solving).  Independent of pymbolic's mappers:
everything works on neutral specs (vf.spec), exact rational functions (vf.exact.RatFun) and
fractions.Fraction.

Collector side
    * ``ratfun(spec)``            exact value of an expression over *atoms* (every algebraic leaf --
                                  variable, subscript, call -- is one opaque atom; a power whose
                                  exponent is not an integer constant is an opaque atom as well)
    * ``leaf_status`` / ``syn``   which leaves are target variables, syntactic affinity
    * ``nonaffine``               semantic non-affinity: some second finite difference in the target
                                  atoms is not the zero rational function

Collector side, node types outside + * / ** (floor division, remainder, shifts, bitwise and logical
operators, comparisons, if, min, max, common subexpressions): no rational function exists, so
    * ``ExactPoint`` / ``grid_table``   exact integer/Fraction value at every point of a small grid
    * ``grid_nonaffine``                a non-zero second finite difference at some grid point
                                        proves non-affinity (a vanishing one proves nothing)

Solver side
    * ``equation``                write the system  A u = B p + c  as (lhs, rhs) pairs in several
                                  equivalent forms
    * ``ref_solve``               Gauss-Jordan elimination over Fraction
"""
from __future__ import annotations

from fractions import Fraction
from functools import lru_cache

from vf.exact import Poly, RatFun
from vf.refsem import Ref
from vf.spec import C, T, V, show

LEAF_TAGS = ("Variable", "Subscript", "Call", "Lookup")
MAX_EXPONENT = 64         # |integer exponent| beyond which the exact domain refuses (never reached
#                           within the bounds of the check; a guard against C-level blow-up)


class Undefined(Exception):
    """The expression has no value anywhere (division by the zero function, 0 ** negative)."""


class Unsupported(Exception):
    """Outside the exact fragment (float constants, unknown node types, huge exponents)."""


# {{{ exact value of a spec

def atom_name(s) -> str:
    return s[1][1] if s[0] == "Variable" else show(s)


@lru_cache(maxsize=65536)
def ratfun(s) -> RatFun:
    """Exact value of an expression spec (memoised: RatFun objects are never mutated)."""
    t = s[0]
    if t in ("int", "bool"):
        return RatFun(int(s[1]))
    if t == "frac":
        return RatFun(Fraction(s[1], s[2]))
    if t in LEAF_TAGS:
        return RatFun.atom(atom_name(s))
    if t == "Sum":
        r = RatFun(0)
        for c in s[1][1:]:
            r = r + ratfun(c)
        return r
    if t == "Product":
        r = RatFun(1)
        for c in s[1][1:]:
            r = r * ratfun(c)
        return r
    if t == "Quotient":
        n, d = ratfun(s[1]), ratfun(s[2])
        if d.is_zero():
            raise Undefined(show(s))
        return n / d
    if t == "Power":
        b, e = ratfun(s[1]), ratfun(s[2])
        if e.is_const():
            ev = e.const_value()
            if ev.denominator == 1:
                ev = int(ev)
                if abs(ev) > MAX_EXPONENT:
                    raise Unsupported(f"exponent {ev}")
                if ev < 0 and b.is_zero():
                    raise Undefined(show(s))
                return b ** ev
        return RatFun.atom("pow:" + show(s))
    raise Unsupported(t)


@lru_cache(maxsize=65536)
def linform(s):
    """Exact value of an affine spec as a linear form {atom name: Fraction} ("1" = constant term),
    or None if the tree is not built from sums, products with at most one non-constant factor and
    quotients by constants.  Plain Fraction arithmetic; the result must not be mutated."""
    t = s[0]
    if t in ("int", "bool"):
        return {"1": Fraction(int(s[1]))} if s[1] else {}
    if t == "frac":
        return {"1": Fraction(s[1], s[2])} if s[1] else {}
    if t in LEAF_TAGS:
        return {atom_name(s): Fraction(1)}
    if t == "Sum":
        r = {}
        for c in s[1][1:]:
            f = linform(c)
            if f is None:
                return None
            for k, v in f.items():
                r[k] = r.get(k, 0) + v
        return {k: v for k, v in r.items() if v != 0}
    if t == "Product":
        scale, var = Fraction(1), None
        for c in s[1][1:]:
            f = linform(c)
            if f is None:
                return None
            if all(k == "1" for k in f):
                scale *= f.get("1", 0)
            elif var is None:
                var = f
            else:
                return None
        var = {"1": Fraction(1)} if var is None else var
        return {k: v * scale for k, v in var.items() if v * scale != 0}
    if t == "Quotient":
        n, d = linform(s[1]), linform(s[2])
        if n is None or d is None or any(k != "1" for k in d) or not d:
            return None
        return {k: v / d["1"] for k, v in n.items()}
    return None


def lin_sub(a, b):
    r = dict(a)
    for k, v in b.items():
        r[k] = r.get(k, 0) - v
    return {k: v for k, v in r.items() if v != 0}


def lin_subs(f, assign):
    """Substitute linear forms for atoms of the linear form *f*."""
    r = {}
    for k, v in f.items():
        for k2, v2 in (assign[k].items() if k in assign else ((k, 1),)):
            r[k2] = r.get(k2, 0) + v * v2
    return {k: v for k, v in r.items() if v != 0}


def leaves(s):
    """Algebraic leaves of an expression spec (does not descend into a leaf)."""
    t = s[0]
    if t in LEAF_TAGS:
        yield s
    elif t in ("Sum", "Product"):
        for c in s[1][1:]:
            yield from leaves(c)
    elif t in ("Quotient", "Power"):
        yield from leaves(s[1])
        yield from leaves(s[2])
    elif t in ("int", "bool", "frac", "float"):
        return
    else:
        raise Unsupported(t)


def names_in_leaf(s):
    out = []

    def rec(c):
        if not isinstance(c, tuple) or not c or not isinstance(c[0], str):
            return
        if c[0] == "Variable":
            out.append(c[1][1])
            return
        for x in c[1:]:
            rec(x)
    rec(s)
    return out

# }}}


# {{{ targets, syntactic and semantic affinity

def leaf_status(s, targets) -> str:
    """'target' / 'param' / 'ambiguous' for an algebraic leaf.  targets: None or frozenset of names.

    None: every algebraic leaf is a variable of the linear form.  Explicit names: a Variable is a
    target iff its name is listed; a composite leaf (subscript, call) mentioning no listed name is
    a parameter; one that does mention a listed name is 'ambiguous' (the statement does not say
    whether ``a[0]`` is "the variable a"): raising is accepted, and so is returning it as a key."""
    if targets is None:
        return "target"
    if s[0] == "Variable":
        return "target" if s[1][1] in targets else "param"
    return "ambiguous" if set(names_in_leaf(s)) & targets else "param"


def syn(s, targets) -> str:
    """Syntactic affinity: 'free' (no target inside), 'affine', 'no', 'open' (an ambiguous leaf is
    involved).  Sums of affine terms; products with at most one target-bearing factor; quotients
    with a target-free denominator; powers must be target-free."""
    t = s[0]
    if t in ("int", "bool", "frac"):
        return "free"
    if t in LEAF_TAGS:
        st = leaf_status(s, targets)
        return {"target": "affine", "param": "free", "ambiguous": "open"}[st]
    if t == "Sum":
        ks = [syn(c, targets) for c in s[1][1:]]
        if "open" in ks:
            return "open"
        if "no" in ks:
            return "no"
        return "affine" if "affine" in ks else "free"
    if t == "Product":
        ks = [syn(c, targets) for c in s[1][1:]]
        if "open" in ks:
            return "open"
        if "no" in ks:
            return "no"
        n = sum(1 for k in ks if k == "affine")
        return "free" if n == 0 else ("affine" if n == 1 else "no")
    if t == "Quotient":
        kn, kd = syn(s[1], targets), syn(s[2], targets)
        if "open" in (kn, kd):
            return "open"
        if kn == "no" or kd != "free":
            return "no"
        return kn
    if t == "Power":
        kb, ke = syn(s[1], targets), syn(s[2], targets)
        if "open" in (kb, ke):
            return "open"
        return "free" if kb == ke == "free" else "no"
    raise Unsupported(t)


def target_atoms(s, targets):
    """Atom names of the target (and ambiguous) leaves of *s*, in order of occurrence."""
    out = []
    for lf in leaves(s):
        if leaf_status(lf, targets) != "param":
            n = atom_name(lf)
            if n not in out:
                out.append(n)
    return out


def opaque_power_mentions_target(s, targets) -> bool:
    """A power that the exact domain keeps opaque and that contains a target leaf: its dependence on
    the targets cannot be decided exactly."""
    t = s[0]
    if t in ("Sum", "Product"):
        return any(opaque_power_mentions_target(c, targets) for c in s[1][1:])
    if t == "Quotient":
        return (opaque_power_mentions_target(s[1], targets)
                or opaque_power_mentions_target(s[2], targets))
    if t == "Power":
        if (opaque_power_mentions_target(s[1], targets)
                or opaque_power_mentions_target(s[2], targets)):
            return True
        e = ratfun(s[2])
        if e.is_const() and e.const_value().denominator == 1:
            return False
        return any(leaf_status(lf, targets) != "param" for lf in leaves(s))
    return False


def _shifted(value: RatFun, shifts):
    """(numerator, denominator) of value with atom a replaced by a + shifts[a]."""
    env = {a: Poly.atom(a) + k for a, k in shifts.items() if k}
    if not env:
        return value.n, value.d
    return Poly.lift(value.n.subs(env)), Poly.lift(value.d.subs(env))


def _signed_sum_is_zero(terms) -> bool:
    """sum s_i * n_i / d_i == 0, decided by cross-multiplication (no gcd needed)."""
    total = Poly.const(0)
    for i, (sgn, n, _) in enumerate(terms):
        prod = n * sgn
        for j, (_, _, d) in enumerate(terms):
            if j != i:
                prod = prod * d
        total = total + prod
    return total.is_zero()


def second_difference_is_zero(value: RatFun, t, u) -> bool:
    """D_t D_u value == 0 as a rational function, D_t f = f(t+1) - f(t)."""
    if t == u:
        terms = [(1, *_shifted(value, {t: 2})), (-2, *_shifted(value, {t: 1})),
                 (1, value.n, value.d)]
    else:
        terms = [(1, *_shifted(value, {t: 1, u: 1})), (-1, *_shifted(value, {t: 1})),
                 (-1, *_shifted(value, {u: 1})), (1, value.n, value.d)]
    return _signed_sum_is_zero(terms)


def nonaffine_fd(value: RatFun, tatoms) -> bool:
    """True iff *value* is not jointly affine in the atoms *tatoms*: some second finite difference
    D_t D_u value (t, u among tatoms, t = u included) is not identically zero.  (A rational function
    whose difference in t vanishes identically is periodic in t, hence free of t; so all second
    differences vanish iff value = sum c_t * t + d with c_t, d free of every target atom.)"""
    present = value.atoms()
    ts = [t for t in tatoms if t in present]
    for t in ts:
        if not second_difference_is_zero(value, t, t):
            return True
    for i, t in enumerate(ts):
        for u in ts[i + 1:]:
            if not second_difference_is_zero(value, t, u):
                return True
    return False


def nonaffine(value: RatFun, tatoms) -> bool:
    """Same decision as :func:`nonaffine_fd`, with a shortcut: if the denominator of the (unreduced)
    quotient mentions no target atom, value = n/d is jointly affine in the target atoms iff the
    polynomial n is, i.e. iff no monomial of n has total degree >= 2 in them.  (The check asserts
    that both decisions agree on every depth-2 tree.)"""
    tset = set(tatoms)
    if not (value.d.atoms() & tset):
        return any(sum(e for k, e in m if k in tset) >= 2 for m in value.n.t)
    return nonaffine_fd(value, tatoms)


def mentions_target(coeff_spec, targets) -> bool:
    """Does a returned coefficient (as a spec) contain a target / ambiguous leaf?"""
    try:
        return any(leaf_status(lf, targets) != "param" for lf in leaves(coeff_spec))
    except Unsupported:
        return True

# }}}


# {{{ pointwise exact semantics for trees with operators outside + * / **

FOREIGN_TAGS = ("FloorDiv", "Remainder", "LeftShift", "RightShift", "BitwiseNot", "BitwiseOr",
                "BitwiseXor", "BitwiseAnd", "Comparison", "LogicalNot", "LogicalOr", "LogicalAnd",
                "If", "Min", "Max", "CommonSubexpression")
GRID = (-2, -1, 0, 1, 2, 3)      # every atom takes every value of GRID (exact integer points)
MAX_GRID_ATOMS = 4               # trees with more atoms are not inputs of the pointwise oracle


class ExactPoint(Ref):
    """vf.refsem's reference evaluator (one plain Python operator per node) made exact: true
    division and negative powers over Fraction instead of float; every algebraic leaf is an opaque
    atom whose value is looked up by name."""

    def ev(self, s):
        v = super().ev(s)
        if isinstance(v, Fraction) and v.denominator == 1:
            return int(v)
        return v

    def _atom(self, s):
        return self.env[atom_name(s)]

    n_Variable = n_Subscript = n_Call = n_Lookup = _atom

    def n_frac(self, s):
        return Fraction(s[1], s[2])

    def n_Quotient(self, s):
        return Fraction(self.ev(s[1])) / Fraction(self.ev(s[2]))

    def n_Power(self, s):
        b, e = self.ev(s[1]), self.ev(s[2])
        if isinstance(e, bool):
            e = int(e)
        if not isinstance(e, int) or abs(e) > MAX_EXPONENT:
            raise Unsupported("exponent")
        return Fraction(b) ** e

    def n_LeftShift(self, s):
        a, n = self.ev(s[1]), self.ev(s[2])
        if isinstance(n, int) and n > MAX_EXPONENT:
            raise Unsupported("shift")
        return a << n


def has_foreign(s) -> bool:
    if not isinstance(s, tuple) or not s or not isinstance(s[0], str):
        return False
    if s[0] in FOREIGN_TAGS:
        return True
    if s[0] in LEAF_TAGS or s[0] in ("int", "bool", "frac", "str", "none"):
        return False
    return any(has_foreign(c) for c in s[1:])


def leaves_any(s):
    """Algebraic leaves of any expression spec (does not descend into a leaf)."""
    if not isinstance(s, tuple) or not s or not isinstance(s[0], str):
        return
    if s[0] in LEAF_TAGS:
        yield s
        return
    if s[0] in ("int", "bool", "frac", "float", "complex", "str", "none", "type"):
        return
    for c in s[1:]:
        yield from leaves_any(c)


def atoms_of(s):
    out = []
    for lf in leaves_any(s):
        n = atom_name(lf)
        if n not in out:
            out.append(n)
    return out


def point_value(s, env):
    """Exact value of *s* at the point *env* (atom name -> int), or None where it has none
    (division by zero, negative shift count, non-integer operand of a shift, ...)."""
    try:
        return ExactPoint(env).ev(s)
    except RecursionError:
        raise
    except Exception:  # noqa: BLE001
        return None


@lru_cache(maxsize=4096)
def grid_table(s):
    """-> (atom names, {point: exact value or None}) over GRID ** atoms; None if too many atoms."""
    import itertools
    atoms = tuple(atoms_of(s))
    if len(atoms) > MAX_GRID_ATOMS:
        return None
    table = {}
    for pt in itertools.product(GRID, repeat=len(atoms)):
        table[pt] = point_value(s, dict(zip(atoms, pt)))
    return atoms, table


def grid_nonaffine(s, tatoms):
    """A grid point and a pair of target atoms at which the second finite difference of *s* is a
    non-zero number (all points involved have a value): a proof that *s* is not affine in the
    target atoms.  None if there is no such point on the grid (which proves nothing)."""
    atoms, table = grid_table(s)
    idx = [atoms.index(t) for t in tatoms if t in atoms]

    def shift(pt, i, k=1):
        return pt[:i] + (pt[i] + k,) + pt[i + 1:]

    for pt, f0 in table.items():
        if f0 is None:
            continue
        for a, i in enumerate(idx):
            f1, f2 = table.get(shift(pt, i)), table.get(shift(pt, i, 2))
            if f1 is not None and f2 is not None and f2 - 2 * f1 + f0 != 0:
                return pt, atoms[i], atoms[i]
            if f1 is None:
                continue
            for j in idx[a + 1:]:
                g1 = table.get(shift(pt, j))
                g2 = table.get(shift(shift(pt, i), j))
                if g1 is not None and g2 is not None and g2 - f1 - g1 + f0 != 0:
                    return pt, atoms[i], atoms[j]
    return None


def mentions_target_any(coeff_spec, targets) -> bool:
    return any(leaf_status(lf, targets) != "param" for lf in leaves_any(coeff_spec))

# }}}


# {{{ affine systems

PARAM_SPECS = {
    "p": V("p"),
    "q": V("q"),
    "a0": ("Subscript", V("a"), C(0)),
    # distinct parameters that PRINT alike: the subscript a[0] and a variable named "a[0]", the
    # look-up s.f and a variable named "s.f" (atoms of the oracle are told apart by structure)
    "a0v": V("a[0]"),
    "sf": ("Lookup", V("s"), ("str", "f")),
    "sfv": V("s.f"),
}


def _term(coeff, atom):
    if atom is None:
        return C(coeff)
    if coeff == 1:
        return atom
    return ("Product", T(C(coeff), atom))


def _linear(terms):
    """terms: [(coeff, atom spec or None)] -> spec; zero terms dropped."""
    ts = [_term(c, a) for c, a in terms if c != 0]
    if not ts:
        return C(0)
    if len(ts) == 1:
        return ts[0]
    return ("Sum", T(*ts))


FORMS = ("std", "swap", "moved", "left", "split")


def equation(form, unknowns, row, rhs):
    """One equation  sum_j row[j]*unknowns[j] = rhs  written as an (lhs, rhs) pair of specs.
    rhs: tuple of (name, coeff) with name "1" for the constant term.

    std    all unknowns on the left, parameters and constant on the right
    swap   the same with the sides exchanged
    moved  only the first unknown term stays on the left
    left   everything on the left, 0 on the right
    split  u_1 + ... + u_n + (parameters of rhs) + 1 added to BOTH sides: every unknown, every
           parameter and the constant occur on both sides
    """
    uterms = [(a, V(u)) for a, u in zip(row, unknowns)]
    rterms = [(c, None if n == "1" else PARAM_SPECS[n]) for n, c in rhs]
    if form == "std":
        return _linear(uterms), _linear(rterms)
    if form == "swap":
        return _linear(rterms), _linear(uterms)
    if form == "moved":
        nz = [i for i, (a, _) in enumerate(uterms) if a != 0]
        keep = nz[:1]
        left = [uterms[i] for i in keep]
        moved = [(-a, u) for i, (a, u) in enumerate(uterms) if i not in keep]
        return _linear(left), _linear(rterms + moved)
    if form == "left":
        return _linear(uterms + [(-c, a) for c, a in rterms]), C(0)
    if form == "split":
        const = sum(c for c, a in rterms if a is None)
        pterms = [(c, a) for c, a in rterms if a is not None]
        left = [(a + 1, u) for a, u in uterms] + [(1, a) for _, a in pterms] + [(1, None)]
        right = ([(1, u) for _, u in uterms] + [(c + 1, a) for c, a in pterms]
                 + [(const + 1, None)])
        return _linear(left), _linear(right)
    raise ValueError(form)


def side_atoms(spec):
    """Atoms of the top-level terms of one side: names, and "1" for a constant term."""
    terms = spec[1][1:] if spec[0] == "Sum" else (spec,)
    out = set()
    for t in terms:
        if t[0] == "int":
            out.add("1")            # a bare constant side is {1: c} for the collector, also c = 0
        elif t[0] == "Product":
            out.add(atom_name(t[1][2]))
        else:
            out.add(atom_name(t))
    return out


def both_sides(eqs, unknowns) -> str:
    """Which kinds of atoms occur on both sides of one equation: subset of unknown/param/const."""
    kinds = set()
    for lhs, rhs in eqs:
        for a in side_atoms(lhs) & side_atoms(rhs):
            kinds.add("const" if a == "1" else ("unknown" if a in unknowns else "param"))
    return "+".join(sorted(kinds)) or "-"


@lru_cache(maxsize=4096)
def ref_solve(rows, rhss):
    """Exact reference: Gauss-Jordan over Fraction on [A | B c].

    rows: m tuples of n ints; rhss: m tuples of (name, coeff).
    -> (cls, params, solution) with cls in 'inconsistent', 'rank-deficient', 'unique-integral',
    'unique-fractional'; solution[j] = {name: Fraction} (name "1" = constant) when unique."""
    m = len(rows)
    n = len(rows[0]) if rows else 0
    params = []
    for r in rhss:
        for name, _ in r:
            if name not in params:
                params.append(name)
    if "1" in params:
        params.remove("1")
    params.append("1")
    M = []
    for row, r in zip(rows, rhss):
        d = {}
        for name, c in r:
            d[name] = d.get(name, 0) + c
        M.append([Fraction(a) for a in row] + [Fraction(d.get(p, 0)) for p in params])
    r = 0
    pivot_row = {}
    for j in range(n):
        piv = next((i for i in range(r, m) if M[i][j] != 0), None)
        if piv is None:
            continue
        M[r], M[piv] = M[piv], M[r]
        pv = M[r][j]
        M[r] = [v / pv for v in M[r]]
        for i in range(m):
            if i != r and M[i][j] != 0:
                f = M[i][j]
                M[i] = [vi - f * vr for vi, vr in zip(M[i], M[r])]
        pivot_row[j] = r
        r += 1
    for i in range(m):
        if all(v == 0 for v in M[i][:n]) and any(v != 0 for v in M[i][n:]):
            return "inconsistent", params, None
    if r < n:
        return "rank-deficient", params, None
    sol = [dict(zip(params, M[pivot_row[j]][n:])) for j in range(n)]
    integral = all(v.denominator == 1 for s in sol for v in s.values())
    return ("unique-integral" if integral else "unique-fractional"), params, sol


def show_system(eqs):
    return "; ".join(f"{show(lhs)} = {show(rhs)}" for lhs, rhs in eqs)

# }}}

"""Neutral tuple "specs" for pymbolic objects, a builder and a strict reader.

A spec is a nested tuple, hashable, orderable (through ``key``), printable and independent of
pymbolic:

    ("int", 1) ("float", 2.5) ("bool", True) ("complex", 1j) ("str", "x") ("none",)
    ("tuple", s1, s2, ...) ("list", s1, ...) ("array", shape, s1, ...)      (flat, C order)
    ("map", (key, s), ...)   keyword-argument mapping (immutabledict), ("dict", ...) plain dict
    ("type", "float")        a Python type object used as a field value (NaN.data_type)
    (ClassName, f1, f2, ...) an Expression node; fields in dataclass / init-arg order

Class tags start with an upper-case letter, primitive tags with a lower-case one.

``build``   constructs objects by direct constructor calls only (never operators / mappers).
``to_spec`` reads an object back using dataclasses.fields / __getinitargs__ only and is strict
            about constant types.
"""
from __future__ import annotations

import dataclasses
import warnings

import numpy as np
from immutabledict import immutabledict

import pymbolic.primitives as p

_CONST = {"int": int, "float": float, "bool": bool, "complex": complex}
_TYPES = {"float": float, "int": int, "complex": complex,
          "np.float64": np.float64, "np.float32": np.float32}
_TYPES_REV = {v: k for k, v in _TYPES.items()}

_REGISTRY: dict[str, type] = {}


def register_class(cls, tag=None):
    """Make a user node class buildable from specs."""
    tag = tag or class_tag(cls)
    _REGISTRY[tag] = cls
    return cls


def class_tag(cls) -> str:
    if cls.__module__ == "pymbolic.primitives":
        return cls.__name__
    return f"U:{cls.__module__}.{cls.__qualname__}"


def _lookup(tag):
    cls = _REGISTRY.get(tag)
    if cls is not None:
        return cls
    if tag.startswith("U:"):
        import importlib
        modname, _, clsname = tag[2:].rpartition(".")
        mod = importlib.import_module(modname)
        cls = getattr(mod, clsname)
    else:
        cls = getattr(p, tag)
    _REGISTRY[tag] = cls
    return cls


def is_node(s) -> bool:
    return s[0][0].isupper()


# {{{ build

def build_shared(s, memo=None):
    """Like build(), but equal sub-specs become the *same* object (hash-consing), the way
    expressions assembled from shared Python variables look."""
    if memo is None:
        memo = {}
    if s in memo:
        return memo[s]
    t = s[0]
    if t[0].isupper():
        cls = _lookup(t)
        with warnings.catch_warnings():
            warnings.simplefilter("ignore")
            o = cls(*[build_shared(c, memo) for c in s[1:]])
    elif t == "tuple":
        o = tuple([build_shared(c, memo) for c in s[1:]])
    elif t == "map":
        o = immutabledict([(k, build_shared(v, memo)) for k, v in s[1:]])
    else:
        o = build(s)
    try:
        memo[s] = o
    except TypeError:
        pass
    return o


def build(s):
    t = s[0]
    if t in _CONST:
        return s[1]
    if t == "str":
        return s[1]
    if t == "none":
        return None
    if t == "tuple":
        return tuple([build(c) for c in s[1:]])
    if t == "list":
        return [build(c) for c in s[1:]]
    if t == "array":
        shape = s[1]
        a = np.empty(shape, dtype=object)
        for i, c in zip(np.ndindex(shape), s[2:]):
            a[i] = build(c)
        return a
    if t == "map":
        return immutabledict([(k, build(v)) for k, v in s[1:]])
    if t == "dict":
        return {k: build(v) for k, v in s[1:]}
    if t == "mproxy":           # an unhashable Mapping that is not a dict
        import types
        return types.MappingProxyType({k: build(v) for k, v in s[1:]})
    if t == "userdict":
        import collections
        return collections.UserDict({k: build(v) for k, v in s[1:]})
    if t == "type":
        return _TYPES[s[1]]
    if t == "frac":
        from fractions import Fraction
        return Fraction(s[1], s[2])
    if t == "np":
        return np.dtype(s[1]).type(s[2])
    cls = _lookup(t)
    with warnings.catch_warnings():
        warnings.simplefilter("ignore")
        return cls(*[build(c) for c in s[1:]])

# }}}


# {{{ to_spec

def _to_spec_ordered(o):
    if isinstance(o, p.Expression):
        return (class_tag(type(o)), *[_to_spec_ordered(f) for f in node_fields(o)])
    if isinstance(o, tuple):
        return ("tuple", *[_to_spec_ordered(c) for c in o])
    if isinstance(o, list):
        return ("list", *[_to_spec_ordered(c) for c in o])
    if isinstance(o, np.ndarray):
        return ("array", tuple(o.shape), *[_to_spec_ordered(o[i]) for i in np.ndindex(o.shape)])
    if isinstance(o, immutabledict):
        return ("map", *[(k, _to_spec_ordered(v)) for k, v in o.items()])
    if isinstance(o, dict):
        return ("dict", *[(k, _to_spec_ordered(v)) for k, v in o.items()])
    return to_spec(o)


def node_fields(o):
    """Field values of an Expression by introspection only (no mapper)."""
    cls = type(o)
    if "_is_expr_dataclass" in cls.__dict__:
        return tuple(getattr(o, f.name) for f in dataclasses.fields(o))
    with warnings.catch_warnings():
        warnings.simplefilter("ignore")
        return tuple(o.__getinitargs__())


def to_spec(o, ordered=False):
    """Normal form: the entries of keyword mappings sorted by key (a mapping's equality ignores
    order).  ordered=True keeps the insertion order instead -- the order in which the values are
    evaluated and handed to the callee, which is what value comparisons have to use."""
    if ordered:
        return _to_spec_ordered(o)
    if isinstance(o, p.Expression):
        return (class_tag(type(o)), *[to_spec(f) for f in node_fields(o)])
    if isinstance(o, (bool, np.bool_)) and type(o) is bool:
        return ("bool", o)
    if type(o) is int:
        return ("int", o)
    if type(o) is float:
        return ("float", o)
    if type(o) is complex:
        return ("complex", o)
    if isinstance(o, str):
        return ("str", o)
    if o is None:
        return ("none",)
    if isinstance(o, tuple):
        return ("tuple", *[to_spec(c) for c in o])
    if isinstance(o, list):
        return ("list", *[to_spec(c) for c in o])
    if isinstance(o, np.ndarray):
        return ("array", tuple(o.shape), *[to_spec(o[i]) for i in np.ndindex(o.shape)])
    if isinstance(o, np.generic):
        return ("np", o.dtype.name, o.item())
    if isinstance(o, immutabledict):
        return ("map", *sorted((k, to_spec(v)) for k, v in o.items()))
    if isinstance(o, dict):
        return ("dict", *sorted((k, to_spec(v)) for k, v in o.items()))
    if isinstance(o, type):
        return ("type", _TYPES_REV.get(o, o.__name__))
    from fractions import Fraction
    if isinstance(o, Fraction):
        return ("frac", o.numerator, o.denominator)
    return ("opaque", type(o).__name__, repr(o))


def sort_maps(s):
    """Spec with the entries of every keyword mapping sorted by key (to_spec's normal form)."""
    if not isinstance(s, tuple) or not s or not isinstance(s[0], str):
        return s
    if s[0] in ("map", "dict"):
        return (s[0], *sorted((k, sort_maps(v)) for k, v in s[1:]))
    if s[0] == "array":
        return (s[0], s[1], *[sort_maps(c) for c in s[2:]])
    return (s[0], *[sort_maps(c) if isinstance(c, tuple) else c for c in s[1:]])


def strict_equal(a, b) -> bool:
    return to_spec(a) == to_spec(b)

# }}}


# {{{ convenience constructors (specs)

def C(v):
    if isinstance(v, bool):
        return ("bool", v)
    if isinstance(v, int):
        return ("int", v)
    if isinstance(v, float):
        return ("float", v)
    if isinstance(v, complex):
        return ("complex", v)
    raise TypeError(v)


def S(s):
    return ("str", s)


def V(name):
    return ("Variable", ("str", name))


def T(*items):
    return ("tuple", *items)


def L(*items):
    return ("list", *items)


NONE = ("none",)

SCOPE_EVAL = ("str", "pymbolic_eval")
SCOPE_EXPR = ("str", "pymbolic_expr")
SCOPE_GLOBAL = ("str", "pymbolic_global")


def Call(f, *params):
    return ("Call", f, T(*params))


def CallKw(f, params, kw):
    return ("CallWithKwargs", f, T(*params), ("map", *kw))


def Sub(a, i):
    return ("Subscript", a, i)


def Look(a, name):
    return ("Lookup", a, S(name))


def nary(tag, *ch):
    return (tag, T(*ch))


def Sum(*ch):
    return ("Sum", T(*ch))


def Prod(*ch):
    return ("Product", T(*ch))


def Quot(a, b):
    return ("Quotient", a, b)


def FDiv(a, b):
    return ("FloorDiv", a, b)


def Rem(a, b):
    return ("Remainder", a, b)


def Pow(a, b):
    return ("Power", a, b)


def Cmp(a, op, b):
    return ("Comparison", a, S(op), b)


def If(c, t, e):
    return ("If", c, t, e)


def CSE(c, prefix=None, scope=SCOPE_EVAL):
    return ("CommonSubexpression", c, NONE if prefix is None else S(prefix), scope)


def Slice(*ch):
    return ("Slice", T(*ch))

# }}}


# {{{ traversal helpers on specs

def spec_children(s):
    """Direct sub-specs of *s* (everything that is itself a spec)."""
    t = s[0]
    if t in _CONST or t in ("str", "none", "type", "np", "frac", "opaque"):
        return ()
    if t == "array":
        return s[2:]
    if t in ("map", "dict"):
        return tuple(v for _, v in s[1:])
    return s[1:]


def rebuild(s, new_children):
    t = s[0]
    if t == "array":
        return (t, s[1], *new_children)
    if t in ("map", "dict"):
        return (t, *[(k, c) for (k, _), c in zip(s[1:], new_children)])
    return (t, *new_children)


def walk(s):
    yield s
    for c in spec_children(s):
        yield from walk(c)


def expr_subspecs(s):
    """All sub-specs that denote expressions (nodes, constants, containers) -- not strings."""
    for c in walk(s):
        if c[0] not in ("str", "none", "type", "map", "dict"):
            yield c


def variables_of(s):
    out = []
    for c in walk(s):
        if c[0] == "Variable" and c[1][1] not in out:
            out.append(c[1][1])
    return out


def size(s):
    return sum(1 for _ in walk(s))


def depth(s):
    ch = spec_children(s)
    return 1 + max((depth(c) for c in ch), default=0)


def key(s):
    """Total order on specs (for deterministic sorting of heterogeneous tuples)."""
    return repr(s)

# }}}


# {{{ rendering

_INFIX = {"Quotient": "/", "FloorDiv": "//", "Remainder": "%", "Power": "**",
          "LeftShift": "<<", "RightShift": ">>"}
_NARY = {"Sum": "Sum", "Product": "Product", "BitwiseOr": "BitwiseOr", "BitwiseXor": "BitwiseXor",
         "BitwiseAnd": "BitwiseAnd", "LogicalOr": "LogicalOr", "LogicalAnd": "LogicalAnd",
         "Min": "Min", "Max": "Max", "Slice": "Slice"}


def show(s) -> str:
    """Compact, unambiguous rendering used in signatures and reports."""
    t = s[0]
    if t in _CONST:
        return repr(s[1])
    if t == "str":
        return repr(s[1])
    if t == "none":
        return "None"
    if t == "type":
        return f"<{s[1]}>"
    if t == "np":
        return f"np.{s[1]}({s[2]!r})"
    if t == "frac":
        return f"Fraction({s[1]},{s[2]})"
    if t == "opaque":
        return f"<{s[1]} {s[2]}>"
    if t == "tuple":
        return "(" + ", ".join(show(c) for c in s[1:]) + ("," if len(s) == 2 else "") + ")"
    if t == "list":
        return "[" + ", ".join(show(c) for c in s[1:]) + "]"
    if t == "array":
        return f"array{s[1]}[" + ", ".join(show(c) for c in s[2:]) + "]"
    if t in ("map", "dict"):
        return t + "{" + ", ".join(f"{k}={show(v)}" for k, v in s[1:]) + "}"
    if t == "Variable":
        return s[1][1]
    if t in _NARY and len(s) == 2 and s[1][0] == "tuple":
        return f"{t}(" + ", ".join(show(c) for c in s[1][1:]) + ")"
    if t == "Comparison":
        return f"Comparison({show(s[1])}, {s[2][1]}, {show(s[3])})"
    if t == "CommonSubexpression":
        extra = ""
        if s[2] != NONE:
            extra += f", prefix={s[2][1]}"
        if s[3] != SCOPE_EVAL:
            extra += f", scope={show(s[3])}"
        return f"CSE({show(s[1])}{extra})"
    return f"{t}(" + ", ".join(show(c) for c in s[1:]) + ")"


def canon_vars(s, mapping=None):
    """Rename variables v0, v1, ... in order of first occurrence."""
    if mapping is None:
        mapping = {}

    def rec(c):
        if c[0] == "Variable":
            n = c[1][1]
            if n not in mapping:
                mapping[n] = f"v{len(mapping)}"
            return ("Variable", ("str", mapping[n]))
        ch = spec_children(c)
        if not ch:
            return c
        return rebuild(c, [rec(x) for x in ch])
    return rec(s)

# }}}

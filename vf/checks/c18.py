"""C18 -- multivectors obey the axioms of geometric (Clifford) algebra.

Engine A on flat inputs.  Every space (dimension x diagonal metric over {1,-1,0,2} x dtype of the
metric matrix) is explored completely: all pairs and triples of basis blades with exact
coefficients, all two-term combinations (bilinearity), every multivector with coefficients in
{0,1,-1} in dimension <= 2 (bilinearity in full, ==, hash, bool), the unary operations on every
blade and every sum of two blades, construction from index tuples in every permutation.

Oracle: ``vf.c18_ref`` -- products of basis blades computed on index *lists* (concatenate,
bubble-sort with sign flips, contract equal neighbours with the metric entry), exact in
``Fraction`` / ``RF`` (rational functions in x, y).  The implementation works on bitmaps with popcount sign formulas.

A failing case is shrunk (drop terms, drop indices, coefficients -> 1, metric entries -> 1, metric
dtype -> object, remove unused dimensions) to a local minimum that still fails with the same
kind; the signature is the kind plus the canonical rendering of that minimum.
"""
from __future__ import annotations

import itertools
import operator
import os
from fractions import Fraction
from functools import lru_cache

import numpy as np

from vf.c18_ref import (
    PTS_TAGS, RF, Pts, RefAlgebra, Uninterpretable, all_blades, blade_product, coef_value, selftest)
from vf.run import Check, Hang, Res

# {{{ bounds (every bound has a name)

METRIC_ENTRIES = (1, -1, 0, 2)
DTYPES = ("obj", "i64", "f64")          # dtype of the metric matrix handed to Space
QUICK_DTYPES_2 = ("obj", "i64")         # triples (thorough: in dimension >= 4), full
QUICK_DTYPES_1 = ("obj",)               # quick tier: lin21, lin22; thorough: lin21 in dimension 5
QUICK_MAX_DIM = 3                       # all metrics over METRIC_ENTRIES up to this dimension
THOROUGH_MAX_DIM = 4
REDUCED_DIM = 5                         # thorough only, with REDUCED_METRICS
REDUCED_METRICS = (
    (1, 1, 1, 1, 1), (-1, -1, -1, -1, -1), (1, 1, 1, 1, -1), (1, -1, 1, -1, 1),
    (0, 1, 1, 1, 1), (1, 1, 1, 0, -1), (2, -1, 0, 1, 2), (2, 2, -1, -1, 0))
REDUCED_METRICS_4 = (                   # for the families too large for all 256 metrics in dim 4
    (1, 1, 1, 1), (-1, -1, -1, -1), (1, 1, 1, -1), (-1, 1, 1, 1), (1, -1, 1, -1),
    (0, 1, 1, 1), (2, -1, 0, 1), (2, 2, -1, 0))
REDUCED_METRICS_3 = (
    (1, 1, 1), (-1, -1, -1), (1, 1, -1), (-1, 1, 1), (0, 1, 1), (1, 0, -1), (2, -1, 0),
    (2, 2, 2))

NUMERIC = ("1", "-1", "2", "1/2")       # exact coefficient set (plus the symbols x, y)
INTS = ("1", "-1", "2")                 # what may be mixed with a symbol (see assumptions)
PAIR_COEFFS = tuple(
    [(a, b) for a in NUMERIC for b in NUMERIC]
    + [("x", b) for b in INTS] + [(a, "x") for a in INTS] + [("x", "x"), ("x", "y")]
    # composite coefficient expressions (FloorDiv, Remainder, Quotient, Power, Call, Sum, Product)
    + [("n//2", "n%3"), ("f(n)", "n/3"), ("n**2", "(n+1)//3")])
TRIPLE_COEFFS = (("1", "1", "1"), ("2", "-1", "1/2"), ("x", "y", "2"))
LIN21_COEFFS = (("1", "1", "1"), ("1", "-1", "2"), ("2", "1/2", "-1"), ("x", "1", "2"),
                ("x", "y", "1"), ("n//2", "n%3", "f(n)"))
LIN21_COEFFS_BIG = (("1", "-1", "2"), ("x", "y", "1"))       # dimension >= 4
LIN22_COEFFS = (("1", "1"), ("1", "-1"), ("-1", "1"), ("-1", "-1"))   # (c2, d2); c1 = d1 = 1
UNARY_COEFFS = ("1", "-1", "2", "1/2", "x", "n//2", "n%3")
UNARY_COEFFS_MORE = ("(n+1)//3", "n/3", "n**2", "f(n)", "n+1", "2*n")   # other node kinds
UNARY2_COEFFS = (("1", "1"), ("1", "-1"), ("2", "1/2"), ("2", "1"), ("x", "1"), ("x", "y"),
                 ("n//2", "n%3"))
FULL_COEFFS_QUICK = (0, 1, -1)          # per-blade coefficients of the "full" family
FULL_MAX_DIM = 2
FULL_COEFFS_THOROUGH_D2 = (0, 1, -1, 2)
FULL_COEFFS_THOROUGH_D3 = (0, 1)        # dimension 3, REDUCED_METRICS_3
CONSTRUCT_STRIPES = 16                  # the construction cases of a space are dealt over 16 rows
IDENTITY_COEFFS = (("1", "1"), ("2", "-1"), ("x", "y"))   # pairs: project/rev/invol identities
HISTORY_PRIORS = ("hash", "dict", "set", "eq")   # what was done to the operand(s) beforehand
HISTORY_PRIORS_BINARY = ("hash", "dict")
HISTORY_UNARY2_COEFFS = (("1", "1"), ("2", "-1"), ("x", "y"))
HISTORY_BINARY_COEFFS = (("1", "1"), ("x", "2"))
HIGH_DIMS = (31, 32, 33, 34, 64, 65)    # around the 32- and 64-bit word boundaries of the bitmaps
HIGH_MAX_GRADE = 3                      # blades of <= 3 pool indices (+ the whole pool)
HIGH_PAIR_COEFFS = (("1", "1"), ("2", "x"))
HIGH_PAIR_COEFFS_THOROUGH = (("1", "1"), ("2", "x"), ("1/2", "-1"))
HIGH_TRIPLE_MAX_GRADE = 2
HIGH_TRIPLE_LAST_MAX_GRADE = 1          # third factor of a high-dimensional triple: scalar or vector
HIGH_UNARY2_COEFFS = (("1", "1"), ("x", "y"))
PERM_MAX_LEN = 3                        # index tuples of at most this length, every permutation
FLOAT_TOL = 1e-12                       # only where the implementation itself produced a float
MAX_KINDS_SHRUNK_PER_CASE = 6
MAX_SHRINKS_PER_WORKER_AND_KIND = 400   # mass failures: the rest is reported unminimised
MAX_SIGS_PER_WORKER_AND_KIND = 4        # likewise: distinct minimal signatures per failure kind

# }}}


# {{{ spaces and coefficients

def high_pool(dim):
    """Basis indices around the word boundaries of the bitmap representation."""
    return sorted({0, 31, 32, 33, dim - 2, dim - 1} & set(range(dim)))


@lru_cache(maxsize=None)
def high_blades(dim):
    pool = high_pool(dim)
    out = [c for r in range(HIGH_MAX_GRADE + 1) for c in itertools.combinations(pool, r)]
    if len(pool) > HIGH_MAX_GRADE:
        out.append(tuple(pool))
    return out


def metrics(dim):
    return list(itertools.product(METRIC_ENTRIES, repeat=dim))


def space_list(dims, dtypes, extra=()):
    """(dim, metric, dtype) for every metric over METRIC_ENTRIES in *dims*; plus *extra*
    (dim, metrics, dtypes) groups.  A Euclidean metric is also run on the library's own default
    space (dtype tag "euc")."""
    out = []
    groups = [(d, metrics(d), dtypes) for d in dims] + list(extra)
    for d, ms, dts in groups:
        for m in ms:
            for dt in dts:
                out.append((d, tuple(m), dt))
            if all(g == 1 for g in m):
                out.append((d, tuple(m), "euc"))
    return out


class Ctx:
    """One space of the implementation and the reference algebra over the same metric."""

    def __init__(self, dim, metric, dtype):
        from pymbolic.geometric_algebra import Space, get_euclidean_space
        self.dim, self.metric, self.dtype = dim, tuple(metric), dtype
        if dtype == "euc":
            assert all(g == 1 for g in metric)
            self.space = get_euclidean_space(dim)
        else:
            npdt = {"obj": object, "i64": np.int64, "f64": np.float64}[dtype]
            mat = np.zeros((dim, dim), dtype=npdt)
            for i, g in enumerate(metric):
                mat[i, i] = g
            if dtype == "obj":          # the three ways of naming the basis
                self.space = Space(dim, mat)
            elif dtype == "i64":
                self.space = Space(metric_matrix=mat)
            else:
                self.space = Space([f"b{i}" for i in range(dim)], mat)
        self.ref = RefAlgebra(dim, self.metric)


@lru_cache(maxsize=None)
def ctx_for(dim, metric, dtype):
    return Ctx(dim, metric, dtype)


@lru_cache(maxsize=None)
def impl_coeff(tag):
    from pymbolic.primitives import Variable
    if tag in ("x", "y"):
        return Variable(tag)
    if tag in PTS_TAGS:             # built with the operators a user would write
        n, f = Variable("n"), Variable("f")
        return {"n//2": lambda: n // 2, "n%3": lambda: n % 3, "(n+1)//3": lambda: (n + 1) // 3,
                "n/3": lambda: n / 3, "n**2": lambda: n ** 2, "f(n)": lambda: f(n),
                "n+1": lambda: n + 1, "2*n": lambda: 2 * n}[tag]()
    if "/" in tag:
        n, d = tag.split("/")
        return Fraction(int(n), int(d))
    return int(tag)


@lru_cache(maxsize=None)
def ref_coeff(tag, sym):
    if tag in ("x", "y"):
        return RF.atom(tag)
    if tag in PTS_TAGS:
        return Pts.of_tag(tag)
    v = Fraction(tag)
    if v.denominator == 1:
        v = int(v)
    if sym == "pts":
        return Pts.lift(v)
    return RF.lift(v) if sym else v


def sym_mode(tags):
    """False: numeric; "rf": symbols x, y (exact rational functions); "pts": composite
    coefficient expressions in n (FloorDiv, Remainder, Call, ...), compared at POINTS."""
    tags = list(tags)
    if any(c in PTS_TAGS for c in tags):
        assert not any(c in ("x", "y") for c in tags)
        return "pts"
    return "rf" if any(c in ("x", "y") for c in tags) else False


def is_sym_terms(*operands):
    return sym_mode(c for terms in operands for _, c in terms)


def build(ctx, terms):
    """The implementation's multivector sum(c * e_blade), through the index-tuple constructor."""
    from pymbolic.geometric_algebra import MultiVector
    return MultiVector({tuple(b): impl_coeff(c) for b, c in terms}, ctx.space)


def refmv(terms, sym):
    return {tuple(b): ref_coeff(c, sym) for b, c in terms if c != "0"}


def build_from_ref(ctx, m):
    from pymbolic.geometric_algebra import MultiVector
    data = {}
    for b, v in m.items():
        data[b] = int(v) if v.denominator == 1 else v        # int and Fraction both have it
    return MultiVector(data, ctx.space)

# }}}


# {{{ observing the implementation

class Bad(Exception):
    def __init__(self, what, msg=""):
        super().__init__(what, msg)
        self.what, self.msg = what, msg


def run(fn, *args):
    try:
        return ("ok", fn(*args))
    except (Hang, RecursionError, MemoryError):
        raise
    except Exception as e:  # noqa: BLE001
        return ("err", type(e).__name__, str(e)[:160])


def observe(ctx, mv, sym):
    """-> ({blade: value}, inexact, stored_zero); raises Bad."""
    if type(mv).__name__ != "MultiVector":
        raise Bad("type", f"result is {type(mv).__name__}: {mv!r}"[:200])
    if mv.space is not ctx.space:
        raise Bad("space", "result lives in a different Space object")
    out = {}
    inexact = stored_zero = False
    for bits, coeff in mv.data.items():
        if (isinstance(bits, bool) or not isinstance(bits, (int, np.integer))
                or not 0 <= bits < 2 ** ctx.dim):
            raise Bad("badkey", f"data key {bits!r}")
        blade = tuple(i for i in range(ctx.dim) if (int(bits) >> i) & 1)
        try:
            v, ie = coef_value(coeff, sym)
        except ZeroDivisionError:
            raise Bad("coeff-div0", f"coefficient {coeff!r} divides by zero") from None
        except Uninterpretable as e:
            raise Bad("coeff-type", str(e)[:200]) from None
        inexact = inexact or ie
        if v == 0:
            stored_zero = True
        out[blade] = v
    return out, inexact, stored_zero


def value_eq(g, e, inexact, sym):
    if g == e:
        return True
    if inexact and not sym:
        return abs(g - e) <= FLOAT_TOL * max(1, abs(e))
    return False


def dict_eq(got, exp, inexact, sym):
    for b in set(got) | set(exp):
        if not value_eq(got.get(b, 0), exp.get(b, 0), inexact, sym):
            return False
    return True


def show_blade(b):
    return "e" + "".join(map(str, b)) if b else "1"


def show_ref(m):
    if not m:
        return "0"
    return " + ".join(f"{v}*{show_blade(b)}" for b, v in sorted(m.items()))


def compare_mv(ctx, sym, outcome, exp, against_canonical=False):
    """-> None or (what, detail)."""
    if outcome[0] == "err":
        return (f"raises:{outcome[1]}", f"raised {outcome[1]}: {outcome[2]}; expected "
                f"{show_ref(exp)}")
    mv = outcome[1]
    try:
        got, inexact, stored_zero = observe(ctx, mv, sym)
    except Bad as b:
        return (b.what, f"{b.msg}; expected {show_ref(exp)}")
    if not dict_eq(got, exp, inexact, sym):
        return ("value", f"got {show_ref(got)} expected {show_ref(exp)}")
    if sym:
        return None
    if stored_zero:
        return ("zero-stored", f"result stores an explicit zero coefficient: data={mv.data!r}")
    if bool(mv) != bool(exp):
        return ("bool", f"bool(result) is {bool(mv)} for the value {show_ref(exp)}")
    if against_canonical and not inexact:
        canon = build_from_ref(ctx, exp)
        o = run(operator.eq, mv, canon)
        if o[0] != "ok" or not bool(o[1]):
            return ("eq", f"result {mv.data!r} is not == the same multivector built from index "
                    f"tuples {canon.data!r}: {o[1:]}")
        o = run(lambda: hash(mv) == hash(canon))
        if o[0] != "ok" or not o[1]:
            return ("hash", f"result {mv.data!r} == {canon.data!r} but hashes differ: {o[1:]}")
    return None


def compare_scalar(sym, outcome, exp):
    if outcome[0] == "err":
        return (f"raises:{outcome[1]}", f"raised {outcome[1]}: {outcome[2]}; expected {exp}")
    try:
        v, inexact = coef_value(outcome[1], sym)
    except ZeroDivisionError:
        return ("coeff-div0", f"{outcome[1]!r} divides by zero; expected {exp}")
    except Uninterpretable as e:
        return ("coeff-type", f"{e}; expected the scalar {exp}"[:240])
    if not value_eq(v, exp, inexact, sym):
        return ("value", f"got {v} expected {exp}")
    return None

# }}}


# {{{ the checks of one case
#
# case = (kind_of_case, dim, metric, dtype, payload); operands are tuples of (blade, coeff tag).

BIN_OPS = (("*", operator.mul), ("^", operator.xor), ("|", operator.or_),
           ("<<", operator.lshift), (">>", operator.rshift))


def _forms(ctx, m_terms, n_terms, a, b, with_zero):
    """Operand forms: both multivectors; a grade-0 operand also as a plain Python scalar."""
    forms = [("", a, b)]
    if len(m_terms) == 1 and m_terms[0][0] == ():
        forms.append(("/scalar-left", impl_coeff(m_terms[0][1]), b))
    if len(n_terms) == 1 and n_terms[0][0] == ():
        forms.append(("/scalar-right", a, impl_coeff(n_terms[0][1])))
    if with_zero:
        if not m_terms:
            forms.append(("/zero-left", 0, b))
        if not n_terms:
            forms.append(("/zero-right", a, 0))
    return forms


def check_bin(ctx, payload, only=None):
    """*only*: restrict to the operation of that name (used while shrinking)."""
    opset, m_terms, n_terms = payload
    sym = is_sym_terms(m_terms, n_terms)
    alias = opset == "self"             # the very same object on both sides of every operator
    full = opset in ("all", "self")
    fails = []
    a = build(ctx, m_terms)
    if alias:
        assert m_terms == n_terms
        b = a
    else:
        b = build(ctx, n_terms)
    rm, rn = refmv(m_terms, sym), refmv(n_terms, sym)
    ref = ctx.ref
    n = 0
    forms = _forms(ctx, m_terms, n_terms, a, b, full)
    geo = ref.mul(rm, rn, "*")
    for name, fn in BIN_OPS:
        if only and name != only:
            continue
        exp = geo if name == "*" else ref.mul(rm, rn, name)
        for form, l, r in forms:
            n += 1
            bad = compare_mv(ctx, sym, run(fn, l, r), exp, full)
            if bad:
                fails.append((f"{name}{form}:{bad[0]}", bad[1]))
    exp = ref.mul(rm, rn, "sp").get((), 0)
    for form, l, r in forms:
        if form.endswith("-left") or (only and only != "scalar_product"):
            continue
        n += 1
        bad = compare_scalar(sym, run(lambda l=l, r=r: l.scalar_product(r)), exp)
        if bad:
            fails.append((f"scalar_product{form}:{bad[0]}", bad[1]))
    if (opset == "prod" and len(m_terms) == 1 and len(n_terms) == 1
            and (m_terms[0][1], n_terms[0][1]) in IDENTITY_COEFFS
            and (not only or only in ("grade-part", "rev-of-product", "invol-of-product"))):
        # the statement's own formulation, on the implementation's geometric product
        prod = run(operator.mul, a, b)
        if prod[0] == "ok" and type(prod[1]).__name__ == "MultiVector":
            r_, s_ = len(m_terms[0][0]), len(n_terms[0][0])
            for name, k in (("^", r_ + s_), ("|", abs(r_ - s_)), ("<<", s_ - r_), (">>", r_ - s_)):
                n += 1
                bad = compare_mv(ctx, sym, run(lambda k=k: prod[1].project(k)),
                                 ref.mul(rm, rn, name))
                if bad:
                    fails.append((f"grade-part:{name}:{bad[0]}",
                                  f"(A*B).project({k}) vs A{name}B: {bad[1]}"))
            for nm, lhs, rhs, exp in (
                    ("rev-of-product", lambda: prod[1].rev(), lambda: b.rev() * a.rev(),
                     ref.rev(geo)),
                    ("invol-of-product", lambda: prod[1].invol(), lambda: a.invol() * b.invol(),
                     ref.invol(geo))):
                for side, f_ in (("lhs", lhs), ("rhs", rhs)):
                    n += 1
                    bad = compare_mv(ctx, sym, run(f_), exp)
                    if bad:
                        fails.append((f"{nm}:{side}:{bad[0]}", bad[1]))
    if alias and (not only or only == "self-assoc"):
        exp = ref.mul3(rm, rm, rm)
        for nm, f_ in (("left", lambda: (a * a) * a), ("right", lambda: a * (a * a))):
            n += 1
            bad = compare_mv(ctx, sym, run(f_), exp, True)
            if bad:
                fails.append((f"self-assoc/{nm}:{bad[0]}", bad[1]))
    if opset in ("all", "self", "prod+add"):
        for name, fn, exp in (("+", operator.add, ref.add(rm, rn)),
                              ("-", operator.sub, ref.sub(rm, rn))):
            if only and name != only:
                continue
            for form, l, r in forms:
                n += 1
                bad = compare_mv(ctx, sym, run(fn, l, r), exp, full)
                if bad:
                    fails.append((f"{name}{form}:{bad[0]}", bad[1]))
    if full and not sym and (not only or only in ("neg", "eq", "ne", "hash", "bool")):
        n += 1
        bad = compare_mv(ctx, sym, run(operator.neg, a), ref.neg(rm), True)
        if bad:
            fails.append((f"neg:{bad[0]}", bad[1]))
        equal = rm == rn
        for form, l, r in forms:
            n += 2
            o = run(operator.eq, l, r)
            if o[0] != "ok" or bool(o[1]) != equal:
                fails.append((f"eq{form}", f"({show_ref(rm)}) == ({show_ref(rn)}) gave {o[1:]}, "
                              f"coefficient-wise comparison says {equal}"))
            o = run(operator.ne, l, r)
            if o[0] != "ok" or bool(o[1]) == equal:
                fails.append((f"ne{form}", f"({show_ref(rm)}) != ({show_ref(rn)}) gave {o[1:]}, "
                              f"coefficient-wise comparison says {not equal}"))
        if equal:
            n += 1
            o = run(lambda: hash(a) == hash(b))
            if o[0] != "ok" or not o[1]:
                fails.append(("hash", f"equal multivectors {a.data!r} and {b.data!r} hash "
                              f"differently: {o[1:]}"))
        for mv, r_ in ((a, rm), (b, rn)):
            n += 1
            o = run(bool, mv)
            if o[0] != "ok" or o[1] != bool(r_):
                fails.append(("bool", f"bool({show_ref(r_)}) gave {o[1:]}"))
    return fails, n, bool(geo)


def check_tri(ctx, payload, only=None):
    ta, tb, tc = payload
    sym = is_sym_terms(ta, tb, tc)
    a, b, c = build(ctx, ta), build(ctx, tb), build(ctx, tc)
    exp = ctx.ref.mul3(refmv(ta, sym), refmv(tb, sym), refmv(tc, sym))
    fails = []
    left = run(lambda: (a * b) * c)
    right = run(lambda: a * (b * c))
    for nm, o in (("assoc-left", left), ("assoc-right", right)):
        bad = compare_mv(ctx, sym, o, exp)
        if bad:
            fails.append((f"{nm}:{bad[0]}", bad[1]))
    if not sym and left[0] == "ok" and right[0] == "ok":
        o = run(operator.eq, left[1], right[1])
        if o[0] != "ok" or not bool(o[1]):
            fails.append(("assoc:eq", f"(AB)C == A(BC) gave {o[1:]}: {left[1]!r} vs {right[1]!r}"))
        else:
            o = run(lambda: hash(left[1]) == hash(right[1]))
            if o[0] != "ok" or not o[1]:
                fails.append(("assoc:hash", "(AB)C == A(BC) but the hashes differ"))
    return fails, 4, bool(exp)


def check_axi(ctx, payload, only=None):
    """e_i e_i = g_ii; e_i e_j = -e_j e_i = e_ij (i < j) -- expectations written down directly."""
    i, j = payload
    ei, ej = build(ctx, (((i,), "1"),)), build(ctx, (((j,), "1"),))
    fails = []
    g = ctx.metric[i]
    if i == j:
        exp = {(): g} if g != 0 else {}
        bad = compare_mv(ctx, False, run(operator.mul, ei, ei), exp, True)
        if bad:
            fails.append((f"axiom-square:{bad[0]}", bad[1]))
        return fails, 1, True
    assert i < j
    bad = compare_mv(ctx, False, run(operator.mul, ei, ej), {(i, j): 1}, True)
    if bad:
        fails.append((f"axiom-orientation:{bad[0]}", bad[1]))
    bad = compare_mv(ctx, False, run(operator.mul, ej, ei), {(i, j): -1}, True)
    if bad:
        fails.append((f"axiom-anticommute:{bad[0]}", bad[1]))
    bad = compare_mv(ctx, False, run(lambda: ei * ej + ej * ei), {}, True)
    if bad:
        fails.append((f"axiom-anticommute-sum:{bad[0]}", bad[1]))
    return fails, 3, True


def check_una(ctx, payload, only=None):
    (terms,) = payload
    sym = is_sym_terms(terms)
    ref = ctx.ref
    a = build(ctx, terms)
    rm = refmv(terms, sym)
    fails = []
    n = 0

    def mvcheck(name, outcome, exp, canonical=True):
        nonlocal n
        n += 1
        bad = compare_mv(ctx, sym, outcome, exp, canonical)
        if bad:
            fails.append((f"{name}:{bad[0]}", bad[1]))

    mvcheck("rev", run(lambda: a.rev()), ref.rev(rm))
    mvcheck("invol", run(lambda: a.invol()), ref.invol(rm))
    mvcheck("rev-rev", run(lambda: a.rev().rev()), rm)
    mvcheck("invol-invol", run(lambda: a.invol().invol()), rm)
    mvcheck("I", run(lambda: a.I), ref.pseudoscalar())
    exp_dual = ref.dual(rm)
    mvcheck("dual", run(lambda: a.dual()), exp_dual)
    mvcheck("__inv__", run(lambda: a.__inv__()), exp_dual)
    n += 1
    nsq = ref.norm2(rm)
    bad = compare_scalar(sym, run(lambda: a.norm_squared()), nsq)
    if bad:
        fails.append((f"norm_squared:{bad[0]}", bad[1]))

    # ---- inverse ----
    grades = {len(b) for b, _ in terms}
    surely_blade = len(terms) == 1 or grades == {1}      # c*e_A, or a vector
    # null at some of the evaluation points only: the inverse is not compared
    skip_inv = isinstance(nsq, Pts) and nsq.partial_zero()
    exp_inv = ref.inverse(rm)                             # None: rev(M) M is not a non-zero scalar
    one = {(): 1}
    n += 1
    o = run(lambda: a.inv())
    if skip_inv:
        pass
    elif surely_blade and exp_inv is not None:
        bad = compare_mv(ctx, sym, o, exp_inv, False)
        if bad:
            fails.append((f"inv:{bad[0]}", bad[1]))
        else:
            inv = o[1]
            mvcheck("inv*B", run(lambda: inv * a), one, False)
            mvcheck("B*inv", run(lambda: a * inv), one, False)
            mvcheck("1/B", run(lambda: 1 / a), exp_inv, False)
            mvcheck("B/B", run(lambda: a / a), one, False)
            mvcheck("(B*B)/B", run(lambda: (a * a) / a), rm, False)
    elif surely_blade:
        # null blade: the statement says nothing; a *finite wrong answer* is what must not happen
        if o[0] == "ok":
            try:
                got, _, _ = observe(ctx, o[1], sym)
            except Bad as b_:
                if b_.what != "coeff-div0":
                    fails.append((f"inv-null:{b_.what}", b_.msg))
            else:
                fails.append(("inv-null:returned", f"inverse of a null blade returned "
                              f"{show_ref(got)}"))
        elif o[1] != "ZeroDivisionError":
            fails.append((f"inv-null:raises:{o[1]}", f"raised {o[1]}: {o[2]}"))
    else:
        # not known to be a blade: refusal (NotImplementedError / ZeroDivisionError for a
        # null one) is fine; a returned value must be a true two-sided inverse
        if o[0] == "ok":
            try:
                got, inexact, _ = observe(ctx, o[1], sym)
            except Bad as b_:
                if not (b_.what == "coeff-div0" and exp_inv is None):
                    fails.append((f"inv-general:{b_.what}", b_.msg))
            else:
                for nm, p in (("inv*M", ref.mul(got, rm)), ("M*inv", ref.mul(rm, got))):
                    if not dict_eq(p, one, inexact, sym):
                        fails.append((f"inv-general:{nm}", f"inv returned {show_ref(got)}; by the "
                                      f"reference product {nm} = {show_ref(p)}, not 1"))
        elif o[1] not in ("NotImplementedError", "ZeroDivisionError"):
            fails.append((f"inv-general:raises:{o[1]}", f"raised {o[1]}: {o[2]}"))

    # scalar division
    mvcheck("M/2", run(lambda: a / 2), ref.scale(rm, Fraction(1, 2)), False)

    # a second, independently constructed copy: ==, hash, truth
    b = build(ctx, tuple(reversed(terms)))
    n += 3
    o = run(operator.eq, a, b)
    if o[0] != "ok" or not bool(o[1]):
        fails.append(("eq-copy", f"two constructions of {show_ref(rm)} are not ==: {o[1:]}"))
    else:
        o = run(lambda: hash(a) == hash(b))
        if o[0] != "ok" or not o[1]:
            fails.append(("hash-copy", f"two constructions of {show_ref(rm)} hash differently"))
    o = run(bool, a)
    if o[0] != "ok" or o[1] != bool(rm):
        fails.append(("bool", f"bool({show_ref(rm)}) gave {o[1:]}"))
    return fails, n, True


def check_con(ctx, payload, only=None):
    from pymbolic.geometric_algebra import MultiVector
    form, data = payload
    fails = []
    if form == "perm":
        sym = is_sym_terms(data)
        exp = {}
        for perm, c in data:
            blade, sign = blade_product((perm,), ctx.metric)
            exp[blade] = exp.get(blade, 0) + sign * ref_coeff(c, sym)
        exp = {k: v for k, v in exp.items() if v != 0}
        o = run(lambda: MultiVector({tuple(p): impl_coeff(c) for p, c in data}, ctx.space))
    elif form in ("vec", "vec-default-space"):
        sym = sym_mode(data)
        exp = {(i,): ref_coeff(c, sym) for i, c in enumerate(data) if c != "0"}
        vals = [impl_coeff(c) for c in data]
        arr = (np.array(vals, dtype=np.int64) if all(isinstance(v, int) for v in vals)
               else np.array(vals, dtype=object))
        if form == "vec":
            o = run(lambda: MultiVector(arr, ctx.space))
        else:
            assert ctx.dtype == "euc"
            o = run(lambda: MultiVector(arr))
    elif form == "scalar":
        sym = sym_mode([data])
        exp = {} if data == "0" else {(): ref_coeff(data, sym)}
        o = run(lambda: MultiVector(impl_coeff(data), ctx.space))
    elif form == "bits":
        sym = is_sym_terms(data)
        exp = {tuple(i for i in range(ctx.dim) if bits >> i & 1): ref_coeff(c, sym)
               for bits, c in data if c != "0"}
        o = run(lambda: MultiVector({bits: impl_coeff(c) for bits, c in data}, ctx.space))
    else:
        raise ValueError(form)
    bad = compare_mv(ctx, sym, o, exp, True)
    if bad:
        fails.append((f"construct-{form}:{bad[0]}", bad[1]))
    return fails, 1, True


def _prior_use(prior, mv):
    if prior == "hash":
        hash(mv)
    elif prior == "dict":
        d = {mv: 1}
        assert d[mv] == 1
    elif prior == "set":
        assert mv in {mv}
    elif prior == "eq":
        assert mv == mv
    else:
        raise ValueError(prior)


HIS_UNARY = (("neg", operator.neg, "neg"), ("rev", lambda m: m.rev(), "rev"),
             ("invol", lambda m: m.invol(), "invol"), ("dual", lambda m: m.dual(), "dual"))
HIS_BINARY = BIN_OPS + (("+", operator.add), ("-", operator.sub))


def check_his(ctx, payload, only=None):
    """Operation histories on one object: the operand(s) are hashed / used as dict key / set
    member / compared FIRST, then operated on; every result must have the right value, be == a
    freshly constructed equal multivector and hash like it, and behave exactly like the result
    obtained from a never-used twin of the operand.  Afterwards the operand is unchanged."""
    prior, m_terms, n_terms = payload
    sym = is_sym_terms(m_terms, n_terms)
    ref = ctx.ref
    rm, rn = refmv(m_terms, sym), refmv(n_terms, sym)
    a, twin = build(ctx, m_terms), build(ctx, m_terms)
    fails = []
    n = 0
    _prior_use(prior, a)

    def result_check(name, outcome, twin_outcome, exp):
        nonlocal n
        n += 2
        bad = compare_mv(ctx, sym, outcome, exp, True)
        if bad:
            fails.append((f"history-{name}:{bad[0]}", f"after {prior} on the operand: {bad[1]}"))
            return None
        if twin_outcome[0] != "ok":
            return outcome[1]
        o = run(operator.eq, outcome[1], twin_outcome[1])
        if o[0] != "ok" or not bool(o[1]):
            fails.append((f"history-{name}:twin-eq", f"after {prior} on the operand the result "
                          f"{outcome[1].data!r} is not == the result {twin_outcome[1].data!r} "
                          "obtained from an unused equal operand"))
            return None
        o = run(lambda: hash(outcome[1]) == hash(twin_outcome[1]))
        if o[0] != "ok" or not o[1]:
            fails.append((f"history-{name}:twin-hash", f"after {prior} on the operand the result "
                          f"{outcome[1].data!r} hashes differently from the == result obtained "
                          "from an unused equal operand"))
            return None
        return outcome[1]

    if not n_terms:
        for name, fn, refname in HIS_UNARY:
            exp = getattr(ref, refname)(rm)
            r1 = result_check(name, run(fn, a), run(fn, twin), exp)
            if r1 is None or name == "dual":
                continue
            # second step: use the result, operate again
            _prior_use("hash" if prior == "eq" else prior, r1)
            t1 = fn(twin)
            for name2, fn2, refname2 in HIS_UNARY[:3]:
                result_check(f"{name}-{name2}", run(fn2, r1), run(fn2, t1),
                             getattr(ref, refname2)(exp))
        grades = {len(b) for b, _ in m_terms}
        exp_inv = ref.inverse(rm) if (len(m_terms) == 1 or grades == {1}) else None
        nsq = ref.norm2(rm)
        if exp_inv is not None and not (isinstance(nsq, Pts) and nsq.partial_zero()):
            result_check("inv", run(lambda: a.inv()), run(lambda: twin.inv()), exp_inv)
    else:
        b, twin_b = build(ctx, n_terms), build(ctx, n_terms)
        _prior_use(prior, b)
        for name, fn in HIS_BINARY:
            if name == "+":
                exp = ref.add(rm, rn)
            elif name == "-":
                exp = ref.sub(rm, rn)
            else:
                exp = ref.mul(rm, rn, name)
            result_check(f"binary{name}", run(fn, a, b), run(fn, twin, twin_b), exp)
        bad = compare_mv(ctx, sym, ("ok", b), rn, True)
        if bad:
            fails.append((f"history-operand:{bad[0]}", f"right operand after the operations: "
                          f"{bad[1]}"))
    # the operand itself is untouched
    n += 3
    bad = compare_mv(ctx, sym, ("ok", a), rm, True)
    if bad:
        fails.append((f"history-operand:{bad[0]}", f"operand after the operations: {bad[1]}"))
    o = run(lambda: a == twin and hash(a) == hash(twin) and {a: 1}[twin] == 1)
    if o[0] != "ok" or not o[1]:
        fails.append(("history-operand:twin", f"operand after {prior} and the operations no "
                      f"longer equals / hashes like / looks up as an unused twin: {o[1:]}"))
    return fails, n, True


CASE_CHECKS = {"his": check_his, "bin": check_bin, "tri": check_tri, "una": check_una, "con": check_con,
               "axi": check_axi}


def check_case(case, only=None):
    kind, dim, metric, dtype, payload = case
    ctx = ctx_for(dim, tuple(metric), dtype)
    return CASE_CHECKS[kind](ctx, payload, only)

# }}}


# {{{ shrinking a failing case, rendering

def _operands(case):
    """-> (list of operand term-tuples, rebuild function) for the operand-shaped payloads."""
    kind, dim, metric, dtype, payload = case
    if kind == "bin" and payload[0] == "self":
        return [payload[1]], lambda ops: (kind, dim, metric, dtype, ("self", ops[0], ops[0]))
    if kind == "bin":
        return list(payload[1:]), lambda ops: (kind, dim, metric, dtype, (payload[0], *ops))
    if kind in ("tri", "una"):
        return list(payload), lambda ops: (kind, dim, metric, dtype, tuple(ops))
    if kind == "his":
        if payload[2]:
            return list(payload[1:]), lambda ops: (kind, dim, metric, dtype, (payload[0], *ops))
        return [payload[1]], lambda ops: (kind, dim, metric, dtype, (payload[0], ops[0], ()))
    if kind == "con" and payload[0] == "perm":
        return [payload[1]], lambda ops: (kind, dim, metric, dtype, ("perm", ops[0]))
    return None, None


def _used_indices(case):
    kind, dim, metric, dtype, payload = case
    ops, _ = _operands(case)
    if ops is not None:
        return {i for terms in ops for b, _ in terms for i in b}
    if kind == "axi":
        return set(payload)
    if kind == "con" and payload[0] == "scalar":
        return set()
    if kind == "con" and payload[0] == "bits":
        return {i for bits, _ in payload[1] for i in range(dim) if bits >> i & 1}
    return set(range(dim))


def _drop_dim(case, i):
    kind, dim, metric, dtype, payload = case
    ren = lambda k: k - 1 if k > i else k                                   # noqa: E731
    rb = lambda b: tuple(ren(k) for k in b)                                 # noqa: E731
    rt = lambda terms: tuple((rb(b), c) for b, c in terms)                  # noqa: E731
    nm = tuple(g for k, g in enumerate(metric) if k != i)
    if kind in ("bin", "his"):
        p = (payload[0], rt(payload[1]), rt(payload[2]))
    elif kind in ("tri", "una"):
        p = tuple(rt(t) for t in payload)
    elif kind == "axi":
        p = rb(payload)
    elif kind == "con" and payload[0] == "perm":
        p = ("perm", rt(payload[1]))
    elif kind == "con" and payload[0] == "scalar":
        p = payload
    elif kind == "con" and payload[0] == "bits":
        def rbits(bits):
            return sum(1 << ren(k) for k in range(dim) if bits >> k & 1)
        p = ("bits", tuple((rbits(bits), c) for bits, c in payload[1]))
    else:
        return None
    return (kind, dim - 1, nm, dtype, p)


def _drop_dims(case, indices):
    for i in sorted(indices, reverse=True):
        if case is None:
            return None
        case = _drop_dim(case, i)
    return case


def candidates(case):
    kind, dim, metric, dtype, payload = case
    if dtype != "obj" and not (kind == "con" and payload[0] == "vec-default-space"):
        yield (kind, dim, metric, "obj", payload)
    used = _used_indices(case)
    unused = [i for i in range(dim) if i not in used]
    # big jumps first: whole metric -> 1, metric of the unused basis vectors -> 1, cut off the
    # dimensions above the highest index used, remove all unused dimensions
    if dtype != "euc" and any(g != 1 for g in metric):
        yield (kind, dim, (1,) * dim, dtype, payload)
        if any(metric[i] != 1 for i in unused):
            yield (kind, dim, tuple(1 if i in unused else g for i, g in enumerate(metric)), dtype,
                   payload)
    top = [i for i in unused if i > max(used, default=-1)]
    if top:
        c2 = _drop_dims(case, top)
        if c2 is not None:
            yield c2
    if len(unused) > len(top) and len(unused) > 1:
        c2 = _drop_dims(case, unused)
        if c2 is not None:
            yield c2
    ops, rebuild = _operands(case)
    if ops is not None:
        for oi, terms in enumerate(ops):
            min_terms = 1 if kind in ("tri", "una", "con", "his") or payload[0] != "all" else 0
            if kind == "bin" and payload[0] == "self":
                min_terms = 1
            if len(terms) > min_terms:
                for ti in range(len(terms)):
                    new = list(ops)
                    new[oi] = terms[:ti] + terms[ti + 1:]
                    yield rebuild(new)
            for ti, (b, c) in enumerate(terms):
                for k in range(len(b)):
                    nb = b[:k] + b[k + 1:]
                    if any(tuple(ob) == nb for ob, _ in terms):
                        continue
                    new = list(ops)
                    new[oi] = terms[:ti] + ((nb, c),) + terms[ti + 1:]
                    yield rebuild(new)
                if c != "1":
                    new = list(ops)
                    new[oi] = terms[:ti] + ((b, "1"),) + terms[ti + 1:]
                    yield rebuild(new)
    elif kind == "con" and payload[0] == "bits":
        ent = payload[1]
        if len(ent) > 1:
            for ti in range(len(ent)):
                yield (kind, dim, metric, dtype, ("bits", ent[:ti] + ent[ti + 1:]))
        for ti, (bits, c) in enumerate(ent):
            if c not in ("1", "0"):
                yield (kind, dim, metric, dtype,
                       ("bits", ent[:ti] + ((bits, "1"),) + ent[ti + 1:]))
            for k in range(dim):
                nb = bits & ~(1 << k)
                if nb != bits and all(ob != nb for ob, _ in ent):
                    yield (kind, dim, metric, dtype,
                           ("bits", ent[:ti] + ((nb, c),) + ent[ti + 1:]))
    elif kind == "con" and payload[0] in ("vec", "vec-default-space"):
        for k, c in enumerate(payload[1]):
            if c not in ("1", "0"):
                yield (kind, dim, metric, dtype,
                       (payload[0], payload[1][:k] + ("1",) + payload[1][k + 1:]))
    elif kind == "con" and payload[0] == "scalar":
        if payload[1] not in ("1", "0"):
            yield (kind, dim, metric, dtype, ("scalar", "1"))
    if dtype != "euc":
        for k, g in enumerate(metric):
            if g != 1:
                yield (kind, dim, metric[:k] + (1,) + metric[k + 1:], dtype, payload)
        for k, g in enumerate(metric):
            if g not in (1, -1):
                yield (kind, dim, metric[:k] + (-1,) + metric[k + 1:], dtype, payload)
    for i in reversed(unused):
        c2 = _drop_dim(case, i)
        if c2 is not None:
            yield c2


def shrink(case, kind_of_failure):
    only = kind_of_failure.split(":")[0].split("/")[0] if case[0] == "bin" else None
    budget = 400
    progress = True
    while progress and budget > 0:
        progress = False
        for cand in candidates(case):
            if cand == case:
                continue
            budget -= 1
            kinds = _SHRINK_MEMO.get((cand, only))
            if kinds is None:
                try:
                    kinds = frozenset(k for k, _ in check_case(cand, only)[0])
                except (Hang, RecursionError, MemoryError):
                    raise
                except Exception:  # noqa: BLE001
                    kinds = frozenset()
                if len(_SHRINK_MEMO) < 200000:
                    _SHRINK_MEMO[(cand, only)] = kinds
            if kind_of_failure in kinds:
                case = cand
                progress = True
                break
    return case


def show_terms(terms):
    if not terms:
        return "0"
    return " + ".join(f"{c}*{show_blade(tuple(b))}" for b, c in terms)


def render(case):
    kind, dim, metric, dtype, payload = case
    runs = [(g, len(list(grp))) for g, grp in itertools.groupby(metric)]
    mtxt = ",".join(f"{g}^{k}" if k > 3 else ",".join([str(g)] * k) for g, k in runs)
    head = f"dim={dim} metric={mtxt or '-'} {dtype}"
    if kind == "bin" and payload[0] == "self":
        body = f"[self] A . A, the same object, A = ({show_terms(payload[1])})"
    elif kind == "bin":
        body = f"[{payload[0]}] ({show_terms(payload[1])}) . ({show_terms(payload[2])})"
    elif kind == "his":
        body = (f"[{payload[0]} first] ({show_terms(payload[1])})"
                + (f" . ({show_terms(payload[2])})" if payload[2] else ""))
    elif kind == "tri":
        body = " . ".join(f"({show_terms(t)})" for t in payload)
    elif kind == "una":
        body = f"({show_terms(payload[0])})"
    elif kind == "axi":
        body = f"e{payload[0]}, e{payload[1]}"
    elif payload[0] == "perm":
        body = "MultiVector({" + ", ".join(f"{tuple(p)}: {c}" for p, c in payload[1]) + "})"
    elif payload[0] == "bits":
        body = "MultiVector({" + ", ".join(f"{bits}: {c}" for bits, c in payload[1]) + "})"
    elif payload[0] == "scalar":
        body = f"MultiVector({payload[1]})"
    else:
        body = f"MultiVector(array([{', '.join(payload[1])}])) [{payload[0]}]"
    return f"{kind}: {body} @ {head}"

# }}}


_SHRINKS = {}
_SIGS = {}
_SHRINK_MEMO = {}


def _key_of(case, with_coeffs):
    kind, dim, metric, dtype, payload = case
    if with_coeffs:
        return (kind, dim, metric, payload)
    if kind in ("bin", "his"):
        strip = tuple(tuple(b for b, _ in t) for t in payload[1:])
        return (kind, dim, metric, payload[0], strip)
    return (kind, dim, metric, tuple(tuple(b for b, _ in t) for t in payload))


class C18(Check):
    pid = "C18"
    level = "exploration"
    rule = (
        "bounded-exhaustive and deterministic, no sampling. A space = dimension d x diagonal "
        "metric in {1,-1,0,2}^d x dtype of the metric matrix (object / int64 / float64, each built "
        "through a different Space signature; a Euclidean metric also on get_euclidean_space(d)). "
        "Families, quick -> thorough: [pairs] ALL ordered pairs of basis blades x 27 coefficient "
        "pairs from {1,-1,2,1/2,x,y} and the composite coefficient expressions n//2, n%3, "
        "(n+1)//3, n/3, n**2, f(n) (FloorDiv, Remainder, Quotient, Power, Call nodes) under * ^ | << >> scalar_product (a grade-0 operand also as a "
        "plain Python scalar), (A*B).project(k) against each derived product, rev(AB) = "
        "rev(B)rev(A), invol(AB) = invol(A)invol(B): every space with d<=3 -> d<=4 plus 8 metrics "
        "in d=5; [triples] ALL ordered triples of basis blades x 3 coefficient patterns, (AB)C = "
        "A(BC) = reference: d<=3 with 2 dtypes -> d<=3 with 3 dtypes, d=4 and 8 metrics of d=5 "
        "with 2 dtypes; [lin21] every (c1 e_A + c2 e_B) op (d e_C), its mirror image and the sums "
        "and differences, 6 coefficient patterns (one with FloorDiv/Remainder/Call coefficients): d<=3 object dtype -> d<=3 all dtypes, and with 2 "
        "patterns 8 metrics in d=4 (all dtypes) and in d=5 (object dtype); [lin22] every (e_A + c e_B) op (e_C + d e_D), c, d = +-1 (cancellation "
        "paths): d<=3 object dtype -> all dtypes, 8 metrics in d=4; [full] every ordered pair of "
        "multivectors with per-blade coefficients in {0,1,-1}, d<=2, under all products, +, -, "
        "unary -, ==, !=, hash, bool, also against the plain scalar 0 -> coefficients {0,1,-1,2} "
        "in d=2 and {0,1} in d=3 over 8 metrics; [unary] rev, invol, I, dual, norm_squared, inv, "
        "1/B, B/B, (BB)/B, M/2, ==/hash of a second construction on every basis blade x 13 "
        "coefficients (1,-1,2,1/2,x and 8 composite expressions in n covering FloorDiv, "
        "Remainder, Quotient, Power, Call, Sum, Product) and every sum of two basis blades x 7 "
        "coefficient pairs: d<=3 -> d<=4 + 8 "
        "metrics in d=5; [axioms] e_i e_i = g_ii, e_i e_j = -e_j e_i = e_ij written down directly; "
        "[construct] index tuples in every permutation of <= 3 indices singly and in pairs, numpy "
        "vectors over {0,1,-1}, scalars, bitmap dicts: d<=3 -> d<=5; [history] operation histories "
        "on one object: the operand(s) are first hashed / used as dict key / put in a set / "
        "compared, then -, rev, invol, dual, inv (and a second such step on the used result) or "
        "* ^ | << >> + - are applied; each result must have the reference value, be == and hash "
        "like a freshly built equal multivector and like the result from a never-used twin, and "
        "the operand must be unchanged: every blade x 7 coefficients, every two-blade sum x 3 "
        "patterns, every blade pair, d<=2 all metrics and 8 metrics of d=3 -> d<=3 all metrics, 8 "
        "of d=4; [self] operand aliasing: A op A with THE SAME OBJECT on both sides for every "
        "product, +, -, ==, !=, hash, and (A*A)*A = A*(A*A) = reference, A = every basis blade x "
        "7 coefficients and every sum of two basis blades x 7 coefficient pairs (and, inside "
        "[full], every multivector over {0,1,-1} in d<=2): d<=3 all metrics and 8 metrics of "
        "d=4, object dtype -> d<=4 all metrics, 8 of d=5, 3 dtypes; [highdim] dimensions 31, 32, 33, 34, 64, 65 (word boundaries of the bitmaps), 2 "
        "metrics: all blades of <= 3 indices from {0, 31, 32, 33, d-2, d-1} (+ the whole pool) as "
        "pairs (2 -> 3 coefficient pairs), triples (two <= 2-index blades, then a scalar or vector) "
        "and the unary family. "
        "A case is non-trivial when "
        "the reference geometric product of its operands is non-zero (pairs, lin, full, triples) "
        "resp. always (unary, construct, axioms, history; self: non-zero A*A); distinct = distinct (family, dimension, metric, "
        "operand blades) -- coefficient patterns and the metric dtype are NOT counted as distinct, "
        "except in full/unary/construct/history/self where the coefficients are part of the operand.")
    assumptions = [
        "oracle: vf/c18_ref.py -- product of basis blades on index lists (concatenate, bubble "
        "sort with sign flips, contract equal neighbours with the metric entry), extended "
        "bilinearly; exact in Fraction / RF (own rational functions in x, y, cross-validated "
        "against vf.exact.RatFun at start-up). Inner product | is taken literally as the "
        "grade-|r-s| part of the geometric product (also when an operand is a scalar).",
        "multivectors are built through the documented index-tuple constructor and results are "
        "read through the documented .data bitmap mapping (bit i <-> basis vector i); symbolic "
        "coefficients of results are interpreted as rational functions by a small evaluator over "
        "Variable/Sum/Product/Quotient/Power nodes (no pymbolic mapper involved)",
        "composite coefficient expressions in n (n//2, n%3, (n+1)//3, n/3, n**2, f(n) with f(t) = "
        "t*t+1, n+1, 2*n) are opaque to exact rational-function comparison; results carrying "
        "them are compared by evaluating every coefficient with an own evaluator at the integer "
        "points n in {5,-7,4,-2,7} (none of the coefficients vanishes there; negative points "
        "make floor division and remainder not odd-symmetric). Agreement at these points is "
        "what is demanded, not identity. Where the squared norm of a vector with such "
        "coefficients vanishes at some of the points only, its inverse is not compared.",
        "a symbolic coefficient is combined only with integer coefficients: pymbolic expressions "
        "refuse Fraction operands (Expression arithmetic, outside this property)",
        "results containing symbolic coefficients are compared by value only (x - x may be "
        "stored unsimplified); ==, hash and bool are demanded to agree with coefficient-wise "
        "comparison for numeric coefficients and for syntactically identical symbolic ones, and "
        "only between multivectors of the same Space object",
        "where the implementation itself produces floats (int/int division in inv, float64 "
        f"metric) values are compared with relative tolerance {FLOAT_TOL}; everything else exactly",
        "inv: demanded exactly for c*e_A and for vectors (always blades). For other sums an "
        "explicit refusal (NotImplementedError 'division by non-blades') is accepted, a returned "
        "value must be a two-sided inverse. For null blades ZeroDivisionError (immediately, or "
        "when the symbolic coefficient x/0 is evaluated) is accepted; a finite result is not.",
        "the random multivectors of the quantifier are replaced by the complete sets named in "
        "'rule' (DESIGN 2.7)",
    ]
    chunk = 8

    def setup(self, tier):
        selftest()          # the fast rational-function domain agrees with vf.exact.RatFun

    # -- enumeration ----------------------------------------------------------------------
    def _spaces(self, tier, fam):
        q = tier == "quick"
        dims = tuple(range(QUICK_MAX_DIM + 1))
        big = tuple(range(THOROUGH_MAX_DIM + 1))
        red5 = (REDUCED_DIM, REDUCED_METRICS, DTYPES)
        if fam in ("pairs", "unary", "axioms"):
            return space_list(dims, DTYPES) if q else space_list(big, DTYPES, [red5])
        if fam == "triples":
            if q:
                return space_list(dims, QUICK_DTYPES_2)
            return space_list(dims, DTYPES, [(4, metrics(4), QUICK_DTYPES_2),
                                             (REDUCED_DIM, REDUCED_METRICS, QUICK_DTYPES_2)])
        if fam == "lin21":
            if q:
                return space_list(dims, QUICK_DTYPES_1)
            return space_list(dims, DTYPES, [(4, REDUCED_METRICS_4, DTYPES),
                                             (REDUCED_DIM, REDUCED_METRICS, QUICK_DTYPES_1)])
        if fam == "lin22":
            if q:
                return space_list(dims, QUICK_DTYPES_1)
            return space_list(dims, DTYPES, [(4, REDUCED_METRICS_4, DTYPES)])
        if fam == "full":
            if q:       # two dtypes up to dimension 1, object dtype in dimension 2
                return space_list((0, 1), QUICK_DTYPES_2, [(2, metrics(2), QUICK_DTYPES_1)])
            return space_list(tuple(range(FULL_MAX_DIM + 1)), QUICK_DTYPES_2)
        if fam == "self":
            if q:
                return space_list(dims, QUICK_DTYPES_1, [(4, REDUCED_METRICS_4, QUICK_DTYPES_1)])
            return space_list(big, DTYPES, [red5])
        if fam == "history":
            if q:
                return space_list((0, 1, 2), QUICK_DTYPES_2, [(3, REDUCED_METRICS_3, QUICK_DTYPES_2)])
            return space_list(dims, DTYPES, [(4, REDUCED_METRICS_4, QUICK_DTYPES_2)])
        if fam == "highdim":
            out = []
            for d in HIGH_DIMS:
                mixed = tuple((1, -1, 2)[i % 3] for i in range(d))
                for dt in (QUICK_DTYPES_2 if q else DTYPES):
                    out.append((d, (1,) * d, dt))
                    out.append((d, mixed, dt))
            return out
        if fam == "full-d3":
            return space_list((), (), [(3, REDUCED_METRICS_3, ("obj",))])
        if fam == "construct":
            ex = lambda d: [(1,) * d, tuple(METRIC_ENTRIES[(k + 1) % 4] for k in range(d))]  # noqa
            top = QUICK_MAX_DIM if q else REDUCED_DIM
            return space_list((), (), [(d, ex(d) if d else [()], ("obj", "i64"))
                                       for d in range(top + 1)])
        raise ValueError(fam)

    def families(self, tier):
        def rows_blade(fam):
            def gen():
                for d, m, dt in self._spaces(tier, fam):
                    for ai in range(2 ** d):
                        yield ("row", d, m, dt, ai)
            return gen

        def rows_blade_pair(fam):
            def gen():
                for d, m, dt in self._spaces(tier, fam):
                    nb = 2 ** d
                    for ai in range(nb):
                        for bi in range(ai + 1, nb):
                            yield ("row", d, m, dt, ai * nb + bi)
            return gen

        def rows_high(fam):
            def gen():
                for d, m, dt in self._spaces(tier, fam):
                    for ai in range(len(high_blades(d))):
                        yield ("row", d, m, dt, ai)
            return gen

        def rows_stripes(fam):
            def gen():
                for d, m, dt in self._spaces(tier, fam):
                    for k in range(CONSTRUCT_STRIPES):
                        yield ("row", d, m, dt, k)
            return gen

        def rows_space(fam):
            def gen():
                for d, m, dt in self._spaces(tier, fam):
                    yield ("row", d, m, dt, 0)
            return gen

        def rows_full(fam, coeffs_for):
            def gen():
                for d, m, dt in self._spaces(tier, fam):
                    for mi in range(len(coeffs_for(d)) ** (2 ** d)):
                        yield ("row", d, m, dt, mi)
            return gen

        fams = [
            ("axioms", rows_space("axioms")),
            ("pairs", rows_blade("pairs")),
            ("triples", rows_blade("triples")),
            ("lin21", rows_blade_pair("lin21")),
            ("lin22", rows_blade_pair("lin22")),
            ("full", rows_full("full", lambda d: self._full_coeffs(tier, "full", d))),
            ("unary", rows_blade("unary")),
            ("construct", rows_stripes("construct")),
            ("history", rows_blade("history")),
            ("self", rows_blade("self")),
            ("highdim", rows_high("highdim")),
        ]
        if tier == "thorough":
            fams.append(("full-d3", rows_full("full-d3", lambda d: FULL_COEFFS_THOROUGH_D3)))
        sel = os.environ.get("C18_ONLY")        # debugging aid only: restrict to some families
        if sel:
            fams = [f for f in fams if f[0] in sel.split(",")]
        return fams

    @staticmethod
    def _full_coeffs(tier, fam, d):
        if fam == "full-d3":
            return FULL_COEFFS_THOROUGH_D3
        if tier == "thorough" and d == 2:
            return FULL_COEFFS_THOROUGH_D2
        return FULL_COEFFS_QUICK

    @staticmethod
    def _full_mv(blades, coeffs, idx):
        terms = []
        for b in blades:
            idx, k = divmod(idx, len(coeffs))
            if coeffs[k] != 0:
                terms.append((b, str(coeffs[k])))
        return tuple(terms)

    def expand(self, family, item, tier):
        """The cases of one row."""
        if family == "construct":
            return (c for i, c in enumerate(self._expand(family, item, tier))
                    if i % CONSTRUCT_STRIPES == item[4])
        return self._expand(family, item, tier)

    def _expand(self, family, item, tier):
        _, d, m, dt, ai = item
        blades = all_blades(d) if d <= REDUCED_DIM else None
        mk = lambda kind, payload: (kind, d, m, dt, payload)                  # noqa: E731
        if family == "axioms":
            for i in range(d):
                yield mk("axi", (i, i))
                for j in range(i + 1, d):
                    yield mk("axi", (i, j))
        elif family == "pairs":
            a = blades[ai]
            for b in blades:
                for ca, cb in PAIR_COEFFS:
                    yield mk("bin", ("prod", ((a, ca),), ((b, cb),)))
        elif family == "triples":
            a = blades[ai]
            for b in blades:
                for c in blades:
                    for ca, cb, cc in TRIPLE_COEFFS:
                        yield mk("tri", (((a, ca),), ((b, cb),), ((c, cc),)))
        elif family == "lin21":
            a, b = blades[ai // len(blades)], blades[ai % len(blades)]
            pats = LIN21_COEFFS if d < 4 else LIN21_COEFFS_BIG
            for c in blades:
                for c1, c2, dd in pats:
                    two, one = ((a, c1), (b, c2)), ((c, dd),)
                    yield mk("bin", ("prod+add", two, one))
                    yield mk("bin", ("prod+add", one, two))
        elif family == "lin22":
            a, b = blades[ai // len(blades)], blades[ai % len(blades)]
            for ci, c in enumerate(blades):
                for dd in blades[ci + 1:]:
                    for c2, d2 in LIN22_COEFFS:
                        yield mk("bin", ("prod", ((a, "1"), (b, c2)), ((c, "1"), (dd, d2))))
        elif family in ("full", "full-d3"):
            coeffs = self._full_coeffs(tier, family, d)
            mv_m = self._full_mv(blades, coeffs, ai)
            for ni in range(len(coeffs) ** len(blades)):
                # the second operand lists its terms in the opposite order
                mv_n = tuple(reversed(self._full_mv(blades, coeffs, ni)))
                yield mk("bin", ("all", mv_m, mv_n))
                if ni == ai and mv_m:
                    yield mk("bin", ("self", mv_m, mv_m))
        elif family == "unary":
            a = blades[ai]
            for c in UNARY_COEFFS + UNARY_COEFFS_MORE:
                yield mk("una", (((a, c),),))
            for b in blades[ai + 1:]:
                for c1, c2 in UNARY2_COEFFS:
                    yield mk("una", (((a, c1), (b, c2)),))
        elif family == "self":
            a = blades[ai]
            for c in UNARY_COEFFS:
                yield mk("bin", ("self", ((a, c),), ((a, c),)))
            for b in blades[ai + 1:]:
                for c1, c2 in UNARY2_COEFFS:
                    t = ((a, c1), (b, c2))
                    yield mk("bin", ("self", t, t))
        elif family == "history":
            a = blades[ai]
            for prior in HISTORY_PRIORS:
                for c in UNARY_COEFFS:
                    yield mk("his", (prior, ((a, c),), ()))
                for b in blades[ai + 1:]:
                    for c1, c2 in HISTORY_UNARY2_COEFFS:
                        yield mk("his", (prior, ((a, c1), (b, c2)), ()))
            for prior in HISTORY_PRIORS_BINARY:
                for b in blades:
                    for ca, cb in HISTORY_BINARY_COEFFS:
                        yield mk("his", (prior, ((a, ca),), ((b, cb),)))
        elif family == "highdim":
            hb = high_blades(d)
            a = hb[ai]
            pats = HIGH_PAIR_COEFFS if tier == "quick" else HIGH_PAIR_COEFFS_THOROUGH
            for b in hb:
                for ca, cb in pats:
                    yield mk("bin", ("prod", ((a, ca),), ((b, cb),)))
            if len(a) <= HIGH_TRIPLE_MAX_GRADE:
                small = [b for b in hb if len(b) <= HIGH_TRIPLE_MAX_GRADE]
                for b in small:
                    for c in small:
                        if len(c) > HIGH_TRIPLE_LAST_MAX_GRADE:
                            continue
                        yield mk("tri", (((a, "1"),), ((b, "1"),), ((c, "1"),)))
            for c in UNARY_COEFFS:
                yield mk("una", (((a, c),),))
                if c in ("1", "x"):
                    yield mk("his", ("hash", ((a, c),), ()))
            for b in hb:
                if len(b) == 1 and b != a:
                    for c1, c2 in HIGH_UNARY2_COEFFS:
                        yield mk("una", (((a, c1), (b, c2)),))
        elif family == "construct":
            perms = [p for r in range(min(PERM_MAX_LEN, d) + 1)
                     for p in itertools.permutations(range(d), r)]
            for p in perms:
                for c in ("1", "2", "1/2", "x"):
                    yield mk("con", ("perm", ((p, c),)))
            for p in perms:
                for q_ in perms:
                    if p != q_:
                        for c1, c2 in (("1", "1"), ("1", "-1"), ("2", "1"), ("x", "y")):
                            yield mk("con", ("perm", ((p, c1), (q_, c2))))
            for c in ("0", "1", "-1", "2", "1/2", "x"):
                yield mk("con", ("scalar", c))
            if d <= 4:
                for vec in itertools.product(("0", "1", "-1"), repeat=d):
                    yield mk("con", ("vec", vec))
                    if dt == "euc":
                        yield mk("con", ("vec-default-space", vec))
                for k in range(d):
                    for sc in ("x", "1/2"):
                        vec = tuple(sc if i == k else "1" for i in range(d))
                        yield mk("con", ("vec", vec))
            if d <= 3:
                for bits in range(2 ** d):
                    for c in ("0", "1", "x"):
                        yield mk("con", ("bits", ((bits, c),)))
                    for bits2 in range(2 ** d):
                        if bits2 != bits:
                            for c1, c2 in (("1", "1"), ("2", "-1")):
                                yield mk("con", ("bits", ((bits, c1), (bits2, c2))))
                            if bits2 == (bits + 1) % 2 ** d:
                                for c1, c2 in (("0", "1"), ("1", "0"), ("0", "0")):
                                    yield mk("con", ("bits", ((bits, c1), (bits2, c2))))
        else:
            raise ValueError(family)

    # -- checking -----------------------------------------------------------------------------
    def check_item(self, family, item, tier):
        r = Res()
        if item[0] == "one":
            cases = [item[1]]
        else:
            cases = self.expand(family, item, tier)
        with_coeffs = family in ("full", "full-d3", "unary", "construct", "axioms", "history",
                                 "self")
        first = None
        for case in cases:
            if first is None:
                first = case
            fails, n, nontrivial = check_case(case)
            r.evals += n
            r.count("cases")
            r.count("cases_" + case[0])
            if nontrivial:
                r.keys.append(_key_of(case, with_coeffs))
            if fails:
                self._report(r, case, fails)
        if first is not None and item[0] != "one":
            r.sample = render(first)
        return r

    def _report(self, r, case, fails):
        seen = []
        for kind, detail in fails:
            if kind in seen:
                continue
            seen.append(kind)
            used = _SHRINKS.get(kind, 0)
            sigs = _SIGS.setdefault(kind, set())
            if (len(seen) > MAX_KINDS_SHRUNK_PER_CASE or used >= MAX_SHRINKS_PER_WORKER_AND_KIND
                    or len(sigs) >= MAX_SIGS_PER_WORKER_AND_KIND):
                r.fail(kind, f"{kind}|(further failures of this kind, not minimised)",
                       f"e.g. {render(case)}: {detail}", witness=("one", case))
                continue
            _SHRINKS[kind] = used + 1
            small = shrink(case, kind)
            d2 = next((d for k, d in check_case(small)[0] if k == kind), detail)
            sigs.add(render(small))
            r.fail(kind, f"{kind}|{render(small)}",
                   f"{render(small)}: {d2}   [shrunk from {render(case)}]",
                   witness=("one", small))

    def describe(self, family, item):
        return {"family": family, "case": item}


CHECK = C18()

"""C16 -- pattern matching results are sound.

Part U (unifier): bounded-exhaustive (pattern, target, candidate set) triples fed to the real
``UnidirectionalUnifier``; every returned record is checked against my own substitution and my own
AC normal form on specs (vf.c16_model); exact injective renamings must give >= 1 record.

Part B (matchpy bridge): to/from round trip on depth-2 trees and every (parent, position, child)
nesting of the bridged node types; ``match`` / ``match_anywhere`` / ``replace_all`` with dot- and
star-wildcard patterns, each reported match instantiated by the same model, each replace_all result
required to be reachable from the subject by rewriting with exactly the matches the bridge handed to
the replacement callback.
"""
from __future__ import annotations

import itertools
import os
import re
from functools import lru_cache

from vf import gen
from vf.c16_model import (
    AC_TAGS, ac_normal, bridge_normal, canon_triple, completeness_applies, instantiate, is_nary,
    renaming_of,
    kids, mk, neutral_normal, positions, put_at, rename_vars, show_triple, shrink_triple,
    subterms, var_names, wildcard_names,
)
from vf.localise import localise
from vf.run import Check, Hang, Res
from vf.spec import C, S, T, V, build, show, to_spec

# {{{ bounds (every bound is a named constant)

A, B_, C_ = V("a"), V("b"), V("c")
X, Y, Z = V("x"), V("y"), V("z")
FX = ("Call", V("f"), T(X))

PATTERN_LEAVES = (A, B_, C_, C(1), C(2))                 # leaves of unifier patterns
VALUE_POOL = (X, Y, Z, ("Sum", T(X, Y)), ("Product", T(X, Y)), C(2), FX)   # candidate values
VALUE_POOL_SMALL = (X, Y, ("Sum", T(X, Y)), C(2))        # for depth-3 patterns in the quick tier
FUNCTION_POOL = (V("g"),)                                # values for a candidate in a function slot
AGGREGATE_POOL = (V("brr"),)                             # ... in an aggregate slot
RENAME_TO = ("a", "b", "c", "x", "y", "z")               # injective renamings map into these names
RENAME_TO_QUICK = 5                                      # quick, nestings: only the first five of them
RHS_TARGET_LEAVES = (A, X, C(1))                         # targets of the rhs_mapping_candidates family
RENAME_TO_RHS = 4                                        # ... its renamings map into a b c x
NP_CONSTANTS = (("np", "int64", 1), ("np", "float64", 2.5), ("np", "float32", 1.5),
                ("np", "complex128", 1 + 2j), ("np", "bool", True))   # numpy scalar pattern leaves
INDEP_LEAVES = (A, X, Y, C(0), C(1), C(2))               # leaves of independently generated targets
PATTERN_CTORS = ("Call1", "Call2", "Subscript", "SubscriptT", "Sum2", "Sum3", "Product2",
                 "Product3", "Quotient", "Power", "Cmp<", "Cmp==", "If")
DEEP_CTORS = ("Sum2", "Product2", "Power", "Call1", "Subscript")   # thorough: all depth-3 patterns
DEEP_LEAVES = (A, B_, C(1))
MAX_PERM_CHILDREN = 4          # thorough: all root permutations up to this arity (depth-2 patterns)
MAX_PERM_CHILDREN_DEEP = 3     # ... for deeper patterns

BRIDGED_TAGS = ("Call", "Subscript", "Sum", "Product", "Quotient", "FloorDiv", "Remainder",
                "Power", "LeftShift", "RightShift", "BitwiseNot", "BitwiseOr", "BitwiseXor",
                "BitwiseAnd", "LogicalNot", "LogicalOr", "LogicalAnd", "Comparison", "If")
RT_LEAVES = (X, Y, C(2), C(-1), C(2.5), C(True), C(1j))
RT_NEST3 = ("Call1", "Subscript", "Sum2", "Product3", "Quotient", "Power", "LeftShift",
            "BitwiseNot", "BitwiseOr2", "Cmp<", "LogicalNot", "LogicalAnd2", "If")
MATCH_CTORS = ("Call1", "Call2", "Subscript", "SubscriptT", "Sum2", "Sum3", "Product2",
               "Product3", "Quotient", "Power", "Cmp<", "If")
W, U = ("DotWildcard", S("w_")), ("DotWildcard", S("u_"))
ST, ST2 = ("StarWildcard", S("s_")), ("StarWildcard", S("t_"))
SUBJECT_LEAVES = (X, Y, C(2))
WILD_LEAVES = (X, C(2), W, U)
# constants that are == for Python (and for matchpy's value-compared terms) but differ in type/sign
TWIN_LEAVES = (C(1), C(1.0), C(True), C(2), C(2.0), C(0.0), C(-0.0))
TWIN_PAIRS = ((C(1), C(1.0)), (C(1), C(True)), (C(1.0), C(True)), (C(2), C(2.0)),
              (C(0.0), C(-0.0)), (C(0), C(False)), (C(0), C(0.0)))
RHS_HEAD = V("R")                                        # head of every replacement right-hand side

# }}}


PCTORS = gen.ctors(names=PATTERN_CTORS)
FILL = dict(gen.DEFAULT_FILL)
FILL["a"] = [V("arr"), V("arr")]
FILL["f"] = [V("f"), V("f")]


# {{{ part U: enumeration

def first_occurrence_canonical(s, names=("a", "b", "c")) -> bool:
    seen = [n for n in var_names(s) if n in names]
    return seen == list(names[:len(seen)])


@lru_cache(maxsize=None)
def patterns_depth2():
    out = [A, C(1)]
    for s in gen.depth2(PCTORS, PATTERN_LEAVES, FILL):
        if first_occurrence_canonical(s):
            out.append(s)
    return tuple(out)


@lru_cache(maxsize=None)
def depth2_set():
    return frozenset(patterns_depth2())


@lru_cache(maxsize=None)
def patterns_nest():
    """Every (parent, position, child): scheme 'shared' repeats the variable a in parent and child,
    scheme 'distinct' uses pairwise different leaves."""
    out = []
    seen = set()
    for scheme in ("shared", "distinct"):
        for pc in PCTORS:
            for pos in range(len(pc.slots)):
                if pc.slots[pos] != "e":
                    continue
                for cc in PCTORS:
                    cl = iter((A, B_, C(1)))
                    child = cc(*[next(cl) if k in ("e", "b") else FILL[k][0] for k in cc.slots])
                    ol = iter((A, C_) if scheme == "shared" else (C_, C(2)))
                    others = [None if i == pos else (next(ol) if k in ("e", "b") else FILL[k][0])
                              for i, k in enumerate(pc.slots)]
                    others[pos] = child
                    s = pc(*others)
                    if s not in seen:
                        seen.add(s)
                        out.append(s)
    return tuple(out)


@lru_cache(maxsize=None)
def patterns_deep():
    cs = gen.ctors(names=DEEP_CTORS)
    out = []
    for s in gen.full_trees(cs, list(DEEP_LEAVES), 3, FILL):
        if first_occurrence_canonical(s):
            out.append(s)
    return tuple(out)


@lru_cache(maxsize=None)
def sibling_terms(other):
    f = FILL["f"][0]
    return [("Call", f, T(A)), ("Call", f, T(B_)), ("Power", A, B_), ("Power", B_, A),
            ("Power", A, C(2)), mk(other, [A, B_]), mk(other, [B_, A]), mk(other, [A, C(2)]),
            mk(other, [B_, C(1)])]


@lru_cache(maxsize=None)
def patterns_siblings3():
    """Sums / products of THREE compound operands over a and b: with the renamings that permute
    the pattern's own names, an operand can meet its own verbatim copy in the target although it
    has to be paired with another operand."""
    out = []
    for tag, other in (("Sum", "Product"), ("Product", "Sum")):
        for cs in itertools.product(sibling_terms(other), repeat=3):
            s = mk(tag, cs)
            if first_occurrence_canonical(s, ("a", "b")):
                out.append(s)
    return tuple(out)


@lru_cache(maxsize=None)
def patterns_siblings():
    """Sums / products whose operands are two compound terms sharing variables (and optionally a
    third plain variable c): bindings made in one operand must agree with the other's."""
    out = []
    for tag, other in (("Sum", "Product"), ("Product", "Sum")):
        sib = sibling_terms(other)
        for c1, c2 in itertools.product(sib, repeat=2):
            for extra in ((), (C_,)):
                s = mk(tag, [c1, c2, *extra])
                if first_occurrence_canonical(s, ("a", "b")):
                    out.append(s)
    return tuple(out)


def slot_kinds(P):
    """name -> 'f' / 'a' / 'e': where a pattern variable stands (function, aggregate, operand)."""
    kinds = {}

    def rec(s, kind):
        if s[0] == "Variable":
            kinds.setdefault(s[1][1], kind)
            return
        if s[0] in ("int", "float", "bool", "complex", "str", "none"):
            return
        for i, x in enumerate(s[1:]):
            if isinstance(x, tuple) and x and isinstance(x[0], str):
                k = "e"
                if s[0] == "Call" and i == 0:
                    k = "f"
                if s[0] == "Subscript" and i == 0:
                    k = "a"
                rec(x, k)
    rec(P, "e")
    return kinds


def subsets(names):
    names = list(names)
    for r in range(len(names) + 1):
        for comb in itertools.combinations(names, r):
            yield comb


def candidate_sets(P, full=True):
    names = var_names(P)
    if full in ("few", "all-core"):
        core = [n for n in names if n in ("a", "b", "c")]
        yield tuple(core)
        if full == "few":
            for n in core:
                if (n,) != tuple(core):
                    yield (n,)
    elif full:
        yield from subsets(names)
    else:
        core = [n for n in names if n in ("a", "b", "c")]
        seen = set()
        for k in list(subsets(core)) + [tuple(names)]:
            if k not in seen:
                seen.add(k)
                yield k


def map_ac(s, f):
    """Apply f(children list) -> children list at every sum / product, bottom-up."""
    if s[0] in ("int", "float", "bool", "complex", "str", "none", "Variable"):
        return s
    s = (s[0], *[map_ac(x, f) if isinstance(x, tuple) and x and isinstance(x[0], str) else x
                 for x in s[1:]])
    if is_nary(s, AC_TAGS):
        return mk(s[0], f(s[0], list(kids(s))))
    return s


def flatten_only(s):
    def f(tag, ch):
        out = []
        for c in ch:
            if c[0] == tag and is_nary(c, AC_TAGS):
                out.extend(kids(c))
            else:
                out.append(c)
        return out
    return map_ac(s, f)


def regroup_tail(s):
    """Sum(c0, c1, c2, ...) -> Sum(c0, Sum(c1, c2, ...)) at every sum / product with >= 3 children."""
    return map_ac(s, lambda tag, ch: [ch[0], mk(tag, ch[1:])] if len(ch) >= 3 else ch)


def target_variants(t, tier, max_perm=MAX_PERM_CHILDREN):
    """The instance itself, then reordered / regrouped forms of it (deduplicated)."""
    out = [t]

    def add(v):
        if v not in out:
            out.append(v)
    add(map_ac(t, lambda tag, ch: ch[::-1]))
    fl = flatten_only(t)
    add(fl)
    add(map_ac(fl, lambda tag, ch: ch[::-1]))
    add(map_ac(fl, lambda tag, ch: ch[1:] + ch[:1]))
    add(regroup_tail(fl))
    if tier == "thorough":
        # every permutation of the children of the root node (when it is a sum / product)
        if is_nary(fl, AC_TAGS) and len(kids(fl)) <= max_perm:
            for perm in itertools.permutations(kids(fl)):
                add(mk(fl[0], perm))
        if is_nary(t, AC_TAGS) and len(kids(t)) <= max_perm:
            for perm in itertools.permutations(kids(t)):
                add(mk(t[0], perm))
    return out


def value_pools(P, K, pool):
    kinds = slot_kinds(P)
    pools = []
    for k in K:
        if kinds.get(k) == "f":
            pools.append(FUNCTION_POOL)
        elif kinds.get(k) == "a":
            pools.append(AGGREGATE_POOL)
        else:
            pools.append(pool)
    return pools


def instances(P, K, pool, tier, first=None):
    pools = value_pools(P, K, pool)
    if first is not None and pools:
        pools[0] = pools[0][first:first + 1]
    max_perm = MAX_PERM_CHILDREN if P in depth2_set() else MAX_PERM_CHILDREN_DEEP
    for vals in itertools.product(*pools):
        t = instantiate(P, variables=dict(zip(K, vals)))
        yield from target_variants(t, tier, max_perm)


def renamings(P, K, n_names=None):
    """Targets that are P under an injective renaming moving only K (incl. swaps among own names)."""
    names = var_names(P)
    fixed = [n for n in names if n not in K]
    kinds = slot_kinds(P)
    pools = []
    for k in K:
        if kinds.get(k) == "f":
            pools.append(("f", "g"))
        elif kinds.get(k) == "a":
            pools.append(("arr", "brr"))
        else:
            pools.append(RENAME_TO[:n_names])
    for vals in itertools.product(*pools):
        if len(set(vals)) != len(vals) or set(vals) & set(fixed):
            continue
        yield rename_vars(P, dict(zip(K, vals)))


@lru_cache(maxsize=None)
def indep_targets():
    """tag -> independently generated targets (depth <= 2) with that root."""
    by = {}
    for c in PCTORS:
        for s in gen.depth2([c], INDEP_LEAVES, FILL):
            by.setdefault(c.tag, []).append(s)
    # nested sums / products (regrouped operands) and four-operand ones
    for tag in AC_TAGS:
        for l1, l2, l3 in itertools.product((X, Y, C(0), C(1)), repeat=3):
            by[tag].append(mk(tag, [l1, mk(tag, [l2, l3])]))
            by[tag].append(mk(tag, [mk(tag, [l1, l2]), l3]))
        for ls in itertools.product((A, X, C(1)), repeat=4):
            by[tag].append(mk(tag, ls))
    # one-tuple subscript indices
    for l1 in INDEP_LEAVES:
        by["Subscript"].append(("Subscript", V("arr"), T(l1)))
    # another function / aggregate symbol
    for l1 in INDEP_LEAVES:
        by["Call"].append(("Call", V("g"), T(l1)))
        by["Call"].append(("Call", V("g"), T(l1, A)))
        by["Subscript"].append(("Subscript", V("brr"), l1))
    by["leaf"] = [A, X, C(1), C(2)]
    return by


@lru_cache(maxsize=None)
def rhs_targets():
    """root tag -> targets of the rhs_mapping_candidates family: depth-2 trees over a x 1, i.e.
    with the pattern's own name a next to a foreign name."""
    by = {}
    for c in PCTORS:
        for s in gen.depth2([c], RHS_TARGET_LEAVES, FILL):
            by.setdefault(c.tag, []).append(s)
    by["leaf"] = [A, X, C(1)]
    return by


@lru_cache(maxsize=None)
def patterns_numpy():
    """Depth-2 patterns over a, b and one numpy scalar constant (every dtype in NP_CONSTANTS)."""
    out = []
    for n in NP_CONSTANTS:
        for s in gen.depth2(PCTORS, (A, B_, n), FILL):
            if first_occurrence_canonical(s) and n in subterms(s):
                out.append(s)
    return tuple(out)


@lru_cache(maxsize=None)
def cross_targets():
    """root tag -> the nesting patterns themselves and their copies over x y z, used as
    independently generated depth-3 targets for every other nesting pattern with that root."""
    by = {}
    for P in patterns_nest():
        for t in (P, rename_vars(P, {"a": "x", "b": "y", "c": "z"})):
            by.setdefault(P[0], [])
            if t not in by[P[0]]:
                by[P[0]].append(t)
    return by


@lru_cache(maxsize=None)
def cross_root_representatives():
    by = indep_targets()
    return tuple(by[tag][len(by[tag]) // 2] for tag in sorted(by))

# }}}


# {{{ part U: running and judging one triple

@lru_cache(maxsize=100000)
def built(spec):
    return build(spec)


def run_unifier(P, T_, K, R=None):
    from pymbolic.mapper.unifier import UnidirectionalUnifier
    if R is None:
        return UnidirectionalUnifier(frozenset(K))(built(P), built(T_))
    return UnidirectionalUnifier(frozenset(K), rhs_mapping_candidates=frozenset(R))(
        built(P), built(T_))


def completeness_applies_rhs(P, T_, K, R):
    """... and, when the target variables that may be assigned are restricted to R, every
    candidate is renamed to a name in R."""
    if not completeness_applies(P, T_, K):
        return False
    if R is None:
        return True
    m_ = renaming_of(P, T_)
    return all(v in R for n, v in m_.items() if n in K)


def record_bindings(rec, K):
    """-> (bindings name -> spec, problems [(kind, text)])."""
    probs = []
    eq = {}
    for lhs, rhs in rec.equations:
        ls = to_spec(lhs)
        if ls[0] != "Variable":
            probs.append(("undeclared-binding", f"left-hand side {show(ls)} is not a variable"))
            continue
        name = ls[1][1]
        if name not in K:
            probs.append(("undeclared-binding",
                          f"binds {name!r}, which is not a declared candidate"))
        eq.setdefault(name, [])
        rs = to_spec(rhs)
        if rs not in eq[name]:
            eq[name].append(rs)
    for n, vs in sorted(eq.items()):
        if len(vs) > 1:
            probs.append(("multi-valued", f"{n!r} bound to " + " and ".join(show(v) for v in vs)))
    sigma = {n: vs[0] for n, vs in eq.items()}
    lmap = getattr(rec, "lmap", None)
    if lmap is not None and not probs:
        ls = {n: to_spec(v) for n, v in lmap.items()}
        if ls != sigma:
            probs.append(("lmap-disagrees",
                          "equations say {" + ", ".join(f"{n}={show(v)}" for n, v in sorted(sigma.items()))
                          + "} but lmap says {" + ", ".join(f"{n}={show(v)}" for n, v in sorted(ls.items())) + "}"))
    return sigma, probs


def classify_unsound(inst, T_):
    """Which kind of difference separates the instantiated pattern from the target."""
    if ac_normal(inst, unwrap_index=True) == ac_normal(T_, unwrap_index=True):
        return "unsound-index-1tuple", ""
    ni, ei = neutral_normal(inst)
    nt, et = neutral_normal(T_)
    if ni == nt:
        if any("annihilates" in e for e in ei + et):
            return "unsound-neutral-annihilated", "Product:0"
        only_i = list(ei)
        only_t = []
        for e in et:
            if e in only_i:
                only_i.remove(e)
            else:
                only_t.append(e)
        if only_i and not only_t:
            return "unsound-neutral-invented", only_i[0]
        if only_t and not only_i:
            return "unsound-neutral-dropped", only_t[0]
        return "unsound-neutral-mixed", (only_i + only_t)[0] if only_i + only_t else "?"
    return "unsound", ""


KIND_ORDER = ("raises", "undeclared-binding", "multi-valued", "lmap-disagrees", "unsound",
              "unsound-index-1tuple", "unsound-neutral-mixed", "unsound-neutral-annihilated",
              "unsound-neutral-invented", "unsound-neutral-dropped", "incomplete")


def judge(P, T_, K, R=None):
    """-> (number of records, sorted list of (kind, label, text))."""
    try:
        recs = run_unifier(P, T_, K, R)
    except (RecursionError, Hang):
        raise
    except Exception as e:  # noqa: BLE001
        return 0, [(f"raises:{type(e).__name__}", "", f"unifier raised {type(e).__name__}: {e}")]
    probs = []
    nt = ac_normal(T_)
    for rec in recs:
        sigma, ps = record_bindings(rec, K)
        for k, text in ps:
            probs.append((k, "", f"record {rec!r}: {text}"))
        inst = instantiate(P, variables=sigma)
        if ac_normal(inst) != nt:
            kind, label = classify_unsound(inst, T_)
            probs.append((kind, label, f"record {rec!r} instantiates the pattern to {show(inst)}"))
    if not recs and completeness_applies_rhs(P, T_, K, R):
        probs.append(("incomplete", "", "target is the pattern under an injective renaming of its "
                      "candidates but no record was returned"))
    probs.sort(key=lambda p: (KIND_ORDER.index(p[0].split(":")[0]), p[1], p[2]))
    return len(recs), probs


def kind_of(P, T_, K, R=None):
    _, probs = judge(P, T_, K, R)
    if not probs:
        return None
    return (probs[0][0], probs[0][1])


def well_formed_target(s) -> bool:
    """No sums / products with fewer than two operands (degenerate arities are out of scope)."""
    for c in subterms(s):
        if is_nary(c, AC_TAGS) and len(kids(c)) < 2:
            return False
    return True


MAX_SHRINKS_PER_ITEM = 2      # failing triples per item and kind that are reduced individually


def report_triple(r, P, T_, K, probs, state, R=None):
    seen = set()
    for kind, label, text in probs:
        if (kind, label) in seen:
            continue
        seen.add((kind, label))
        if kind.startswith("unsound-neutral"):
            sig = f"{kind}|{label}"
        elif kind != "unsound-index-1tuple" and state.get(kind, 0) >= MAX_SHRINKS_PER_ITEM:
            # many failures of one kind for one (pattern, candidate set): the first ones were
            # reduced to minimal triples, the rest are filed under the pattern
            P2, _, K2 = canon_triple(P, P, K)
            sig = (f"{kind}|{show(P2)} ~ (further targets) / {{{','.join(K2)}}}"
                   + ("" if R is None else " rhs=..."))
        else:
            state[kind] = state.get(kind, 0) + 1
            def ko(p, t, k):
                if not (well_formed_target(t) and well_formed_target(p)):
                    return None
                return kind_of(p, t, k, R)
            sig = f"{kind}|" + show_triple(*shrink_triple(P, T_, K, (kind, label), ko, R=R))
        rhs = "" if R is None else f"  rhs_mapping_candidates {{{','.join(R)}}}"
        r.fail(kind, sig,
               f"pattern {show(P)}  target {show(T_)}  candidates {{{','.join(K)}}}{rhs}: {text}",
               witness=(("triple", P, T_, tuple(K)) if R is None
                        else ("triple", P, T_, tuple(K), tuple(R))))


def do_triple(r, P, T_, K, state, R=None):
    n, probs = judge(P, T_, K, R)
    r.evals += 1
    if n:
        r.count("records", n)
        r.keys.append(("u", P, T_, K) if R is None else ("u", P, T_, K, R))
    if probs:
        report_triple(r, P, T_, K, probs, state, R)
    return n

# }}}


# {{{ part U, histories: one unifier instance answering several queries

HIST_KERNELS = (("Sum", T(("Product", T(A, C(2))), C(1))), ("Product", T(A, C(2))),
                ("Sum", T(A, B_)))


def _fcall(*args):
    return ("Call", V("f"), T(*args))


@lru_cache(maxsize=None)
def history_queries():
    """(pattern, target) queries over the candidates {a, b}: each kernel against its renaming to
    x / to y, and inside a call whose other argument binds ``a`` to the same / to another name
    (kernel first and kernel last)."""
    qs = []
    for k in HIST_KERNELS:
        kx = rename_vars(k, {"a": "x", "b": "z"})
        ky = rename_vars(k, {"a": "y", "b": "z"})
        qs += [(k, kx), (k, ky),
               (_fcall(A, k), _fcall(X, kx)), (_fcall(A, k), _fcall(Y, kx)),
               (_fcall(k, A), _fcall(kx, X)), (_fcall(k, A), _fcall(kx, Y))]
    return tuple(qs)


def _record_set(recs, K):
    out = set()
    for rec in recs:
        sigma, _ = record_bindings(rec, K)
        out.add(tuple(sorted(sigma.items())))
    return out


def do_history(r, K, seq):
    """``seq`` = indices into history_queries(); one shared instance answers them in order; after
    every step the set of records must be the one a fresh instance returns (which the other
    families judge)."""
    from pymbolic.mapper.unifier import UnidirectionalUnifier
    qs = history_queries()
    shared = UnidirectionalUnifier(frozenset(K))
    for n, i in enumerate(seq):
        P, T_ = qs[i]
        r.evals += 1
        try:
            got = _record_set(shared(built(P), built(T_)), K)
            err = None
        except (RecursionError, Hang):
            raise
        except Exception as e:  # noqa: BLE001
            got, err = None, type(e).__name__
        want = _record_set(UnidirectionalUnifier(frozenset(K))(built(P), built(T_)), K)
        if n:
            r.keys.append(("uh", K, tuple(seq[:n + 1])))
        if got != want:
            before = "; ".join(show_triple(qs[j][0], qs[j][1], K) for j in seq[:n]) or "nothing"
            def fmt(rs):
                return "[" + "; ".join("{" + ", ".join(f"{k}={show(v)}" for k, v in rec) + "}"
                                       for rec in sorted(rs, key=repr)) + "]"
            r.fail("instance-state",
                   f"instance-state|{show_triple(P, T_, K)} after {n} earlier quer"
                   + ("y" if n == 1 else "ies"),
                   f"a unifier instance that had answered {before} returns "
                   f"{('raises ' + err) if got is None else fmt(got)} for {show_triple(P, T_, K)}; "
                   f"a fresh instance returns {fmt(want)}",
                   witness=("histq", tuple(K), tuple(seq[:n + 1])))
            return

# }}}


# {{{ part B: the matchpy bridge

BRIDGED = gen.ctors(tags=BRIDGED_TAGS)
MCTORS = gen.ctors(names=MATCH_CTORS)


def roundtrip_kind(spec):
    """-> (kind or None, text)"""
    from pymbolic.interop.matchpy.tofrom import (
        FromMatchpyExpressionMapper, ToMatchpyExpressionMapper)
    try:
        expr = build(spec)
    except Exception:  # noqa: BLE001
        return None, ""
    from pymbolic.primitives import Expression
    if not isinstance(expr, Expression):
        return None, ""
    try:
        back = FromMatchpyExpressionMapper()(ToMatchpyExpressionMapper()(expr))
    except (RecursionError, Hang):
        raise
    except Exception as e:  # noqa: BLE001
        return f"rt-raises:{type(e).__name__}", f"round trip raised {type(e).__name__}: {e}"
    bs = to_spec(back)
    if not same(bridge_normal(bs), bridge_normal(spec)):
        how = "regrouped" if same(ac_flat_all(bs), ac_flat_all(spec)) else "changed"
        return f"rt-{how}", f"came back as {show(bs)}"
    return None, ""


def roundtrip_shared(r, specs):
    """Several expressions converted by ONE To- and ONE From-mapper instance, in order."""
    from pymbolic.interop.matchpy.tofrom import (
        FromMatchpyExpressionMapper, ToMatchpyExpressionMapper)
    to, fr = ToMatchpyExpressionMapper(), FromMatchpyExpressionMapper()
    for i, spec in enumerate(specs):
        r.evals += 1
        try:
            bs = to_spec(fr(to(build(spec))))
        except (RecursionError, Hang):
            raise
        except Exception as e:  # noqa: BLE001
            r.fail("rt-shared-raises", f"rt-shared-raises|{norm_msg(e)}",
                   f"converting {show(spec)} raised {type(e).__name__}: {e}",
                   witness=("rtseq", *specs))
            return
        if not same(bridge_normal(bs), bridge_normal(spec)):
            canon = " ; ".join(show(x) for x in specs[:i + 1])
            r.fail("rt-shared-changed", f"rt-shared-changed|{canon}",
                   f"one mapper pair converting {canon} in this order: {show(spec)} came back as "
                   f"{show(bs)}", witness=("rtseq", *specs))
            return
    r.keys.append(("rtseq", specs))


def ac_flat_all(s):
    """Flatten + sort every commutative operator and wrap indices (classification only)."""
    from vf.c16_model import COMM_TAGS, PRIM

    def rec(c):
        if c[0] in PRIM:
            return c
        c = (c[0], *[rec(x) if isinstance(x, tuple) and x and isinstance(x[0], str) else x
                     for x in c[1:]])
        if is_nary(c, COMM_TAGS):
            out = []
            for x in kids(c):
                if x[0] == c[0] and is_nary(x, COMM_TAGS):
                    out.extend(kids(x))
                else:
                    out.append(x)
            return mk(c[0], sorted(out, key=repr))
        if c[0] == "Subscript" and c[2][0] != "tuple":
            return (c[0], c[1], ("tuple", c[2]))
        return c
    return rec(s)


def law_normal(s):
    return ac_normal(s, wrap_index=True)


def same(a, b) -> bool:
    """Type- and sign-strict equality of specs: ("float", 0.0) == ("float", -0.0) and
    ("int", 1) != ("float", 1.0) as tuples, repr tells all of them apart."""
    return repr(a) == repr(b)


def star_context(pattern):
    ctx = set()
    for c in subterms(pattern):
        if c[0] in ("int", "float", "bool", "complex", "Variable"):
            continue
        holder = c[0]
        for x in c[1:]:
            if isinstance(x, tuple) and x and x[0] == "tuple":
                if any(y[0] == "StarWildcard" for y in x[1:]):
                    ctx.add(holder)
    return "star-in-" + "+".join(sorted(ctx)) if ctx else "no-star"


def norm_msg(e):
    return re.sub(r"\d+", "N", f"{type(e).__name__}: {e}")[:160]


def binding_specs(subst, pattern):
    """Bridge substitution -> (dots, stars, problems)."""
    import multiset
    dnames, snames = wildcard_names(pattern)
    dots, stars, probs = {}, {}, []
    for name, v in subst.items():
        if name in snames:
            if isinstance(v, multiset.BaseMultiset):
                items = []
                for k, n in v.items():
                    items.extend([to_spec(k)] * n)
                stars[name] = sorted(items, key=repr)
            elif isinstance(v, (tuple, list)):
                stars[name] = [to_spec(x) for x in v]
            else:
                stars[name] = [to_spec(v)]
        elif name in dnames:
            dots[name] = to_spec(v)
        else:
            probs.append(f"binds {name!r}, which is not a wildcard of the pattern")
    return dots, stars, probs


def show_binding(dots, stars):
    parts = [f"{n}={show(v)}" for n, v in sorted(dots.items())]
    parts += [f"{n}=[{', '.join(show(x) for x in v)}]" for n, v in sorted(stars.items())]
    return "{" + ", ".join(parts) + "}"


def check_match(r, subject, pattern):
    import pymbolic.interop.matchpy as m
    r.evals += 1
    ctx = star_context(pattern)
    pcanon = show(pattern)
    try:
        results = list(m.match(build(subject), build(pattern)))
    except (RecursionError, Hang):
        raise
    except Exception as e:  # noqa: BLE001
        r.fail("match-raises", f"match-raises|{norm_msg(e)}|{ctx}",
               f"match(subject={show(subject)}, pattern={pcanon}) raised {type(e).__name__}: {e}",
               witness=("pair", "match", subject, pattern))
        return
    ns = law_normal(subject)
    if results:
        r.keys.append(("m", subject, pattern))
        r.count("matches", len(results))
    for subst in results:
        dots, stars, probs = binding_specs(subst, pattern)
        inst = instantiate(pattern, dots=dots, stars=stars)
        if not same(law_normal(inst), ns):
            probs.append(f"instantiates the pattern to {show(inst)}, not the subject")
        for text in probs:
            r.fail("match-unsound", f"match-unsound|{pcanon}",
                   f"match(subject={show(subject)}, pattern={pcanon}) reported "
                   f"{show_binding(dots, stars)}: {text}",
                   witness=("pair", "match", subject, pattern))


def check_anywhere(r, subject, pattern):
    import pymbolic.interop.matchpy as m
    r.evals += 1
    ctx = star_context(pattern)
    pcanon = show(pattern)
    try:
        results = list(m.match_anywhere(build(subject), build(pattern)))
    except (RecursionError, Hang):
        raise
    except Exception as e:  # noqa: BLE001
        r.fail("anywhere-raises", f"anywhere-raises|{norm_msg(e)}|{ctx}",
               f"match_anywhere(subject={show(subject)}, pattern={pcanon}) raised "
               f"{type(e).__name__}: {e}", witness=("pair", "anywhere", subject, pattern))
        return
    nodes = {repr(law_normal(c)) for c in subterms(law_normal(subject))}
    if results:
        r.keys.append(("a", subject, pattern))
        r.count("matches", len(results))
    for subst, where in results:
        dots, stars, probs = binding_specs(subst, pattern)
        ws = law_normal(to_spec(where))
        if repr(ws) not in nodes:
            probs.append(f"reported location {show(ws)} is not a subterm of the subject")
        inst = instantiate(pattern, dots=dots, stars=stars)
        if not same(law_normal(inst), ws):
            probs.append(f"instantiates the pattern to {show(inst)}, not the reported subterm "
                         f"{show(ws)}")
        for text in probs:
            r.fail("anywhere-unsound", f"anywhere-unsound|{pcanon}",
                   f"match_anywhere(subject={show(subject)}, pattern={pcanon}) reported "
                   f"{show_binding(dots, stars)}: {text}",
                   witness=("pair", "anywhere", subject, pattern))


def rhs_template(pattern):
    dnames, snames = wildcard_names(pattern)
    params = [("DotWildcard", S(n)) for n in sorted(dnames)]
    params += [("StarWildcard", S(n)) for n in sorted(snames)]
    return ("Call", RHS_HEAD, T(*params))


class RuleLoops(Exception):
    """The rule pattern -> R(wildcards...) would rewrite its own output for ever."""


def check_replace(r, subject, pattern):
    check_replace_seq(r, (subject,), pattern)


def check_replace_seq(r, subjects, pattern):
    """ONE replacement rule object applied to the subjects one after the other (the rule keeps its
    converters, so state carried from one call to the next shows up in the later results)."""
    import pymbolic.interop.matchpy as m
    pcanon = show(pattern)
    rhs = rhs_template(pattern)
    calls = []

    def replacement(**kw):
        dots, stars, probs = binding_specs(kw, pattern)
        new = instantiate(rhs, dots=dots, stars=stars)
        lhs = repr(law_normal(instantiate(pattern, dots=dots, stars=stars)))
        if any(repr(c) == lhs for c in subterms(law_normal(new))):
            # e.g. Sum(w_, s_...) -> R(w_, s_...) with w_ bound to the whole sum: not a
            # terminating rewrite system, nothing to learn from running it
            raise RuleLoops
        calls.append((dots, stars, probs))
        return build(new)

    if len(subjects) == 1:
        wit = ("pair", "replace", subjects[0], pattern)
    else:
        wit = ("replseq", pattern, *subjects)
    try:
        rule = m.make_replacement_rule(build(pattern), replacement)
    except (RecursionError, Hang):
        raise
    except Exception as e:  # noqa: BLE001
        r.evals += 1
        r.fail("replace-raises", f"replace-raises|{norm_msg(e)}|making-rule",
               f"make_replacement_rule({pcanon}) raised {type(e).__name__}: {e}", witness=wit)
        return
    for n, subject in enumerate(subjects):
        r.evals += 1
        del calls[:]
        nth = "" if len(subjects) == 1 else f" (call {n + 1} with the same rule object)"
        try:
            result = m.replace_all(build(subject), [rule])
        except RuleLoops:
            r.count("looping_rules_skipped", 1)
            return
        except (RecursionError, Hang):
            raise
        except Exception as e:  # noqa: BLE001
            stage = "before-any-match" if not calls else "after-match"
            r.fail("replace-raises", f"replace-raises|{norm_msg(e)}|{stage}",
                   f"replace_all(subject={show(subject)}, rule {pcanon} -> {show(rhs)}){nth} raised "
                   f"{type(e).__name__}: {e} after {len(calls)} callback call(s)", witness=wit)
            return
        if calls:
            r.keys.append(("r", subject, pattern, n))
            r.count("replacements", len(calls))
        start = law_normal(subject)
        states = {repr(start): start}
        for i, (dots, stars, probs) in enumerate(calls):
            for text in probs:
                r.fail("replace-unsound", f"replace-unsound|{pcanon}",
                       f"replace_all(subject={show(subject)}, rule {pcanon}){nth}: callback {i}: "
                       f"{text}", witness=wit)
            lhs = law_normal(instantiate(pattern, dots=dots, stars=stars))
            klhs = repr(lhs)
            new = instantiate(rhs, dots=dots, stars=stars)
            nxt = {}
            for st in states.values():
                for path, c in positions(st):
                    if repr(c) == klhs:
                        st2 = law_normal(put_at(st, path, new))
                        nxt[repr(st2)] = st2
            if not nxt:
                r.fail("replace-unsound", f"replace-unsound|{pcanon}",
                       f"replace_all(subject={show(subject)}, rule {pcanon}){nth}: callback {i} got "
                       f"{show_binding(dots, stars)}, but the instantiated pattern {show(lhs)} is "
                       f"not a subterm of the expression rewritten so far", witness=wit)
                return
            states = nxt
        rs = law_normal(to_spec(result))
        if repr(rs) not in states:
            r.fail("replace-unsound", f"replace-unsound|{pcanon}",
                   f"replace_all(subject={show(subject)}, rule {pcanon} -> {show(rhs)}){nth} returned "
                   f"{show(rs)}; rewriting with the {len(calls)} reported match(es) gives "
                   + " or ".join(sorted(show(x) for x in states.values())), witness=wit)
            return


@lru_cache(maxsize=None)
def wildcard_patterns():
    """Depth-2 patterns over {x, 2, w_, u_} plus star-wildcard forms of the variadic shapes."""
    out = [W]
    out.extend(gen.depth2(MCTORS, WILD_LEAVES, FILL))
    f, arr = FILL["f"][0], FILL["a"][0]
    for tag in AC_TAGS:
        for l1 in WILD_LEAVES:
            out.append(mk(tag, [l1, ST]))
            for l2 in WILD_LEAVES:
                out.append(mk(tag, [l1, l2, ST]))
        out.append(mk(tag, [ST, ST2]))
        out.append(mk(tag, [X, ST, ST2]))
    out.append(("Call", f, T(ST)))
    out.append(("Call", f, T(ST, ST2)))
    out.append(("Subscript", arr, T(ST)))
    for l1 in WILD_LEAVES:
        out.append(("Call", f, T(l1, ST)))
        out.append(("Call", f, T(ST, l1)))
        out.append(("Call", f, T(ST, l1, ST2)))
        out.append(("Subscript", arr, T(l1, ST)))
        out.append(("Subscript", arr, T(ST, l1)))
        for l2 in WILD_LEAVES:
            out.append(("Call", f, T(l1, l2, ST)))
    seen = set()
    res = []
    for s in out:
        dots, _ = wildcard_names(s)
        if dots and dots[0] != "w_":
            continue            # the same pattern with w_ and u_ exchanged is in the list
        if s not in seen:
            seen.add(s)
            res.append(s)
    return tuple(res)


# non-commutative two-operand shapes (inside a sum/product matchpy's own multisets identify
# ==-equal constants, which is outside the bridge)
TWO_SLOT = ("Call2", "SubscriptT", "Quotient", "Power", "Cmp<")


def twin_roundtrip_items():
    """Equal-but-differently-typed constants side by side (and across two conversions that share
    the mapper objects)."""
    for s_ in gen.depth2([c for c in BRIDGED if len(c.slots) <= 3], TWIN_LEAVES[:5], FILL):
        yield ("rt", s_)
    two = [c for c in BRIDGED if sum(1 for k in c.slots if k in "eb") == 2]
    for s_ in gen.depth2(two, TWIN_LEAVES[5:], FILL):
        yield ("rt", s_)
    twin_fill = dict(FILL)
    twin_fill["e"] = twin_fill["b"] = [C(1), C(1.0), C(True), C(2), C(2.0)]
    for _, s_ in gen.nest2(BRIDGED, BRIDGED, twin_fill, 0, 0):
        yield ("rt", s_)
    f, arr = FILL["f"][0], FILL["a"][0]
    for c1, c2 in TWIN_PAIRS:
        for u, v in ((c1, c2), (c2, c1)):
            for shape in (lambda c: ("Call", f, T(c)), lambda c: ("Power", X, c),
                          lambda c: ("Subscript", arr, c), lambda c: ("Quotient", c, X),
                          lambda c: ("Sum", T(X, c))):
                yield ("rtseq", shape(u), shape(v))


def twin_match_items():
    for c in gen.ctors(names=TWO_SLOT):
        for c1, c2 in TWIN_PAIRS:
            for u, v in ((c1, c2), (c2, c1)):
                lv = iter((u, v))
                subj = c(*[next(lv) if k in "eb" else FILL[k][0] for k in c.slots])
                lw = iter((W, U))
                pat = c(*[next(lw) if k in "eb" else FILL[k][0] for k in c.slots])
                yield ("mt", subj, pat)


def twin_replace_items():
    f = FILL["f"][0]
    for c1, c2 in TWIN_PAIRS:
        for u, v in ((c1, c2), (c2, c1)):
            yield ("replseq", ("Call", f, T(W)), ("Power", X, ("Call", f, T(u))),
                   ("Power", X, ("Call", f, T(v))))
            yield ("replseq", ("Quotient", W, X), ("Power", Y, ("Quotient", u, X)),
                   ("Power", Y, ("Quotient", v, X)))
            yield ("replseq", ("Call", f, T(W, U)), ("Power", X, ("Call", f, T(u, v))),
                   ("Power", X, ("Call", f, T(v, u))))


@lru_cache(maxsize=None)
def subjects_depth2():
    by = {}
    f, arr = FILL["f"][0], FILL["a"][0]
    for c in MCTORS:
        for s in gen.depth2([c], SUBJECT_LEAVES, FILL):
            by.setdefault(c.tag, []).append(s)
    for ls in itertools.product((X, Y), repeat=4):
        for tag in AC_TAGS:
            by[tag].append(mk(tag, ls))
    for ls in itertools.product((X, Y), repeat=3):
        by["Call"].append(("Call", f, T(*ls)))
        by["Subscript"].append(("Subscript", arr, T(*ls)))
    by["Call"].append(("Call", f, T()))
    for l1 in SUBJECT_LEAVES:
        by["Subscript"].append(("Subscript", arr, T(l1)))
    for tag in AC_TAGS:
        by[tag].append(mk(tag, [X, mk(tag, [Y, C(2)])]))
        by[tag].append(mk(tag, [mk(tag, [X, Y]), X]))
    return by


@lru_cache(maxsize=None)
def subjects_nest():
    """(parent tag, child tag, subject) for every (parent, position, child) of the match shapes."""
    out = []
    for pc in MCTORS:
        for pos in range(len(pc.slots)):
            if pc.slots[pos] != "e":
                continue
            for cc in MCTORS:
                cl = iter((X, Y, C(2)))
                child = cc(*[next(cl) if k in ("e", "b") else FILL[k][0] for k in cc.slots])
                ol = iter((X, C(2)))
                others = [None if i == pos else (next(ol) if k in ("e", "b") else FILL[k][0])
                          for i, k in enumerate(pc.slots)]
                others[pos] = child
                out.append((pc.tag, cc.tag, pc(*others)))
    return tuple(out)


def leaf_positions(s):
    return [(path, c) for path, c in positions(s)
            if c[0] in ("int", "Variable") and c not in (FILL["f"][0], FILL["a"][0])]


def derived_patterns(subject):
    """Patterns made from a subject by putting wildcards at one or two leaf positions."""
    lp = leaf_positions(subject)
    out = [subject]
    for path, _ in lp:
        out.append(put_at(subject, path, W))
    for (p1, _), (p2, _) in itertools.combinations(lp, 2):
        out.append(put_at(put_at(subject, p1, W), p2, U))
        out.append(put_at(put_at(subject, p1, W), p2, W))
    return out


def swap_xy(s):
    return rename_vars(s, {"x": "y", "y": "x"})

# }}}


def inst_items(patterns, pool_name, full_sets):
    """One item per (pattern, candidate set, value of the first candidate)."""
    pool = VALUE_POOL if pool_name == "full" else VALUE_POOL_SMALL
    for P in patterns:
        for K in candidate_sets(P, full=full_sets):
            pools = value_pools(P, K, pool)
            if len(K) >= 2:
                for i in range(len(pools[0])):
                    yield ("inst", P, K, pool_name, i)
            else:
                yield ("inst", P, K, pool_name, None)


class C16(Check):
    pid = "C16"
    level = "exploration"
    rule = ("unifier: every (pattern, candidate set, target) where patterns = all depth<=2 trees over "
            "Sum/Product (2-3 operands), Quotient, Power, Call, Subscript, Comparison (<, ==), If with "
            "leaves a b c 1 2 (one representative per variable renaming), every (parent, position, "
            "child) nesting of these in two leaf schemes (one repeats a variable across the levels), "
            "and sums/products of two compound operands sharing variables (for the renamings, into a b c x, also of "
            "three compound operands over a b) (thorough: also all "
            "depth-3 trees over Sum2 Product2 Power Call1 Subscript with leaves a b 1); candidate "
            "sets = every subset of the pattern's variables (nestings: every subset of a b c, and all "
            "variables); targets = (i) every instance under every assignment of the candidates to "
            "the value pool {x, y, z, x+y, x*y, 2, f(x)} (quick: {x, y, x+y, 2} for nestings), each as "
            "is, with operands reversed, flattened, flattened+reversed, rotated and regrouped "
            "(thorough: all root permutations up to 4 operands, 3 for the deeper patterns), (ii) every exact injective renaming "
            "of the candidates into a b c x y z (quick, nestings: a b c x y and candidate subsets "
            "of a b c only), (ii') the rhs_mapping_candidates option: every depth<=2 pattern against "
            "every same-root depth-2 tree over a x 1 with every subset of the target's variable "
            "names as right-hand candidate set, and every exact renaming into a b c x of the "
            "depth<=2 and sibling patterns with all target names resp. all but one image allowed, "
            "(ii'') depth-2 patterns with one numpy scalar constant (int64 float64 float32 "
            "complex128 bool_) against their renamings and instances, (iii) every independently generated depth<=2 tree "
            "with the same root (leaves a x y 0 1 2, nested / 4-ary sums and products, 1-tuple "
            "indices, other function / aggregate symbols), one representative of every other root, "
            "and for nestings every other nesting with the same root. bridge: to/from round trip on "
            "all depth-2 trees (leaves x y 2 -1 2.5 True 1j) and all (parent, position, child) "
            "nestings of the 19 bridged node types (thorough: three-level chains over 13 shapes); "
            "ditto with the ==-equal constants 1 1.0 True 2 2.0 0.0 -0.0 as leaves and across two "
            "conversions by one mapper pair; "
            "match / match_anywhere / replace_all for every depth-2 pattern over {x, 2, w_, u_} (one "
            "per exchange of w_ and u_) and its star-wildcard forms against every same-root subject "
            "resp. every nesting containing that root, for patterns derived from each nesting by "
            "wildcarding one or two leaves, for all-wildcard patterns against non-commutative "
            "subjects holding two ==-equal constants, and for one rule object applied to two such "
            "subjects in a row; "
            "one unifier instance answering every sequence of 2 (thorough 3) of 18 queries "
            "(three sum/product kernels over the candidates {a} and {a, b} against their renamings, "
            "alone and as one call argument next to a second occurrence of a candidate that is bound "
            "to the same / to another name), the record set after every step compared with a fresh "
            "instance's. "
            "Non-trivial = the unifier / bridge returned at least one record / match / rewrite (all "
            "of which are checked); distinct = distinct (pattern, target, candidates) or (subject, "
            "pattern), counted per hash seed.")
    assumptions = [
        "constants are Python ints (the unifier and matchpy compare constants with ==, so 1, 1.0 "
        "and True are interchangeable for them; mixed numeric types are only used in the bridge "
        "round trip, where types are compared strictly)",
        "sums and products with fewer than two operands are not generated",
        "the completeness clause is applied to targets that are structurally the pattern under an "
        "injective renaming that moves only declared candidates (non-candidate names are symbols)",
        "a record's bindings are read from .equations; .lmap must say the same",
        "with rhs_mapping_candidates=R the completeness clause is applied only when every candidate "
        "is renamed to a name in R (a candidate facing a target variable outside R can neither be "
        "bound nor matched literally); soundness is demanded for every R",
        "numpy scalar constants occur only in patterns whose targets are built from the pattern "
        "(so the same numpy objects' specs appear on both sides) and never next to an ==-equal "
        "Python constant",
        "candidate sets are passed as frozensets of names",
        "a dot wildcard inside a sum/product may stand for a sum/product of several operands "
        "(matchpy's associative matching); the bridge's instantiation law is checked modulo AC of "
        "sums and products and with every subscript index written as a tuple",
        "replace_all: the result must be reachable from the subject by replacing, for each "
        "callback invocation in order, one occurrence of the instantiated pattern by the "
        "instantiated right-hand side R(wildcards...); reaching a fixed point is not demanded; a "
        "bare wildcard pattern and rules whose right-hand side contains their left-hand side "
        "(Sum(w_, s_...) with w_ bound to the whole sum) are not run (they rewrite for ever)",
        "bridge results are compared with strict constant types and signs (1 / 1.0 / True, 0.0 / "
        "-0.0 are different); such ==-equal constants are put side by side in round-trip subjects "
        "everywhere, but in match / replace subjects only in non-commutative positions, because "
        "inside a sum/product matchpy's own multisets identify ==-equal operands "
        "(match(Sum((1, 1.0)), Sum((w_, u_))) binds both to 1 -- equal for ==, as the statement asks)",
        "only the PYTHONHASHSEED values listed in hash_seeds (set iteration order in the unifier)",
    ]
    hash_seeds = {"quick": [0, 1, 2], "thorough": [0, 1, 2, 3, 4, 5, 6, 7]}
    if os.environ.get("VF_C16_HASH_SEEDS"):      # development aid only (mutation campaigns)
        hash_seeds = {t: [int(x) for x in os.environ["VF_C16_HASH_SEEDS"].split(",")]
                      for t in hash_seeds}
    chunk = 16

    # {{{ families

    def families(self, tier):
        fams = [
            ("u-inst2", lambda: inst_items(patterns_depth2(), "full", True)),
            ("u-inst3", lambda: inst_items(patterns_nest(),
                                           "small" if tier == "quick" else "full", False)),
            ("u-inst-siblings", lambda: inst_items(patterns_siblings(), "small", "few")),
            ("u-rename", lambda: (("ren", P, K) for P in patterns_depth2() + patterns_siblings()
                                  for K in candidate_sets(P))),
            ("u-rename-nest", lambda: (("ren", P, K, RENAME_TO_QUICK if tier == "quick" else None)
                                       for P in patterns_nest()
                                       for K in candidate_sets(P, full=(tier == "thorough")))),
            ("u-indep", lambda: (("indep", P, K) for P in patterns_depth2()
                                 for K in candidate_sets(P))),
            ("u-rename-siblings3", lambda: (("ren", P, K, RENAME_TO_RHS) for P in patterns_siblings3()
                                            for K in candidate_sets(P, full="few"))),
            ("u-rhs", lambda: (("rhs", P, K) for P in patterns_depth2()
                               for K in candidate_sets(P))),
            ("u-rhs-rename", lambda: (("renrhs", P, K) for P in patterns_depth2()
                                      + patterns_siblings() for K in candidate_sets(P, full=False))),
            ("u-numpy-const", lambda: (("np", P, K) for P in patterns_numpy()
                                       for K in candidate_sets(P, full=False))),
            ("u-cross", lambda: (("cross", P, K) for P in patterns_nest()
                                 for K in candidate_sets(P, full="few" if tier == "thorough"
                                                         else "all-core"))),
            ("u-history", lambda: (("hist", K, i, 2 if tier == "quick" else 3)
                                   for K in (("a",), ("a", "b"))
                                   for i in range(len(history_queries())))),
            ("b-roundtrip2", lambda: (("rt", s) for s in gen.depth2(BRIDGED, RT_LEAVES))),
            ("b-roundtrip-nest", lambda: (("rt", s) for _, s in gen.nest2(BRIDGED, BRIDGED))),
            ("b-roundtrip-twins", twin_roundtrip_items),
            ("b-match-twins", twin_match_items),
            ("b-replace-twins", twin_replace_items),
            ("b-match2", lambda: (("m2", p) for p in wildcard_patterns())),
            ("b-match-nest", lambda: (("m3", s) for _, _, s in subjects_nest())),
            ("b-anywhere-replace", lambda: (("ar", p) for p in wildcard_patterns())),
        ]
        if tier == "thorough":
            fams.append(("u-inst-deep", lambda: inst_items(patterns_deep(), "small", False)))
            fams.append(("u-rename-deep", lambda: (("ren", P, K) for P in patterns_deep()
                                                   for K in candidate_sets(P))))
            r3 = gen.ctors(names=RT_NEST3)
            fams.append(("b-roundtrip-nest3", lambda: (("rt", s) for _, s in
                                                       gen.nest3(r3, r3, r3))))
        return fams

    # }}}

    def check_item(self, family, item, tier):
        r = Res()
        what = item[0]
        state = {}
        if what == "triple":
            do_triple(r, item[1], item[2], tuple(item[3]), state,
                      tuple(item[4]) if len(item) > 4 else None)
        elif what == "inst":
            _, P, K, pool, first = item
            K = tuple(K)
            pool = VALUE_POOL if pool == "full" else VALUE_POOL_SMALL
            seen = set()
            for t in instances(P, K, pool, tier, first):
                if t in seen:
                    continue
                seen.add(t)
                do_triple(r, P, t, K, state)
        elif what == "ren":
            P, K = item[1], tuple(item[2])
            for t in renamings(P, K, item[3] if len(item) > 3 else None):
                n = do_triple(r, P, t, K, state)
                r.count("renamings", 1)
                if n:
                    r.count("renamings_matched", 1)
        elif what == "indep":
            P, K = item[1], tuple(item[2])
            by = indep_targets()
            tag = P[0] if P[0] in by else "leaf"
            for t in by[tag]:
                do_triple(r, P, t, K, state)
            if len(K) == len(var_names(P)):
                for t in cross_root_representatives():
                    if t[0] != P[0]:
                        do_triple(r, P, t, K, state)
        elif what == "rhs":
            # the rhs_mapping_candidates option: every subset of the target's variable names
            P, K = item[1], tuple(item[2])
            by = rhs_targets()
            for t in by[P[0] if P[0] in by else "leaf"]:
                for R in subsets(var_names(t)):
                    do_triple(r, P, t, K, state, R)
        elif what == "renrhs":
            # exact renamings with the target names that may be assigned restricted: all of them,
            # and all but one
            P, K = item[1], tuple(item[2])
            for t in renamings(P, K, RENAME_TO_RHS):
                names = var_names(t)
                m_ = renaming_of(P, t) or {}
                images = [n for n in names if n in {m_.get(k) for k in K}]
                # (dropping a name no candidate is renamed to cannot change anything)
                for R in [tuple(names)] + [tuple(x for x in names if x != n) for n in images]:
                    n_ = do_triple(r, P, t, K, state, R)
                    if completeness_applies_rhs(P, t, K, R):
                        r.count("renamings", 1)
                        if n_:
                            r.count("renamings_matched", 1)
        elif what == "np":
            P, K = item[1], tuple(item[2])
            seen = set()
            for t in itertools.chain(renamings(P, K, RENAME_TO_RHS),
                                     instances(P, K, VALUE_POOL_SMALL, tier)):
                if t not in seen:
                    seen.add(t)
                    do_triple(r, P, t, K, state)
        elif what == "cross":
            P, K = item[1], tuple(item[2])
            for t in cross_targets()[P[0]]:
                do_triple(r, P, t, K, state)
        elif what == "hist":
            _, K, first, depth = item
            n = len(history_queries())
            for rest in itertools.product(range(n), repeat=depth - 1):
                do_history(r, tuple(K), (first, *rest))
        elif what == "histq":
            do_history(r, tuple(item[1]), tuple(item[2]))
        elif what == "rt":
            self.roundtrip(r, item[1])
        elif what == "m2":
            p = item[1]
            by = subjects_depth2()
            for tag in sorted(by):
                if p[0] == "DotWildcard" or tag == p[0]:
                    for s in by[tag]:
                        check_match(r, s, p)
                else:
                    check_match(r, by[tag][0], p)
        elif what == "m3":
            s = item[1]
            subs = [s]
            for v in (ac_reverse(s), swap_xy(s)):
                if v not in subs:
                    subs.append(v)
            for p in derived_patterns(s):
                for sub in subs:
                    check_match(r, sub, p)
        elif what == "ar":
            p = item[1]
            for ptag, ctag, s in subjects_nest():
                if p[0] == "DotWildcard" or p[0] in (ptag, ctag):
                    check_anywhere(r, s, p)
                    if p[0] != "DotWildcard":     # a bare wildcard rewrites its own result for ever
                        check_replace(r, s, p)
        elif what == "rtseq":
            roundtrip_shared(r, tuple(item[1:]))
        elif what == "mt":
            _, subj, pat = item
            check_match(r, subj, pat)
            wrapped = ("If", Y, subj, X)
            check_anywhere(r, wrapped, pat)
            check_replace(r, wrapped, pat)
        elif what == "replseq":
            check_replace_seq(r, tuple(item[2:]), item[1])
        elif what == "pair":
            _, api, s, p = item
            {"match": check_match, "anywhere": check_anywhere, "replace": check_replace}[api](
                r, s, p)
        else:
            raise ValueError(item)
        return r

    def roundtrip(self, r, spec):
        r.evals += 1
        k, text = roundtrip_kind(spec)
        if any(c[0] in ("Sum", "Product", "LogicalOr", "LogicalAnd", "BitwiseOr", "BitwiseAnd",
                        "BitwiseXor", "Subscript") for c in subterms(spec)):
            r.keys.append(("rt", spec))
        if k:
            locs = localise(spec, lambda s: roundtrip_kind(s)[0])
            if not locs:
                locs = [(k, f"{k}|{show(spec)}", spec)]
            for kk, sig, m_ in locs:
                r.fail(kk, sig, f"in {show(spec)}: minimal failing tree {show(m_)}: "
                       f"{roundtrip_kind(m_)[1]}", witness=("rt", m_))


def ac_reverse(s):
    return map_ac(s, lambda tag, ch: ch[::-1])


CHECK = C16()

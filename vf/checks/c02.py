"""C02 -- evaluation gives every node type its standard meaning.

Engine A: depth-2 trees, every (parent, position, child) nesting and (thorough) three-level chains
over every node type the evaluator handles, x the full environment box over the free variables, x
the four entry points; oracle = vf.refsem (independent of pymbolic's mappers).
"""
from __future__ import annotations

import itertools
from fractions import Fraction

from vf import gen, refsem
from vf.envs import FULL_DOMAIN, MATS, QUICK_DOMAIN, SPECIAL_NAMES, Counter, base_env
from vf.localise import localise
from vf.run import Check, Res
from vf.spec import C, S, T, V, build, show, to_spec, variables_of, walk

NOT_EVALUABLE = ("Substitution", "Derivative", "Slice", "Wildcard", "DotWildcard", "StarWildcard",
                 "FunctionSymbol")
EVAL_CTORS = gen.ctors(exclude_tags=NOT_EVALUABLE)
COMPOSITE_LEAFLESS = ("NaN",)

REDUCED = gen.ctors(names=("Call1", "CallKw11", "Subscript", "Lookup", "Sum2", "Product3",
                           "Quotient", "FloorDiv", "Power", "LeftShift", "BitwiseNot",
                           "BitwiseXor2", "Cmp<", "Cmp!=", "LogicalNot", "LogicalOr2", "If",
                           "Min2", "Max3", "CSE", "CSEp", "tuple2", "list2", "array1"))

VARIANTS = ("plain", "cached", "evaluate", "evaluate_kw")


def _loose(s):
    """Spec with constants collapsed the way Python's == sees them."""
    if s[0] in ("int", "float", "bool", "complex"):
        return ("num", complex(s[1]))
    if isinstance(s, tuple):
        return tuple(_loose(c) if isinstance(c, tuple) else c for c in s)
    return s


def has_lib_equal_twins(s) -> bool:
    """Two distinct composite subtrees that are == for the library but differ in constant types."""
    seen = {}
    for c in walk(s):
        if not c[0][0].isupper() and c[0] not in ("tuple", "list"):
            continue
        k = _loose(c)
        if k in seen and seen[k] != c:
            return True
        seen.setdefault(k, c)
    return False


def unhashable_below_node(s) -> bool:
    """A list/array somewhere beneath an Expression node: such a node is unhashable, i.e. not a
    well-formed (immutable) expression; lists/arrays are only used at top level or in containers."""
    def rec(c, below):
        if c[0] in ("list", "array") and below:
            return True
        nb = below or c[0][0].isupper()
        return any(rec(x, nb) for x in c[1:] if isinstance(x, tuple) and x and isinstance(x[0], str))
    return rec(s, False)


def run_variant(variant, expr, env):
    from pymbolic.mapper.evaluator import (
        CachedEvaluationMapper, EvaluationMapper, evaluate, evaluate_kw)
    if variant == "plain":
        return EvaluationMapper(env)(expr)
    if variant == "cached":
        return CachedEvaluationMapper(env)(expr)
    if variant == "evaluate":
        return evaluate(expr, env)
    return evaluate_kw(expr, **env)


# {{{ memory layouts of object arrays

ARRAY_LAYOUTS = ("c", "transposed", "fortran", "every-second-row", "reversed-columns",
                 "3d-transposed", "broadcast-view", "1d-reversed", "sequence-valued-entries",
                 "array-valued-entries")


def layout_failure(kind, variant):
    """An object array is evaluated element by element into an array of the same shape, whatever
    its strides are (views: transposed, Fortran order, stepped, reversed, broadcast)."""
    import numpy as np
    import pymbolic.primitives as p
    x, y = p.Variable("x"), p.Variable("y")
    elems = [x, y, p.Sum((x, y)), 2, p.Product((x, y)), p.Sum((y, p.Product((-1, x)))),
             p.Power(x, 2), p.Quotient(y, 2)]
    base = np.empty((2, 4), dtype=object)
    for k, e in enumerate(elems):
        base[k // 4, k % 4] = e
    def seq_entries():
        a = np.empty((2,), dtype=object)
        a[0] = (x, y)
        a[1] = (p.Sum((x, 1)), p.Product((2, y)))
        return a

    def arr_entries():
        a = np.empty((2, 2), dtype=object)
        inner = np.empty((2,), dtype=object)
        inner[0], inner[1] = x, p.Sum((x, y))
        a[0, 0], a[0, 1], a[1, 0], a[1, 1] = inner, y, [x, y], 3
        return a
    arr = {
        "sequence-valued-entries": seq_entries,
        "array-valued-entries": arr_entries,
        "c": lambda: base,
        "transposed": lambda: base.T,
        "fortran": lambda: np.asfortranarray(base),
        "every-second-row": lambda: np.concatenate([base, base, base])[::2],
        "reversed-columns": lambda: base[:, ::-1],
        "3d-transposed": lambda: base.reshape(2, 2, 2).transpose(2, 0, 1),
        "broadcast-view": lambda: np.broadcast_to(base[0], (3, 4)),
        "1d-reversed": lambda: base[1][::-1],
    }[kind]()
    env = dict(base_env())
    env.update(x=Fraction(3, 2), y=-2)
    try:
        got = run_variant(variant, arr, dict(env))
    except RecursionError:
        raise
    except Exception as e:  # noqa: BLE001
        return ("array-layout", f"{kind} view of shape {arr.shape}: raised {e!r}")
    if not isinstance(got, np.ndarray) or got.shape != arr.shape:
        return ("array-layout", f"{kind} view of shape {arr.shape}: result is "
                f"{type(got).__name__} of shape {getattr(got, 'shape', None)}")
    def same(a, b):
        if isinstance(a, np.ndarray) or isinstance(b, np.ndarray):
            return isinstance(a, np.ndarray) and isinstance(b, np.ndarray) and \
                a.shape == b.shape and all(same(a[i], b[i]) for i in np.ndindex(a.shape))
        if isinstance(a, (tuple, list)) or isinstance(b, (tuple, list)):
            return type(a) is type(b) and len(a) == len(b) and all(map(same, a, b))
        return a is not None and a == b
    for idx in np.ndindex(arr.shape):
        want = refsem.evaluate(to_spec(arr[idx]), dict(env))
        if not same(got[idx], want):
            return ("array-layout", f"{kind} view of shape {arr.shape}: element {idx} is "
                    f"{got[idx]!r}, expected {want!r}")
    return None

# }}}


# {{{ a number class registered at run time

def regconst_failure(phase, variant, spec):
    """Fraction constants in the tree.  While Fraction is registered (after the mapper modules were
    imported) every entry point gives the value; before the registration, and after the class has
    been unregistered again, the constant is refused."""
    from vf.regconst import constant_class_history
    env = dict(base_env())
    env.update(x=Fraction(9, 4), y=-2)
    with constant_class_history(phase) as is_const:
        expr = build(spec)
        got = norm_impl_outcome(refsem.outcome(run_variant, variant, expr, dict(env)))
    if is_const:
        ref = refsem.outcome(refsem.evaluate, spec, dict(env))
        if not refsem.outcomes_equal(ref, got):
            return ("registered-constant", f"Fraction is registered: expected "
                    f"{refsem.show_outcome(ref)} got {refsem.show_outcome(got)}")
    elif got[0] == "ok":
        return ("unregistered-constant-accepted", f"Fraction is not registered ({phase}) but the "
                f"tree was evaluated to {refsem.show_outcome(got)}")
    return None

# }}}


# {{{ kinds of environment objects

class _GetItemOnly:
    """the least a context has to be: something with __getitem__"""
    def __init__(self, d):
        self.d = d

    def __getitem__(self, k):
        return self.d[k]


def _mk_env(kind, bindings):
    """-> (context object, function that binds a name in it afterwards)"""
    import collections
    import types
    if kind == "dict":
        d = dict(bindings)
        return d, d.__setitem__
    if kind == "defaultdict-7":
        d = collections.defaultdict(lambda: 7, bindings)
        return d, d.__setitem__
    if kind == "chainmap":
        inner = dict(bindings)
        return collections.ChainMap({}, inner), inner.__setitem__
    if kind == "mappingproxy":
        inner = dict(bindings)
        return types.MappingProxyType(inner), inner.__setitem__
    if kind == "userdict":
        d = collections.UserDict(bindings)
        return d, d.__setitem__
    if kind == "getitem-only":
        inner = dict(bindings)
        return _GetItemOnly(inner), inner.__setitem__
    raise ValueError(kind)


ENV_KINDS = ("dict", "defaultdict-7", "chainmap", "mappingproxy", "userdict", "getitem-only")


def envkind_failure(kind, when, variant, spec):
    """The environment is the caller's mapping object: look-ups go to it when the expression is
    evaluated.  when = before: all names bound before the mapper is made; after: the mapping is
    EMPTY when the mapper is made and filled before the call; between: x bound before, the rest
    after, and x rebound to another value before a second call."""
    from pymbolic.mapper.evaluator import CachedEvaluationMapper, EvaluationMapper, evaluate
    full = dict(base_env())
    full.update(x=3, y=-2)
    first = {} if when == "after" else ({"x": 3} if when == "between" else dict(full))
    ctx, bind = _mk_env(kind, first)
    expr = build(spec)
    mk = {"plain": EvaluationMapper, "cached": CachedEvaluationMapper}.get(variant)
    mapper = mk(ctx) if mk else None
    for k, v in full.items():
        if k not in first:
            bind(k, v)
    runs = [dict(full)]
    if when == "between":
        runs.append(dict(full, x=5))
    for n, now in enumerate(runs):
        if n:
            bind("x", 5)
            if mk:
                mapper = mk(ctx)        # an evaluator instance keeps CSE (and memo) values: it is
                                        # bound to one state of the context
        renv = dict(now)
        if kind == "defaultdict-7":
            renv = __import__("collections").defaultdict(lambda: 7, now)
        ref = refsem.outcome(refsem.evaluate, spec, renv)
        if mapper is not None:
            got = norm_impl_outcome(refsem.outcome(mapper, expr))
        else:
            got = norm_impl_outcome(refsem.outcome(evaluate, expr, ctx))
        if ref[0] == "err" and ref[1] == "UnknownVariable":
            same = got[0] == "err" and got[1] == "UnknownVariable"
        else:
            same = refsem.outcomes_equal(ref, got)
        if not same:
            return ("environment", f"context kind {kind}, bound {when} the mapper was made, "
                    f"call {n + 1}: expected {refsem.show_outcome(ref)} got "
                    f"{refsem.show_outcome(got)}")
    return None

# }}}


def norm_impl_outcome(o):
    if o[0] == "err" and o[1] == "UnknownVariableError":
        return ("err", "UnknownVariable", o[2])
    return o


def compare(spec, expr, env_vals, variants, check_calls, removed=None):
    """-> (kind or None, detail, n_evals, any_ok)"""
    n = 0
    cref = Counter()
    env = base_env(cref)
    env.update(env_vals)
    env.pop(removed, None)
    ref = refsem.outcome(refsem.evaluate, spec, env)
    if refsem.is_skip(ref):
        return None, "", 0, False
    for variant in variants:
        cimp = Counter()
        env2 = base_env(cimp)
        env2.update(env_vals)
        env2.pop(removed, None)
        got = norm_impl_outcome(refsem.outcome(run_variant, variant, expr, env2))
        n += 1
        if ref[0] == "err" and ref[1] == "UnknownVariable":
            same = got[0] == "err" and got[1] == "UnknownVariable" and got[2] == ref[2]
        else:
            same = refsem.outcomes_equal(ref, got)
        if not same:
            what = f"{ref[0]}-vs-{got[0]}" if ref[0] != got[0] else (
                "value" if ref[0] == "ok" else "errclass")
            if got[0] == "err" and got[1] == "TypeError" and "unhashable type" in got[2]:
                what = "unhashable"
            return (f"{variant}:{what}",
                    f"env={env_vals!r} expected {refsem.show_outcome(ref)} "
                    f"got {refsem.show_outcome(got)}", n, ref[0] == "ok")
        if check_calls and variant == "plain" and ref[0] == "ok" \
                and not refsem.values_equal(cimp.calls, cref.calls):
            return (f"{variant}:calls",
                    f"env={env_vals!r} expected calls {cref.calls!r} got {cimp.calls!r}",
                    n, True)
    return None, "", n, ref[0] == "ok"


class C02(Check):
    pid = "C02"
    level = "exploration"
    rule = ("bounded-exhaustive: every evaluable constructor shape with every leaf combination "
            "(depth2), every (parent, position, child) nesting (nest2), three-level chains over a "
            "reduced alphabet (nest3, thorough), each x the full value box over its free variables x "
            "4 evaluator entry points; plus one-variable-removed environments, short-circuit "
            "probes with a raising callee, and non-commutative (2x2 matrix) operands for n-ary "
            "sums/products, and sibling subtrees that differ only in hash-colliding constants (-1 / -2, "
            "0 / 2**61-1); 6 kinds of context objects (dict, defaultdict, ChainMap, mapping proxy, "
            "UserDict, __getitem__-only) bound before / after / around the construction of the "
            "evaluator x 3 entry points x 7 trees; 7 trees with Fraction constants x 4 entry points "
            "before / while / after Fraction is a registered constant class (registered at run time, "
            "after the mapper modules were imported); object arrays in 8 memory layouts (transposed, "
            "Fortran order, stepped, reversed, broadcast views) through the plain evaluator. A case is non-trivial when the reference semantics yields a value "
            "(not an error) in at least one environment; distinct = distinct trees.")
    assumptions = [
        "reference semantics vf/refsem.py is the intended denotation (one plain Python operator "
        "per node; logical nodes are truth-valued and short-circuit)",
        "cached variants are not asserted on trees containing two composite subtrees that are == "
        "but differ in constant types (the memo key is the library's ==)",
    ]
    chunk = 40

    def domain(self, tier):
        return QUICK_DOMAIN if tier == "quick" else FULL_DOMAIN

    def families(self, tier):
        leaves_q = [V("x"), V("y"), C(2), C(0)]
        leaves_t = [V("x"), V("y"), C(2), C(0), C(-1), C(2.5), C(True), C(1.0), C(1)]
        leaves = leaves_q if tier == "quick" else leaves_t
        fams = [
            ("depth2", lambda: (("d2", s) for s in gen.depth2(EVAL_CTORS, leaves))),
            ("nest2", lambda: (("n2", s) for _, s in gen.nest2(EVAL_CTORS, EVAL_CTORS))),
            ("missing", self.gen_missing),
            ("shortcircuit", self.gen_shortcircuit),
            ("error-order", self.gen_errororder),
            ("noncomm", self.gen_noncomm),
            ("typed-consts", self.gen_typed_consts),
            ("hash-twins", lambda: (("d2", s) for s in gen.twin_trees())),
            ("environment-kinds", self.gen_envkinds),
            ("registered-constant-class", self.gen_regconst),
            ("array-layouts", lambda: (("layout", k, v) for k in ARRAY_LAYOUTS
                                       for v in ("plain",))),     # the memoizing entry points
                                                                   # refuse arrays (recorded)
        ]
        if tier == "thorough":
            fams.append(("nest3", lambda: (("n3", s) for _, s in
                                           gen.nest3(REDUCED, REDUCED, REDUCED))))
        return fams

    # -- extra families ---------------------------------------------------------------------
    ENV_TREES = (V("x"), ("Sum", T(V("x"), V("y"))), ("Product", T(C(2), V("y"))),
                 ("Call", V("f"), T(V("x"))), ("Sum", T(V("x"), V("zz"))),
                 ("CommonSubexpression", ("Sum", T(V("x"), V("y"))), ("none",),
                  S("pymbolic_eval")), C(3))

    HALF = ("frac", 1, 2)
    REG_TREES = (("frac", 3, 4), ("Sum", T(("Product", T(("frac", 1, 2), V("x"))), ("frac", 3, 4))),
                 ("Power", V("x"), ("frac", 1, 2)), ("Call", V("f"), T(("frac", 1, 2), V("y"))),
                 ("If", ("Comparison", V("x"), S("<"), ("frac", 1, 2)), ("frac", 1, 2), V("y")),
                 ("CommonSubexpression", ("Quotient", V("x"), ("frac", 3, 4)), ("none",),
                  S("pymbolic_eval")), ("Subscript", V("arr"), ("frac", 1, 2)))

    def gen_regconst(self):
        from vf.regconst import PHASES
        for phase in PHASES:
            for variant in VARIANTS:
                for ti in range(len(self.REG_TREES)):
                    yield ("regconst", phase, variant, ti)

    def gen_envkinds(self):
        for ek in ENV_KINDS:
            for when in ("before", "after", "between"):
                for variant in ("plain", "cached", "evaluate"):
                    for ti in range(len(self.ENV_TREES)):
                        yield ("envkind", ek, when, variant, ti)

    def gen_missing(self):
        for _, s in gen.nest2(EVAL_CTORS, EVAL_CTORS):
            for v in variables_of(s):
                yield ("missing", s, v)

    def gen_shortcircuit(self):
        bm = ("Call", V("boom"), T())
        cnt = ("Call", V("f"), T(V("x")))
        conds = [C(True), C(False), ("Comparison", V("x"), S("<"), V("y")), V("x")]
        for c in conds:
            for other in (V("y"), cnt):
                yield ("sc", ("If", c, other, bm))
                yield ("sc", ("If", c, bm, other))
        for tag in ("LogicalOr", "LogicalAnd"):
            for a in conds:
                yield ("sc", (tag, T(a, bm)))
                yield ("sc", (tag, T(bm, a)))
                yield ("sc", (tag, T(a, cnt, bm)))
                yield ("sc", (tag, T(a, V("y"), bm)))
                yield ("sc", (tag, T(("LogicalNot", a), bm)))

    def gen_errororder(self):
        """two operands that fail differently (division by zero, unknown variable, a raising call):
        the error of the operand Python evaluates FIRST is the one that surfaces"""
        bad = (("Quotient", C(1), C(0)), V("nope"), ("Call", V("boom"), T()),
               ("Remainder", V("x"), C(0)))
        for a, b in itertools.permutations(bad, 2):
            for t in (("Comparison", a, S("<"), b), ("Sum", T(a, b)), ("Product", T(a, b)),
                      ("Quotient", a, b), ("Power", a, b), ("FloorDiv", a, b),
                      ("Call", V("f"), T(a, b)), ("Subscript", a, b), ("tuple", a, b),
                      ("Min", T(a, b)), ("LeftShift", a, b), ("BitwiseOr", T(a, b)),
                      ("CallWithKwargs", V("f"), T(), ("map", ("k", a), ("j", b))),
                      ("If", a, b, C(1)), ("Sum", T(V("x"), a, b))):
                yield ("sc", t)

    def gen_noncomm(self):
        lv = [V("x"), V("y"), V("z"), C(2)]
        cs = gen.ctors(names=("Sum2", "Sum3", "Product2", "Product3", "CSE", "tuple2"))
        for s in gen.depth2(cs, lv):
            yield ("nc", s)
        for _, s in gen.nest2(cs, cs):
            yield ("nc", s)

    def gen_typed_consts(self):
        # == but differently typed constants side by side / nested (plain evaluator on all,
        # cached ones only where no lib-equal twins exist)
        consts = [C(1), C(1.0), C(True), C(4), C(4.0)]
        for a in consts:
            yield ("d2", a)
            for b in consts:
                yield ("d2", ("Sum", T(a, b)))
                yield ("d2", T(a, b))
                yield ("d2", ("Sum", T(("Product", T(V("x"), a)), ("Product", T(V("x"), b)))))
                yield ("d2", T(("Quotient", V("x"), a), ("Quotient", V("x"), b)))

    # -- the check ----------------------------------------------------------------------------
    def check_item(self, family, item, tier):
        r = Res()
        if item[0] == "layout":
            r.evals += 1
            r.keys.append(item)
            f = layout_failure(item[1], item[2])
            if f:
                r.fail(f[0], f"{f[0]}|{item[1]}|{item[2]}", f[1])
            return r
        if item[0] == "regconst":
            r.evals += 1
            r.keys.append(item)
            f = regconst_failure(item[1], item[2], self.REG_TREES[item[3]])
            if f:
                r.fail(f[0], f"{f[0]}|{item[1]}|{item[2]}|{show(self.REG_TREES[item[3]])}", f[1])
            return r
        if item[0] == "envkind":
            r.evals += 1
            r.keys.append(item)
            f = envkind_failure(*item[1:4], self.ENV_TREES[item[4]])
            if f:
                r.fail(f[0], f"{f[0]}|{item[1]}|{item[2]}|{item[3]}|{show(self.ENV_TREES[item[4]])}",
                       f[1])
            return r
        mode, spec = item[0], item[1]
        removed = item[2] if mode == "missing" else None
        if unhashable_below_node(spec):
            r.count("skipped_ill_formed")
            return r
        k, detail = self._fails(spec, tier, r, mode, removed)
        if k:
            locs = localise(spec, lambda s: self._fails(s, tier, None, mode, removed)[0])
            if not locs:
                locs = [(k, f"{k}|{show(spec)}", spec)]
            for kk, sig, m in locs:
                if removed is not None:
                    sig += f"|-{removed}"
                r.fail(kk, sig, f"in {show(spec)}: minimal failing tree {show(m)}; {detail}",
                       witness=(mode, m, removed) if removed else (mode, m))
        return r

    def _fails(self, spec, tier, r, mode, removed=None):
        if unhashable_below_node(spec):
            return None, ""
        try:
            expr = build(spec)
        except Exception:  # noqa: BLE001
            return None, ""
        names = [v for v in variables_of(spec) if v not in SPECIAL_NAMES and v != removed]
        twins = has_lib_equal_twins(spec)
        variants = ("plain",) if twins else VARIANTS
        has_cse = any(c[0] == "CommonSubexpression" for c in walk(spec))
        if mode == "nc":
            envs = [{n: MATS.get(n, 3) for n in names}]
        elif mode == "missing":
            envs = [{n: 2 for n in names}]
        else:
            envs = gen.boxes(names, self.domain(tier))
        any_ok = False
        for env_vals in envs:
            k, detail, n, ok = compare(spec, expr, env_vals, variants, not has_cse, removed)
            if r is not None:
                r.evals += n
            any_ok = any_ok or ok
            if k:
                return k, detail
        if r is not None and (any_ok or mode == "missing"):
            r.keys.append((spec, removed))
        return None, ""


CHECK = C02()

"""C10 -- symbolic differentiation yields the true derivative.

Engine A.  Every expression of a bounded differentiable fragment x every differentiation variable
(present / absent, given as name, Variable, Subscript) x the three ``allowed_nonsmoothness``
settings (+ the mapper's ``None`` default) is differentiated by the real code; the returned
expression is evaluated by a reference evaluator (vf.c10_field.DRef, a vf.refsem.Ref over exact
rational functions in formal transcendental atoms) at every point of an exact grid and must be
IDENTICAL (RatFun ==) to the dual part of an independent forward-mode evaluation of the input
(vf.c10_field.DualEval, textbook rules).  Refusal clause: fabs / sign / If / unknown functions must
raise under the settings that do not allow them.  CSE: shared wrappers, and histories of calls on
re-used mapper instances (the cache must not leak between variables / instances).
"""
from __future__ import annotations

import itertools
import math
import re
from fractions import Fraction

from vf import refsem
from vf.c10_field import (
    UNDEF, DRef, DualEval, Field, FloatSkip, NotInFragment, Skip, call_class, float_dual,
    math_call, user_call,
)
from vf.localise import localise
from vf.refsem import UnknownVariable
from vf.run import Check, Res
from vf.spec import (
    CSE, C, Call, Cmp, If, Look, Pow, Prod, Quot, Sub, Sum, V, build, canon_vars, show,
    to_spec, walk,
)

# {{{ bounds (every bound is a named constant)

F = Fraction
X, Y, Z, A0, A1 = V("x"), V("y"), V("z"), Sub(V("a"), C(0)), Sub(V("a"), C(1))

LEAVES_FULL = (X, Y, A0, C(2), C(-1), C(3))          # depth-2 family, thorough nestings
LEAVES_REDUCED = (X, Y, C(2), C(-1))                 # children of the quick three-level family
LEAVES_PAIRS = (X, Y, C(2))                          # both-children-composite family (thorough)
SIBLINGS = (X, Y, C(2))                              # the other slot(s) of a three-level parent
ARITY_ARGS = (X, Y, C(2))                            # argument pool of the "arity" family
SIBLINGS3 = ((X, Y), (Y, C(3)))                      # the two other slots of a 3-ary parent

SMOOTH_FUNCS = ("sin", "cos", "tan", "log", "exp", "sinh", "cosh", "tanh", "expm1")
DOMAIN = {"quick": (F(1, 2), F(2), F(-2, 3)),
          "thorough": (F(1, 2), F(3, 2), F(2), F(-2, 3))}
INT_GRID = {"x": (F(1, 2), F(2), F(-2, 3), F(3)), "y": (F(1), F(2), F(3), F(-1), F(-2))}
MAX_POINTS = 64                                      # per expression (<= 3 variables: never cut)
SETTINGS = ("none", "continuous", "discontinuous")
LEVEL = {"none": 0, "continuous": 1, "discontinuous": 2}
HISTORY_LEN = {"quick": 2, "thorough": 3}
DEEP_MAX = 6                                         # "cse-deep": nesting depth of the towers
TAIL_X = (20.0, -20.0, 400.0, -400.0, 800.0, -800.0)  # "tails": float points far from the origin
TAIL_Y = (1.0, -0.5)
TAIL_RTOL, TAIL_ATOL = 1e-9, 1e-12
# "fpow": powers of powers with non-integer constant exponents, judged in floats on both sides of 0
FPOW_X = (3.0, 0.75, -0.75, -3.0)
FPOW_Y = (2.0, -0.5)
FPOW_INNER = (2, 3, -2, 4, 0.5)
FPOW_OUTER = (0.5, 1.5, -0.5, 2.5, 2, -1)
# "names": variable names beyond plain ASCII identifiers.  Not NFKC-stable: micro sign, ligature fi,
# fullwidth x, superscript two, Kelvin sign, long s; NFKC-stable non-ASCII: Greek mu, composed and
# decomposed e-acute, a CJK character; odd but legal ASCII: underscore, digit suffix, a Python
# keyword, a name with a dot and one with a space.  CONFUSABLE pairs are two DIFFERENT symbols that
# some normalisation would identify.
NAMES = ("x", "_", "x_1", "lambda", "a.b", "a b", "\u00b5", "\ufb01", "\uff58", "x\u00b2",
         "\u212a", "\u017ft", "\u03bc", "\u00e9", "e\u0301", "\u53d8")
CONFUSABLE = (("\u00b5", "\u03bc"), ("\ufb01", "fi"), ("\uff58", "x"), ("x\u00b2", "x2"),
              ("\u212a", "K"), ("\u00e9", "e\u0301"), ("\u017ft", "st"), ("X", "x"))
MAX_ARITY = 3                                        # "arity" family: table names x 0..3 arguments
# constants whose CPython hashes collide (hash(-1) == hash(-2), hash(0) == hash(2**61-1)): two
# sibling nodes differing only in such a pair have equal hashes without being equal; and constants
# that are == with equal hashes but different types (legitimately shared memo entries)
HASH_TWINS = ((-1, -2), (0, 2 ** 61 - 1), (-1, -1 - (2 ** 61 - 1)))
TYPED_TWINS = ((1, 1.0), (1, True), (2, 2.0), (0, False))
# The general power rule of the implementation spells the natural logarithm as the bare name
# ``log`` (not ``math.log``).  The statement does not fix the evaluation environment, so the
# reference environment binds both; set to False to see every such result reported.
ACCEPT_BARE_LOG = True

# }}}


# {{{ spec constructors of the fragment

def mcall(name, *args):
    return Call(Look(V("math"), name), *args)


def sign(u):
    return mcall("copysign", C(1), u)           # what pymbolic.functions.sign builds


CONDS = (Cmp(X, "<", Y), Cmp(Y, ">=", C(2)), Cmp(A0, "==", X), Cmp(Prod(X, Y), ">", C(1)))
N_CONDS = {"quick": 2, "thorough": 4}


def shapes(n_conds, n_ary3=True, unknown=True):
    """[(name, arity, make)]"""
    out = [("Sum2", 2, lambda a, b: Sum(a, b)), ("Product2", 2, lambda a, b: Prod(a, b)),
           ("Quotient", 2, Quot), ("Power", 2, Pow)]
    if n_ary3:
        out += [("Sum3", 3, lambda a, b, c: Sum(a, b, c)),
                ("Product3", 3, lambda a, b, c: Prod(a, b, c))]
    for f in (*SMOOTH_FUNCS, "fabs"):
        out.append((f, 1, lambda u, f=f: mcall(f, u)))
    out.append(("sign", 1, sign))
    if unknown:
        out.append(("unk:f", 1, lambda u: Call(V("f"), u)))
        out.append(("unk:math.sqrt", 1, lambda u: mcall("sqrt", u)))
    for i, c in enumerate(CONDS[:n_conds]):
        out.append((f"If{i}", 2, lambda a, b, c=c: If(c, a, b)))
    out.append(("CSE", 1, lambda u: CSE(u)))
    out.append(("CSEp", 1, lambda u: CSE(u, "p")))
    return out


def pool(leaves, shp):
    out = []
    for _, k, mk in shp:
        for combo in itertools.product(leaves, repeat=k):
            out.append(mk(*combo))
    return out

# }}}


# {{{ fragment, variables, classification

def in_fragment(s) -> bool:
    t = s[0]
    if t in ("int", "float", "bool"):
        return True
    if t == "Variable":
        return s[1][0] == "str" and s[1][1] not in ("math", "log")
    if t == "Subscript":
        return s[1][0] == "Variable" and s[2][0] == "int"
    if t in ("Sum", "Product"):
        return len(s) == 2 and s[1][0] == "tuple" and len(s[1]) >= 2 \
            and all(in_fragment(c) for c in s[1][1:])
    if t in ("Quotient", "Power"):
        return in_fragment(s[1]) and in_fragment(s[2])
    if t == "Call":
        f = s[1]
        okf = (f[0] == "Variable" and f[1][1] != "math") or \
            (f[0] == "Lookup" and f[1] == V("math") and f[2][0] == "str")
        if not okf or s[2][0] != "tuple":
            return False
        mc = math_call(s)
        if mc is not None and mc[0] == "copysign" and call_class(s) != "sign":
            return False                    # copysign(u, c): not constructible, DESIGN 5 item 22
        return all(in_fragment(c) for c in s[2][1:])
    if t == "If":
        c = s[1]
        return c[0] == "Comparison" and c[2][0] == "str" and in_fragment(c[1]) \
            and in_fragment(c[3]) and in_fragment(s[2]) and in_fragment(s[3])
    if t == "CommonSubexpression":
        return in_fragment(s[1])
    return False


def value_leaves(s, acc=None):
    """Variables / subscripts that carry a value (not function names), in order of occurrence."""
    if acc is None:
        acc = []
    t = s[0]
    if t == "Variable":
        if s not in acc:
            acc.append(s)
    elif t == "Subscript":
        if s not in acc:
            acc.append(s)
    elif t == "Call":
        for c in s[2][1:]:
            value_leaves(c, acc)
    elif t in ("Sum", "Product"):
        for c in s[1][1:]:
            value_leaves(c, acc)
    elif t in ("Quotient", "Power"):
        value_leaves(s[1], acc)
        value_leaves(s[2], acc)
    elif t == "If":
        value_leaves(s[1][1], acc)
        value_leaves(s[1][3], acc)
        value_leaves(s[2], acc)
        value_leaves(s[3], acc)
    elif t == "CommonSubexpression":
        value_leaves(s[1], acc)
    return acc


def depends(s, dv) -> bool:
    return dv in value_leaves(s)


def required_levels(s, dvars, user=None):
    """-> ([level needed for dvars[k]: constructs whose subtree mentions the variable],
            level needed by any construct, {level: construct name})   3 = never allowed."""
    active = [0] * len(dvars)
    anyl = 0
    names = {}
    for c in walk(s):
        lv = 0
        if c[0] == "If":
            lv, nm = 2, "If"
        elif c[0] == "Call":
            if user and user_call(c, user) is not None:
                continue            # known to the caller-supplied table
            cls = call_class(c)
            if cls == "log2":
                anyl = 3            # may be refused under every setting, never has to be
                continue
            lv = {"smooth": 0, "fabs": 1, "sign": 2, "unknown": 3}[cls]
            nm = cls
        if not lv:
            continue
        anyl = max(anyl, lv)
        names.setdefault(lv, nm)
        leaves = value_leaves(c)
        for k, dv in enumerate(dvars):
            if dv in leaves:
                active[k] = max(active[k], lv)
    return active, anyl, names


def key_of_leaf(s):
    return s[1][1] if s[0] == "Variable" else (s[1][1][1], s[2][1])


def points_for(spec, tier, grid="std"):
    leaves = sorted(value_leaves(spec), key=repr)
    doms = []
    for lf in leaves:
        k = key_of_leaf(lf)
        if grid == "int" and k in INT_GRID:
            doms.append(INT_GRID[k])
        else:
            doms.append(DOMAIN[tier])
    pts = [dict(zip([key_of_leaf(lf) for lf in leaves], vals))
           for vals in itertools.product(*doms)]
    if len(pts) > MAX_POINTS:
        # only inputs with > 3 value leaves (localisation candidates): a stride coprime to the
        # domain size, so that every coordinate keeps varying
        step = -(-len(pts) // MAX_POINTS)
        while math.gcd(step, len(DOMAIN[tier])) != 1:
            step += 1
        pts = pts[::step]
    return pts


def dvars_for(spec, grid="std"):
    """Differentiation variables: every value leaf of the input, an absent name and an absent
    subscript of a present aggregate (grid 'absent:<name>': that absent name as well)."""
    out = list(value_leaves(spec))
    if grid.startswith("absent:") and V(grid[7:]) not in out:
        out.append(V(grid[7:]))
    if Z not in out:
        out.append(Z)
    if A0 in out and A1 not in out:
        out.append(A1)
    return out

# }}}


# {{{ running the code under test

def user_func_map(i, func, pars, allowed_nonsmoothness="none"):
    """The caller-supplied derivative table handed to the code under test in the "funcmap"
    family (documented signature (arg_index, function, parameters)): partial derivatives of
    q(u, v) = u*u*v + 3*v and t3(u, v, w) = u*v*v + w**3*u; everything else is delegated to the
    built-in table."""
    import pymbolic.primitives as p
    from pymbolic.mapper.differentiator import map_math_functions_by_name
    if func == p.Variable("q") and len(pars) == 2:
        u, v = pars
        return [2*u*v, u*u + 3][i]
    if func == p.Variable("t3") and len(pars) == 3:
        u, v, w = pars
        return [v*v + w**3, 2*u*v, 3*w*w*u][i]
    return map_math_functions_by_name(i, func, pars,
                                      allowed_nonsmoothness=allowed_nonsmoothness)


# the ORACLE's view of the same two functions: (arity, value, partials), on field values
USER_FUNCS = {
    "q": (2, lambda u, v: u * u * v + 3 * v,
          [lambda u, v: 2 * u * v, lambda u, v: u * u + 3]),
    "t3": (3, lambda u, v, w: u * v * v + w * w * w * u,
           [lambda u, v, w: v * v + w * w * w, lambda u, v, w: 2 * u * v,
            lambda u, v, w: 3 * w * w * u]),
}


def run_diff(expr, dv, form, setting, user=False):
    """-> ('ok', result spec) | ('err', class name, message)"""
    from pymbolic.mapper.differentiator import (
        DifferentiationMapper, differentiate, map_math_functions_by_name)
    fm = user_func_map if user else map_math_functions_by_name
    try:
        if form == "name":
            res = differentiate(expr, dv[1][1], fm, allowed_nonsmoothness=setting)
        elif form == "direct":
            res = DifferentiationMapper(build(dv), fm, allowed_nonsmoothness=None)(expr)
        else:
            res = differentiate(expr, build(dv), fm, allowed_nonsmoothness=setting)
    except RecursionError:
        raise
    except Exception as e:  # noqa: BLE001
        return ("err", type(e).__name__, str(e)[:160])
    try:
        return ("ok", to_spec(res))
    except Exception as e:  # noqa: BLE001
        return ("ok", ("opaque", type(res).__name__, f"to_spec failed: {e!r}"))


def configs_for(dv):
    """(form, setting) pairs for one differentiation variable."""
    out = [("obj", s) for s in SETTINGS]
    out.append(("direct", "none"))
    if dv[0] == "Variable":
        out += [("name", s) for s in SETTINGS]
    return out

# }}}


# {{{ value comparison

class PointOracle:
    """Oracle values of one input at one point, lazily, with the shared Field."""

    def __init__(self, spec, point, dvars, user=None):
        self.fld = Field()
        self.point = point
        self.user = user
        self.status = "ok"
        try:
            self.val, self.dual = DualEval(self.fld, point, dvars, _depends_k(dvars),
                                           user).ev(spec)
        except Skip as e:
            self.status = "skip:" + e.reason.split(":")[0]
        except ZeroDivisionError:
            self.status = "skip:pole"
        except NotInFragment:
            self.status = "nofrag"
        self.cache = {}

    def reference_value(self, rspec):
        """-> ('ok', value, used_bare_log) | ('undefined', why) | ('noteval', why)"""
        if rspec in self.cache:
            return self.cache[rspec]
        ref = DRef(self.fld, self.point, bare_log=ACCEPT_BARE_LOG, user=self.user)
        try:
            out = ("ok", ref(rspec), ref.used_bare_log)
        except Skip as e:
            out = ("undefined", e.reason)
        except ZeroDivisionError:
            out = ("undefined", "ZeroDivisionError")
        except UnknownVariable as e:
            out = ("noteval", f"unbound name {e.name!r}")
        except RecursionError:
            raise
        except Exception as e:  # noqa: BLE001
            out = ("noteval", f"{type(e).__name__}: {e}"[:120])
        self.cache[rspec] = out
        return out


def _depends_k(dvars):
    memo = {}

    def dep(s, k):
        key = (s, k)
        if key not in memo:
            memo[key] = depends(s, dvars[k])
        return memo[key]
    return dep


def show_point(pt):
    return "{" + ", ".join(f"{k if isinstance(k, str) else f'{k[0]}[{k[1]}]'}={v}"
                           for k, v in pt.items()) + "}"

# }}}


def examine(spec, tier, grid="std", r=None, first_only=True):
    """Check one input on its own.  -> list of (kind, detail)."""
    if not in_fragment(spec):
        return []
    try:
        expr = build(spec)
    except Exception:  # noqa: BLE001
        return []
    dvars = dvars_for(spec, grid)
    user = USER_FUNCS if grid == "user" else None
    active, anyl, cnames = required_levels(spec, dvars, user)
    fails = []
    seen_kinds = set()

    def fail(kind, detail):
        if kind not in seen_kinds:
            seen_kinds.add(kind)
            fails.append((kind, f"input {show(spec)}: {detail}"))

    # 1. differentiate under every configuration
    to_value_check = []          # (k, form, setting, result spec)
    nontrivial = False
    for k, dv in enumerate(dvars):
        for form, setting in configs_for(dv):
            out = run_diff(expr, dv, form, setting, user is not None)
            if r is not None:
                r.evals += 1
            lvl = LEVEL[setting]
            cfg = f"d/d{show(dv)} [{form}, allowed_nonsmoothness={setting}]"
            if active[k] > lvl:
                nontrivial = True
                if r is not None:
                    r.count("refusals_demanded")
                if out[0] == "ok":
                    fail(f"not-refused:{cnames[active[k]]}:{setting}",
                         f"{cfg} returned {show(out[1])} instead of raising")
                continue
            if out[0] == "err":
                if anyl > lvl:
                    if r is not None:
                        r.count("refusals_accepted_inactive")
                    continue              # refusal of a construct that does not involve dv
                fail(f"raises:{out[1]}", f"{cfg} raised {out[1]}({out[2]})")
                continue
            to_value_check.append((k, form, setting, out[1]))
        if first_only and fails:
            return fails

    # 2. compare values at every point of the grid
    if to_value_check:
        distinct = {}
        for k, form, setting, rs in to_value_check:
            distinct.setdefault((k, rs), (form, setting))
        checked_pts = 0
        for pt in points_for(spec, tier, grid):
            po = PointOracle(spec, pt, dvars, user)
            if r is not None:
                r.count("points")
            if po.status != "ok":
                if r is not None:
                    r.count("points_" + po.status)
                continue
            checked_pts += 1
            for (k, rs), (form, setting) in distinct.items():
                want = po.dual[k]
                if want is UNDEF:
                    if r is not None:
                        r.count("partials_undefined")
                    continue
                got = po.reference_value(rs)
                cfg = (f"d/d{show(dvars[k])} [{form}, allowed_nonsmoothness={setting}] = "
                       f"{show(rs)} at {show_point(pt)}")
                if r is not None:
                    r.count("comparisons")
                if got[0] == "ok":
                    if got[2] and r is not None:
                        r.count("comparisons_using_bare_log")
                    if not (got[1] == want):
                        fail("value", f"{cfg}: derivative is {want!r}, returned expression "
                                      f"evaluates to {got[1]!r} {po.fld.describe() or ''}")
                elif got[0] == "undefined":
                    fail(f"deriv-undefined:{got[1].split(':')[0]}",
                         f"{cfg}: derivative is {want!r} but the returned expression is "
                         f"undefined there ({got[1]})")
                else:
                    fail("deriv-not-evaluable", f"{cfg}: {got[1]}")
            if first_only and fails:
                return fails
        if checked_pts:
            nontrivial = True
    if r is not None and nontrivial:
        r.keys.append(spec)
    return fails


# {{{ float evaluation in the tails

_TAIL_ERRORS = (OverflowError, ValueError, ZeroDivisionError, FloatSkip)


def examine_tail(spec, r, xs=TAIL_X, ys=TAIL_Y):
    """The returned derivative, evaluated with Python's math in floats, must be evaluable (no
    exception) and agree with the textbook forward-mode value at every tail point where the
    input's value and every intermediate of the textbook rules are finite floats."""
    import math
    expr = build(spec)
    fails, seen = [], set()
    leaves = value_leaves(spec)
    _, anyl, _ = required_levels(spec, leaves)
    nontrivial = False
    for dv in leaves:
        setting = SETTINGS[anyl]            # the weakest setting that allows the whole input
        out = run_diff(expr, dv, "obj", setting)
        r.evals += 1
        cfg = f"input {show(spec)}: d/d{show(dv)} [allowed_nonsmoothness={setting}]"
        if out[0] == "err":
            fails.append((f"raises:{out[1]}", f"{cfg} raised {out[1]}({out[2]})"))
            continue
        for x0 in xs:
            for y0 in (ys if Y in leaves else ys[:1]):
                env = {"x": x0, "y": y0}
                r.count("tail_points")
                try:
                    _, want = float_dual(spec, env, dv)
                except _TAIL_ERRORS:
                    r.count("tail_points_skipped")
                    continue
                nontrivial = True
                r.count("tail_comparisons")
                got = refsem.outcome(refsem.evaluate, out[1],
                                     dict(env, math=math, log=math.log))
                if got[0] == "err":
                    kind = f"tail-undefined:{got[1]}"
                    detail = (f"{cfg} = {show(out[1])} raises {got[1]}({got[2]}) at {env}; the "
                              f"input is evaluable there and its derivative is {want!r}")
                elif isinstance(got[1], complex) or not isinstance(got[1], (int, float)) or \
                        not abs(got[1] - want) <= TAIL_RTOL * abs(want) + TAIL_ATOL:
                    kind = "tail-value"
                    detail = f"{cfg} = {show(out[1])} evaluates to {got[1]!r} at {env}, " \
                             f"derivative is {want!r}"
                else:
                    continue
                if kind not in seen:
                    seen.add(kind)
                    fails.append((kind, detail))
    if nontrivial:
        r.keys.append(("t", spec))
    return fails

# }}}


# {{{ CSE histories

def cse_pool():
    c1 = CSE(Prod(X, Y))
    c2 = CSE(Prod(X, Y), "p")
    return (
        Sum(c1, mcall("sin", c1)),
        Prod(c1, X),
        Pow(c2, C(2)),
        CSE(Sum(CSE(Prod(X, Y)), Y)),
        Quot(c1, Sum(c2, C(3))),
    )


def history_ops():
    return [(entry, v, i) for entry in ("fn", "inst") for v in ("x", "y")
            for i in range(len(cse_pool()))]


def run_history(ops, tier, r):
    """One mapper instance per variable is created on first use and re-used ('inst'), mixed with
    calls of differentiate() ('fn').  Every returned expression is value-checked."""
    from pymbolic.mapper.differentiator import DifferentiationMapper, differentiate
    pl = cse_pool()
    exprs = [build(s) for s in pl]
    insts = {}
    for n, (entry, v, i) in enumerate(ops):
        dv = V(v)
        try:
            if entry == "fn":
                res = differentiate(exprs[i], v)
            else:
                if v not in insts:
                    insts[v] = DifferentiationMapper(build(dv))
                res = insts[v](exprs[i])
            rs = to_spec(res)
        except RecursionError:
            raise
        except Exception as e:  # noqa: BLE001
            return n, f"raises:{type(e).__name__}", f"step {n} {ops[n]} raised {e!r}"
        r.evals += 1
        for pt in points_for(pl[i], tier):
            po = PointOracle(pl[i], pt, [dv])
            if po.status != "ok":
                continue
            got = po.reference_value(rs)
            r.count("comparisons")
            if got[0] != "ok" or not (got[1] == po.dual[0]):
                return n, "value", (f"step {n}: d/d{v} {show(pl[i])} via {entry} returned "
                                    f"{show(rs)}; at {show_point(pt)} derivative is "
                                    f"{po.dual[0]!r}, got {got[1:]!r}")
    return None

# }}}


# results of the (pure) localisation predicate, per worker process: failing inputs share most of
# their candidate sub-trees
_PRED_CACHE: dict = {}
PRED_CACHE_SIZE = 200000


class C10(Check):
    pid = "C10"
    level = "exploration"
    rule = ("bounded-exhaustive: (depth2) every shape {Sum2/3, Product2/3, Quotient, Power, the 9 "
            "smooth table functions, fabs, sign, two unknown functions, If over fixed comparison "
            "conditions, CSE with/without prefix} with every combination of the leaves x, y, a[0], "
            "2, -1, 3; (nest3) every (parent shape, position, depth-2 child) with the other slots "
            "from a sibling set (quick: children over x, y, 2, -1; thorough: over all six leaves); "
            "(pairs3, thorough) binary parents with both children composite; dedicated families "
            "for variable exponents on an integer grid, every table name with every arity 0..3 "
            "(arguments over x, y, 2; bare and below 5 parents), refusal (unknown names, "
            "non-smooth functions below every parent position), shared CSEs, pairs of sibling "
            "CSEs whose children differ only in hash-colliding constants (-1/-2, 0/2**61-1, "
            "-1/-2**61) or in ==-but-differently-typed constants (1/1.0/True, ...) in 7 contexts "
            "and both orders, pairs of sibling CSEs whose bodies are the same tower (4 kinds) of "
            "depth 1..6 and differ only in the innermost leaf, every table function of 5 inner "
            "arguments x 5 parents evaluated with Python's math in floats at |x| = 20, 400, 800 "
            "(tails), (b**m)**n and b**n for 4 bases x 5 inner x 6 outer constant exponents incl. "
            "non-integer ones x 5 parents in floats at x = +-3, +-0.75 (fpow), calls of two "
            "caller-supplied functions (2 / 3 arguments, index-dependent derivative table passed "
            "as func_mapper / func_map) over every argument tuple of variables, literals and "
            "composites x 4 parents (funcmap), 5 templates over 16 variable names beyond plain "
            "ASCII identifiers (not NFKC-stable, non-ASCII, keyword, dotted, spaced) and over 8 "
            "confusable name pairs in both orders incl. the absent partner (names), and all call "
            "histories up to length 2/3 over {differentiate(), one re-used mapper instance per "
            "variable} x {x, y} x 5 CSE expressions. Each expression x every value leaf, an "
            "absent name and an absent subscript as differentiation variable (object / name / "
            "direct-mapper form) x 3 nonsmoothness settings x the full grid DOMAIN^leaves. "
            "Non-trivial = at least one in-domain point was compared or a refusal was demanded; "
            "distinct = distinct input trees.")
    assumptions = [
        "values live in Q(atoms): exp/log/tan(u/2)/non-integer powers at a point are formal atoms "
        "(algebraically independent); equality there implies equality of the real values, a "
        "mismatch is triaged by hand",
        "a float constant in the returned expression denotes its exact binary value (x/2 -> 0.5 "
        "is exact, 1/3 as a float is not)",
        "the side of a break point (sign of an argument of log/fabs/sign/a comparison, positivity "
        "of a base) of a value containing atoms is decided with a float shadow; |value| < 1e-6 "
        "makes the point undecidable and it is skipped; break points themselves are skipped",
        "points where the input is undefined (pole, log of a non-positive value, 0**(<=0), "
        "non-positive base with a non-integer exponent or an exponent that depends on the "
        "variable) are outside the domain; the partial derivative with respect to the other "
        "variables is still checked",
        "the returned expression may spell the natural logarithm as the bare name log (what the "
        "general power rule emits) or as math.log: both are bound in the reference environment",
        "a non-smooth / unknown function whose argument does not mention the differentiation "
        "variable may either be refused or be differentiated (to the correct value); when its "
        "argument mentions the variable refusal (any exception) is demanded",
        "0**0 = 1 in the returned expression (Python's convention)",
        "tails and fpow families only: floats are the deciding domain there (evaluability of the returned "
        "expression with Python's math where the input and every intermediate of the textbook "
        "forward-mode rules are finite; agreement within rtol 1e-9 + atol 1e-12); the oracle's "
        "float table uses for every function a formula that is evaluable wherever the function "
        "is (tanh' = 4q/(1+q)^2, q = exp(-2|u|))",
        "a table name called with an arity the table does not know is an unknown function and "
        "must be refused; the one exception is math.log(u, b), which Python's math defines: it "
        "may be refused or differentiated to d(ln u / ln b)",
    ]
    chunk = 24

    def families(self, tier):
        nc = N_CONDS[tier]
        shp = shapes(nc)
        fams = [
            ("depth2", lambda: (("e", s) for s in pool(LEAVES_FULL, shp))),
            ("nest3", lambda: self.gen_nest3(shp, pool(LEAVES_REDUCED, shapes(2)))),
            ("varexp", self.gen_varexp),
            ("refusal", self.gen_refusal),
            ("cse-shared", self.gen_cse_shared),
            ("cse-twins", self.gen_cse_twins),
            ("arity", self.gen_arity),
            ("cse-deep", self.gen_cse_deep),
            ("tails", self.gen_tails),
            ("fpow", self.gen_fpow),
            ("funcmap", self.gen_funcmap),
            ("names", self.gen_names),
            ("cse-histories", lambda: self.gen_histories(tier)),
        ]
        if tier == "thorough":
            fams.append(("nest3-full",
                         lambda: self.gen_nest3(shp, pool(LEAVES_FULL, shp),
                                                skip=set(pool(LEAVES_REDUCED, shapes(2))))))
            fams.append(("pairs3", self.gen_pairs3))
        return fams

    # -- generators -------------------------------------------------------------------------
    def gen_nest3(self, shp, children, skip=()):
        for _, k, mk in shp:
            for pos in range(k):
                if k == 1:
                    sibs = [()]
                elif k == 2:
                    sibs = [(s,) for s in SIBLINGS]
                else:
                    sibs = SIBLINGS3
                for child in children:
                    if child in skip:
                        continue
                    for sb in sibs:
                        args = list(sb)
                        args.insert(pos, child)
                        yield ("e", mk(*args))

    def gen_pairs3(self):
        shp = shapes(1, n_ary3=False, unknown=False)
        ch = pool(LEAVES_PAIRS, shp)
        for _, k, mk in shp:
            if k != 2:
                continue
            for a in ch:
                for b in ch:
                    yield ("e", mk(a, b))

    def gen_varexp(self):
        bases = (X, Sum(X, C(1)), C(2), C(3), Prod(X, Y), mcall("sin", X), A0, Y,
                 Quot(C(1), X), mcall("exp", X))
        exps = (Y, Sum(Y, C(1)), Prod(C(2), Y), Prod(Y, Y), X, Prod(X, Y), Prod(C(-1), Y),
                Quot(Y, C(2)), Sum(X, Y), A0)
        for f in bases:
            for g in exps:
                p_ = Pow(f, g)
                for e in (p_, Prod(p_, X), Prod(Y, p_), Quot(C(1), p_), Quot(p_, Y),
                          mcall("sin", p_), mcall("log", p_), Pow(p_, C(2)), Pow(p_, Y),
                          Pow(C(2), p_), Sum(p_, Pow(g, f)), CSE(p_)):
                    yield ("e", e, "int")
                    yield ("e", e, "std")

    def gen_refusal(self):
        inner = [
            mcall("fabs", X), sign(X), If(Cmp(X, "<", Y), X, Y), If(Cmp(Y, "<", C(2)), X, C(3)),
            If(Cmp(X, "<", C(1)), C(2), C(3)),
            Call(V("f"), X), Call(V("f"), X, Y), Call(V("f")), mcall("sqrt", X),
            mcall("atan", X), mcall("atan2", X, Y), Call(V("sin"), X), Call(V("log"), X),
            mcall("sin", X, Y), mcall("sin"), mcall("fabs", X, Y), mcall("copysign", C(2), X),
            mcall("copysign", C(-1), X), mcall("fabs", Prod(X, Y)), sign(Sum(X, Y)),
            mcall("fabs", Y), sign(Y), Call(V("f"), Y), Call(V("f"), C(2)), mcall("fabs", C(-1)),
            sign(C(3)), mcall("fabs", mcall("fabs", X)), sign(mcall("fabs", X)),
            mcall("fabs", sign(X)),
        ]
        wrap = [
            lambda u: u, lambda u: Sum(u, X), lambda u: Sum(Y, u), lambda u: Prod(u, X),
            lambda u: Prod(Y, u), lambda u: Prod(C(0), u), lambda u: Prod(C(2), u, X),
            lambda u: Quot(u, X), lambda u: Quot(X, u), lambda u: Quot(C(1), u),
            lambda u: Pow(u, C(2)), lambda u: Pow(C(2), u), lambda u: Pow(u, X),
            lambda u: Pow(X, u), lambda u: mcall("sin", u), lambda u: mcall("exp", u),
            lambda u: CSE(u), lambda u: CSE(u, "p"),
            lambda u: If(Cmp(X, "<", Y), u, X), lambda u: If(Cmp(X, "<", Y), Y, u),
            lambda u: If(Cmp(Y, "<", C(1)), u, C(2)), lambda u: mcall("fabs", u),
            lambda u: sign(u), lambda u: Prod(u, u), lambda u: Sum(u, Prod(C(-1), u)),
        ]
        for u in inner:
            for w in wrap:
                yield ("e", w(u))

    def gen_cse_shared(self):
        shp = shapes(1, unknown=False)
        kids = pool((X, Y, C(2)), shp)
        for c in kids:
            for w in (CSE(c), CSE(c, "p")):
                w2 = CSE(c, "q")
                yield ("e", Sum(w, w))
                yield ("e", Prod(w, w))
                yield ("e", Quot(w, Sum(w, C(3))))
                yield ("e", Pow(w, w))
                yield ("e", Prod(w, mcall("sin", w), X))
                yield ("e", Sum(w, w2))                     # same child, different prefix
                yield ("e", Prod(w, c))                     # wrapped and unwrapped twin
                yield ("e", CSE(Sum(w, Y)))                 # nested wrappers
                yield ("e", CSE(Prod(w, CSE(Sum(w, X)))))
                yield ("e", If(Cmp(X, "<", Y), w, Prod(w, w)))

    def gen_cse_deep(self):
        """Two different wrappers in ONE expression whose bodies are the same tower of depth
        1..DEEP_MAX and differ only in the innermost leaf: a memo keyed on anything that looks at
        a bounded depth only (a depth-limited repr, a truncated structural hash) confuses them."""
        towers = (
            lambda e: Sum(Prod(e, C(2)), C(1)),
            lambda e: Pow(e, C(2)),
            lambda e: Quot(C(1), Sum(e, C(1))),
            lambda e: CSE(Prod(e, Y)),
        )
        leaf_pairs = ((Prod(X, X), Prod(X, X, X)), (X, Y), (Sum(X, C(2)), Sum(X, C(3))))
        contexts = (lambda a, b: Sum(a, b), lambda a, b: Prod(a, b),
                    lambda a, b: Quot(a, Sum(b, C(4))))
        for tw in towers:
            for l1, l2 in leaf_pairs:
                a, b = l1, l2
                for _ in range(DEEP_MAX):
                    a, b = tw(a), tw(b)
                    for ctx in contexts:
                        yield ("e", ctx(CSE(a), CSE(b)))
                        yield ("e", ctx(CSE(b, "p"), CSE(a, "p")))

    def gen_tails(self):
        """Every table function of an inner argument, bare and below four parents, evaluated in
        floats (Python's math) far from the origin."""
        inner = (X, Prod(C(2), X), Prod(C(-1), X), Prod(X, Y), Sum(X, Y))
        ctxs = (lambda c: c, lambda c: Prod(c, X), lambda c: Sum(c, Prod(X, Y)),
                lambda c: Quot(C(1), c), lambda c: Pow(c, C(2)))
        for f in (*SMOOTH_FUNCS, "fabs", "sign"):
            for u in inner:
                call = sign(u) if f == "sign" else mcall(f, u)
                for ctx in ctxs:
                    yield ("t", ctx(call))

    def gen_fpow(self):
        """(b**m)**n and b**n for every inner / outer constant exponent incl. non-integer ones,
        bare and below four parents; evaluated in floats at positive AND negative points (the exact
        field cannot hold |x|)."""
        bases = (X, Sum(X, C(1)), Prod(X, Y), Prod(C(2), X))
        ctxs = (lambda c, b: c, lambda c, b: Quot(C(1), c), lambda c, b: Prod(c, X),
                lambda c, b: Quot(X, c), lambda c, b: Sum(c, b))
        for b in bases:
            cores = [Pow(b, C(n)) for n in FPOW_OUTER]
            cores += [Pow(Pow(b, C(m)), C(n)) for m in FPOW_INNER for n in FPOW_OUTER]
            for core in cores:
                for ctx in ctxs:
                    yield ("fp", ctx(core, b))

    def gen_funcmap(self):
        """Calls of two caller-supplied functions (2 and 3 arguments) whose derivative table
        uses the argument index: every argument tuple over variables, literals and composites
        (literals before and after variable arguments), bare and below three parents, through
        func_mapper of differentiate() and func_map of DifferentiationMapper."""
        args2 = (X, Y, C(2), C(-1), Prod(X, Y), mcall("sin", X))
        args3 = (X, Y, C(2))
        ctxs = (lambda c: c, lambda c: Prod(c, X), lambda c: mcall("sin", c), lambda c: CSE(c))
        for a in args2:
            for b in args2:
                for ctx in ctxs:
                    yield ("e", ctx(Call(V("q"), a, b)), "user")
        for abc in itertools.product(args3, repeat=3):
            for ctx in ctxs:
                yield ("e", ctx(Call(V("t3"), *abc)), "user")
        # wrong arity / unknown name next to the table: still refused
        for e in (Call(V("q"), X), Call(V("q"), X, Y, X), Call(V("t3"), X, Y), Call(V("f"), X, Y),
                  Call(V("q"), Call(V("f"), X), Y)):
            yield ("e", e, "user")

    def gen_names(self):
        """Four templates over every name of NAMES (with a plain second variable) and over every
        CONFUSABLE pair in both orders; as everywhere, each variable is given to differentiate() as
        a Variable object, as a string, and to the mapper directly, and the partner of a
        confusable pair that does not occur must give 0."""
        def templates(a, b):
            return (Sum(Prod(Pow(a, C(2)), b), Prod(C(3), a)), mcall("sin", Prod(a, b)),
                    Quot(a, Sum(b, C(3))), CSE(Prod(a, b)), Pow(a, C(3)))
        seen = set()

        def once(item):
            if item not in seen:
                seen.add(item)
                yield item
        for n in NAMES:
            for e in templates(V(n), V("t")):
                yield from once(("e", e))
        for n1, n2 in CONFUSABLE:
            for a, b in ((n1, n2), (n2, n1)):
                for e in templates(V(a), V(b)):
                    yield from once(("e", e))
                yield from once(("e", Pow(V(a), C(2)), "absent:" + b))

    def gen_arity(self):
        """Every name of the derivative table called with every arity 0..3 other than (and
        including) the one the table knows, arguments over x, y, 2, bare and below five parents:
        a table entry must only fire for its own arity."""
        args_by_arity = {
            0: [()],
            1: [(X,), (Y,), (C(2),)],
            2: list(itertools.product(ARITY_ARGS, repeat=2)),
            3: [(X, Y, C(2)), (X, X, X), (C(2), Y, X), (Y, C(2), C(3))],
        }
        wrap = (lambda u: u, lambda u: Sum(u, X), lambda u: Prod(Y, u),
                lambda u: mcall("sin", u), lambda u: CSE(u), lambda u: Quot(X, u))
        for name in (*SMOOTH_FUNCS, "fabs", "copysign"):
            for k in range(MAX_ARITY + 1):
                for args in args_by_arity[k]:
                    call = mcall(name, *args)
                    if not in_fragment(call):
                        continue            # copysign(u, c) with a non-constant first argument
                    for w in wrap:
                        yield ("e", w(call))

    def gen_cse_twins(self):
        """Two different wrappers in ONE expression whose children differ only in a constant of a
        hash-colliding pair (or an == pair of different types): every memo keyed on a hash instead
        of on the node confuses them."""
        templates = (
            lambda c: Pow(X, c), lambda c: Pow(Sum(X, C(1)), c), lambda c: Prod(c, X),
            lambda c: Prod(X, Y, c), lambda c: Sum(Prod(X, Y), c), lambda c: Quot(c, X),
            lambda c: Quot(X, Sum(Y, c)), lambda c: mcall("sin", Prod(c, X)),
            lambda c: Prod(c, mcall("exp", X)), lambda c: Pow(Prod(X, Y), c),
        )
        contexts = (
            lambda a, b: Sum(a, b), lambda a, b: Prod(a, b), lambda a, b: Quot(a, Sum(b, C(4))),
            lambda a, b: Sum(Prod(a, Y), mcall("sin", b)),
            lambda a, b: Quot(Sum(Prod(a, Y), X), Sum(b, C(4))),
            lambda a, b: CSE(Sum(a, Prod(b, X))),
            lambda a, b: If(Cmp(X, "<", Y), Prod(a, b), Sum(a, b)),
        )
        for pairs, typed in ((HASH_TWINS, False), (TYPED_TWINS, True)):
            for c1, c2 in pairs:
                for tm in templates:
                    try:
                        t1, t2 = tm(C(c1)), tm(C(c2))
                    except TypeError:
                        continue
                    for wrap in (lambda u: CSE(u), lambda u: CSE(u, "p")):
                        a, b = wrap(t1), wrap(t2)
                        for ctx in contexts:
                            yield ("e", ctx(a, b))
                            yield ("e", ctx(b, a))
                    if not typed:
                        yield ("e", Sum(CSE(t1), CSE(t2, "p"), CSE(t1, "p"), CSE(t2)))

    def gen_histories(self, tier):
        ops = history_ops()
        for n in range(1, HISTORY_LEN[tier] + 1):
            for seq in itertools.product(ops, repeat=n):
                if n > 1 and not any(o[0] == "inst" for o in seq):
                    continue                    # differentiate()-only histories: length 1 and 2
                yield ("h", seq)

    # -- the check ----------------------------------------------------------------------------
    def check_item(self, family, item, tier):
        r = Res()
        if item[0] == "h":
            ops = tuple(tuple(o) for o in item[1])
            r.count("histories")
            hit = run_history(ops, tier, r)
            r.keys.append(("h", ops))
            if hit:
                n, kind, detail = hit
                pre = ops[:n + 1]
                sig = "history:" + kind + "|" + " ; ".join(f"{e}:d/d{v}:e{i}" for e, v, i in pre)
                r.fail("history:" + kind, sig, detail, witness=("h", pre))
            return r
        if item[0] in ("t", "fp"):
            xs, ys = (TAIL_X, TAIL_Y) if item[0] == "t" else (FPOW_X, FPOW_Y)
            for kind, detail in examine_tail(item[1], r, xs, ys):
                r.fail(kind, f"{kind}|{show(canon_vars(item[1]))}", detail, witness=item)
            return r
        spec = item[1]
        grid = item[2] if len(item) > 2 else "std"
        fl = examine(spec, tier, grid, r)
        if fl:
            def pred(s):
                key = (s, tier, grid)
                if key not in _PRED_CACHE:
                    if len(_PRED_CACHE) > PRED_CACHE_SIZE:
                        _PRED_CACHE.clear()
                    f2 = examine(s, tier, grid)
                    _PRED_CACHE[key] = f2[0][0] if f2 else None
                return _PRED_CACHE[key]
            locs = localise(spec, pred)
            if not locs:
                locs = [(fl[0][0], f"{fl[0][0]}|{show(canon_vars(spec))}", spec)]
            for kk, sig, m in locs:
                odd = sorted(n for n in (lf[1][1] for lf in value_leaves(m) if lf[0] == "Variable")
                             if not re.fullmatch(r"[a-z]\d*", n))
                if odd:
                    sig += "|names=" + ",".join(ascii(n) for n in odd)
                d = examine(m, tier, grid)
                r.fail(kk, sig, f"in {show(spec)}: minimal failing input {show(m)}: "
                               f"{d[0][1] if d else fl[0][1]}",
                       witness=("e", m, grid))
        return r


CHECK = C10()

"""C09 -- dependency, node-count and flop analyses are exact.

Engine A: depth-2 trees, every (parent, position, child) nesting and three-level chains over a
reduced alphabet, x all 72 flag vectors of the dependency analysis x cached/uncached; node counter
and the flop counters on the same trees.  Oracles are written on specs, independently of the
mappers under test.
"""
from __future__ import annotations

import itertools

from vf import gen, refsem
from vf.checks.c02 import has_lib_equal_twins, unhashable_below_node
from vf.envs import base_env
from vf.localise import localise
from vf.run import Check, Res
from vf.spec import C, V, build, show, sort_maps, to_spec, variables_of, walk

NO_HANDLER = ("Substitution", "Derivative")
DEP_CTORS = gen.ctors(exclude_tags=NO_HANDLER)
N3 = gen.ctors(names=("Call1", "CallKw11", "Subscript", "SubscriptT", "Lookup", "CSE", "CSEp",
                      "Sum2", "Power", "If", "Slice2", "tuple2"))
FLOP_TAGS = ("Call", "CallWithKwargs", "Subscript", "Lookup", "Sum", "Product", "Quotient",
             "FloorDiv", "Remainder", "Power", "LeftShift", "RightShift", "BitwiseNot", "BitwiseOr",
             "BitwiseXor", "BitwiseAnd", "Comparison", "LogicalNot", "LogicalOr", "LogicalAnd",
             "If", "Min", "Max", "CommonSubexpression", "tuple", "list", "array")
COUNT_EXCLUDED = ("tuple", "list", "array")

# the option value as a caller would get it from a config file or the command line: an equal
# string built at run time (a source literal is interned and 'is'-identical to the library's own)
DESCEND = "_".join(("descend", "args"))
_LITERAL = "descend_args"
assert DESCEND == _LITERAL and id(DESCEND) != id(_LITERAL)


FLAGS = [
    dict(include_subscripts=s, include_lookups=lk, include_calls=c, include_cses=cs,
         composite_leaves=cl)
    for s in (True, False) for lk in (True, False) for c in (True, False, DESCEND)
    for cs in (True, False) for cl in (None, True, False)]


# {{{ reference rules on specs

def base_view(s):
    """A user-class node seen as its built-in base class (first fields), else *s* itself."""
    t = s[0]
    if t.startswith("U:vf.usercls_gen."):
        import vf.usercls_gen as u
        info = u.CLASSES[t.rsplit(".", 1)[1]]
        nbase = {"Expression": 0, "Variable": 1, "Sum": 1, "CommonSubexpression": 3}[info["base"]]
        if info["base"] == "Expression":
            return ("Wildcard",)            # no children known to the stock traversals
        return (info["base"], *s[1:1 + nbase])
    return s


def expr_children(s):
    """Child expression occurrences of a node, in traversal order."""
    s = base_view(s)
    t = s[0]
    if t in ("int", "float", "bool", "complex", "str", "none", "type", "Variable", "NaN",
             "Wildcard", "DotWildcard", "StarWildcard", "FunctionSymbol"):
        return []
    if t == "Call":
        return [s[1], *s[2][1:]]
    if t == "CallWithKwargs":
        return [s[1], *s[2][1:], *[v for _, v in s[3][1:]]]
    if t == "Subscript":
        return [s[1], s[2]]
    if t == "Lookup":
        return [s[1]]
    if t == "Comparison":
        return [s[1], s[3]]
    if t == "CommonSubexpression":
        return [s[1]]
    if t == "Slice":
        return [c for c in s[1][1:] if c != ("none",)]
    if t == "Substitution":
        return [s[1], *s[3][1:]]
    if t == "Derivative":
        return [s[1]]
    if t in ("tuple", "list"):
        return list(s[1:])
    if t == "array":
        return list(s[2:])
    if t in ("Sum", "Product", "BitwiseOr", "BitwiseXor", "BitwiseAnd", "LogicalOr", "LogicalAnd",
             "Min", "Max"):
        return list(s[1][1:])
    return [c for c in s[1:] if isinstance(c, tuple)]


def ref_dependencies(s, fl):
    subs, looks, calls, cses = (fl["include_subscripts"], fl["include_lookups"],
                                fl["include_calls"], fl["include_cses"])
    if fl["composite_leaves"] is False:
        subs = looks = calls = False
    if fl["composite_leaves"] is True:
        subs = looks = calls = True
    out = set()

    def rec(n):
        t = n[0]
        if t == "Variable":
            out.add(n)
            return
        if t == "Subscript" and subs:
            out.add(n)
            return
        if t == "Lookup" and looks:
            out.add(n)
            return
        if t in ("Call", "CallWithKwargs"):
            if calls == "descend_args":
                for c in expr_children(n)[1:]:
                    rec(c)
                return
            if calls:
                out.add(n)
                return
        if t == "CommonSubexpression" and cses:
            out.add(n)
            return
        for c in expr_children(n):
            rec(c)
    rec(s)
    return out


def loose(s):
    if s[0] in ("int", "float", "bool", "complex"):
        return ("num", complex(s[1]))
    if isinstance(s, tuple):
        return tuple(loose(c) if isinstance(c, tuple) and c and isinstance(c[0], str) else c
                     for c in s)
    return s


def ref_node_count(s):
    seen = set()

    def rec(n):
        if n[0] in ("int", "float", "bool", "complex"):
            seen.add(n)                         # constants are keyed with their type
        else:
            seen.add(loose(n))
        for c in expr_children(n):
            rec(c)
    rec(s)
    return len(seen)


def ref_flops(s, cse_aware):
    seen = set()

    def rec(n):
        t = n[0]
        kids = expr_children(n)
        if t == "CommonSubexpression" and cse_aware:
            k = loose(n)
            if k in seen:
                return 0
            seen.add(k)
        own = 0
        if t in ("Sum", "Product"):
            own = max(len(kids) - 1, 0)
        elif t in ("Quotient", "FloorDiv", "Power"):
            own = 1
        return own + sum(rec(c) for c in kids)
    return rec(s)

# }}}


def wide_failure(n):
    """(v0 + ... + v_n-1) / (v0 * ... * v_n-1) + arr[v0 + ... + v_n-1]: more than n distinct
    nodes, every variable and the sum occurring again later.  Exact results are known in closed
    form."""
    import pymbolic.primitives as p
    from pymbolic.mapper.dependency import CachedDependencyMapper, DependencyMapper
    from pymbolic.mapper.flop_counter import CSEAwareFlopCounter, FlopCounter
    from pymbolic.mapper.analysis import get_num_nodes
    vs = tuple(p.Variable(f"v{i}") for i in range(n))
    expr = p.Sum((p.Quotient(p.Sum(vs), p.Product(vs)), p.Subscript(p.Variable("arr"), p.Sum(vs))))
    got = get_num_nodes(expr)
    want = n + 1 + 1 + 1 + 1 + 1 + 1      # variables, sum, product, quotient, arr, subscript, root
    if got != want:
        return ("node-count", f"{n} distinct operands: {got} nodes counted, {want} distinct "
                "subexpressions")
    flops = (n - 1) + (n - 1) + 1 + (n - 1) + 1
    for cls in (FlopCounter, CSEAwareFlopCounter):
        g = cls()(expr)
        if g != flops:
            return ("flops", f"{cls.__name__}: {g} flops, expected {flops}")
    for cls in (DependencyMapper, CachedDependencyMapper):
        d = cls(composite_leaves=False)(expr)
        if d != {*vs, p.Variable("arr")}:
            return ("dependencies", f"{cls.__name__}: {len(d)} dependencies, expected {n + 1}")
    return None


def truthy_failure(fl):
    """The boolean flags given as equal non-bool values (1 / 0, numpy.bool_): the constructor
    accepts them, so they mean what True / False mean."""
    import numpy as np
    from pymbolic.mapper.dependency import CachedDependencyMapper, DependencyMapper

    from vf.spec import CSE, Call, Look, Prod, Sub, Sum
    x, y = V("x"), V("y")
    spec = Sum(Sub(V("arr"), Sum(x, C(1))), Look(V("obj"), "a"), Call(V("f"), Prod(x, y)),
               ("CallWithKwargs", V("g"), ("tuple", x), ("map", ("k", y))), CSE(Sum(x, y), "p"))
    want = {sort_maps(w) for w in ref_dependencies(spec, dict(fl))}
    for style in ("int", "numpy"):
        conv = (lambda v: int(v)) if style == "int" else (lambda v: np.bool_(v))
        kw = {k: (conv(v) if isinstance(v, bool) else v) for k, v in fl.items()
              if k != "composite_leaves"}
        for cls in (DependencyMapper, CachedDependencyMapper):
            try:
                got = {sort_maps(to_spec(g)) for g in cls(**kw)(build(spec))}
            except AssertionError:
                continue            # the constructor refused the value: nothing is claimed
            if got != want:
                return ("truthy-flag", f"{cls.__name__} with {style} flags {kw}: "
                        f"{sorted(show(g) for g in got)}, with bools "
                        f"{sorted(show(w) for w in want)}")
    return None


def polynode_failure(i):
    """Polynomial nodes (unhashable: plain analyses only): the coefficients are expressions and
    are analysed, the exponents are not."""
    import pymbolic.primitives as p
    from pymbolic.mapper.dependency import DependencyMapper
    from pymbolic.polynomial import Polynomial
    x, y, z = p.Variable("x"), p.Variable("y"), p.Variable("z")
    ai = p.Subscript(p.Variable("a"), p.Variable("i"))
    polys = [
        (Polynomial(x, ((0, p.Product((y, z))), (2, p.Sum((z, 1))), (3, ai))), {x, y, z, ai}),
        (Polynomial(x, ((1, y),)), {x, y}),
        (Polynomial(p.Sum((x, y)), ((0, 5), (4, z))), {x, y, z}),
        (Polynomial(x, ((0, 1), (1, 2))), {x}),
    ]
    poly, want = polys[i]
    for wrap in (lambda q: q, lambda q: p.Sum((q, p.Variable("w")))):
        e = wrap(poly)
        w = set(want) | ({p.Variable("w")} if e is not poly else set())
        try:
            got = DependencyMapper()(e)
        except RecursionError:
            raise
        except Exception as ex:  # noqa: BLE001
            return ("polynomial", f"dependency analysis of {e!r} raised {ex!r}")
        if got != w:
            return ("polynomial", f"dependencies of {e!r}: {sorted(map(str, got))}, expected "
                    f"{sorted(map(str, w))}")
    return None


_IFPOS = {}


def _ifpos_class():
    """A user node that the flop counters' map_if_positive handles (criterion, then, else_)."""
    if "cls" not in _IFPOS:
        import pymbolic.primitives as p

        @p.expr_dataclass()
        class IfPositive(p.Expression):
            criterion: object
            then: object
            else_: object
        _IFPOS["cls"] = IfPositive
    return _IFPOS["cls"]


def ifpos_failure(i):
    """criterion + max(then, else); the CSE-aware counter charges a shared wrapper where it is
    met FIRST in the order criterion, then, else."""
    import pymbolic.primitives as p
    from pymbolic.mapper.flop_counter import CSEAwareFlopCounter, FlopCounter
    x, y, z = p.Variable("x"), p.Variable("y"), p.Variable("z")
    c = p.CommonSubexpression(p.Sum((p.Product((x, y)), p.Product((y, z)), 1)))
    pool = [c, p.Sum((p.Product((x, x)), y, z)), p.Sum((c, x))]
    crit, then, else_ = pool[i // 9], pool[(i // 3) % 3], pool[i % 3]
    expr = p.Sum((_ifpos_class()(crit, then, else_), c))

    def ref(e, seen):
        if isinstance(e, p.CommonSubexpression):
            if seen is not None:
                if e in seen:
                    return 0
                seen.add(e)
            return ref(e.child, seen)
        if isinstance(e, (p.Sum, p.Product)):
            return len(e.children) - 1 + sum(ref(ch, seen) for ch in e.children)
        if isinstance(e, _ifpos_class()):
            a = ref(e.criterion, seen)
            b = ref(e.then, seen)
            c_ = ref(e.else_, seen)
            return a + max(b, c_)
        return 0
    for cls, aware in ((FlopCounter, False), (CSEAwareFlopCounter, True)):
        got = cls()(expr)
        want = ref(expr, set() if aware else None)
        if got != want:
            return ("flops:if-positive", f"{cls.__name__}: {got} flops for {expr}, an independent "
                    f"count (criterion first) gives {want}")
    return None


def reconf_failure(fl):
    """The four include_* settings are plain public attributes: an instance whose attributes are
    set AFTER construction (a subclass does that after super().__init__()) analyses like one
    constructed with them."""
    from pymbolic.mapper.dependency import CachedDependencyMapper, DependencyMapper

    from vf.spec import CSE, Call, Look, Prod, Sub, Sum
    x, y = V("x"), V("y")
    spec = Sum(Sub(V("arr"), Sum(x, C(1))), Look(V("obj"), "a"), Call(V("f"), Prod(x, y)),
               ("CallWithKwargs", V("g"), ("tuple", x), ("map", ("k", y))), CSE(Sum(x, y), "p"))
    full = dict(fl)
    want = {sort_maps(w) for w in ref_dependencies(spec, full)}
    for cls in (DependencyMapper, CachedDependencyMapper):
        for start in ({}, dict(include_calls=DESCEND), dict(include_calls=False,
                                                              include_subscripts=False)):
            m = cls(**start)
            for k in ("include_subscripts", "include_lookups", "include_calls", "include_cses"):
                setattr(m, k, fl[k])
            got = {sort_maps(to_spec(g)) for g in m(build(spec))}
            if got != want:
                return ("reconfigured", f"{cls.__name__}({start}) with the attributes then set to "
                        f"{fl}: {sorted(show(g) for g in got)}, a mapper constructed with them "
                        f"gives {sorted(show(w) for w in want)}")
    return None


def regconst_failure(phase, what):
    """Fraction constants in the tree; Fraction registered at run time (after the mapper modules
    were imported): while registered every analysis gives its exact result, otherwise the
    constant is refused."""
    from fractions import Fraction

    import pymbolic.primitives as p
    from pymbolic.mapper.dependency import CachedDependencyMapper, DependencyMapper
    from pymbolic.mapper.flop_counter import CSEAwareFlopCounter, FlopCounter
    from pymbolic.mapper.analysis import get_num_nodes

    from vf.regconst import constant_class_history
    x, y = p.Variable("x"), p.Variable("y")
    sub = p.Subscript(p.Variable("a"), y)
    expr = p.Sum((p.Product((Fraction(1, 2), x)), sub, Fraction(3, 4)))
    with constant_class_history(phase) as is_const:
        try:
            if what.startswith("dep"):
                cls = CachedDependencyMapper if what == "dep-cached" else DependencyMapper
                want = {x, sub}
                got = cls()(expr)
            elif what.startswith("flops"):
                cls = CSEAwareFlopCounter if what == "flops-cse" else FlopCounter
                want = 3
                got = cls()(expr)
            else:
                want = 8
                got = get_num_nodes(expr)
            res = ("ok", got)
        except RecursionError:
            raise
        except Exception as e:  # noqa: BLE001
            res = ("raised", type(e).__name__)
    if is_const and res != ("ok", want):
        return ("registered-constant", f"Fraction is registered: {what} gives {res}, expected "
                f"{want}")
    if not is_const and res[0] == "ok":
        return ("unregistered-constant-accepted", f"Fraction is not registered ({phase}) but "
                f"{what} returned {res[1]!r}")
    return None


def analyse(spec, r=None):
    """-> (kind, detail) or (None, '')"""
    from pymbolic.mapper.dependency import CachedDependencyMapper, DependencyMapper
    if unhashable_below_node(spec):
        return None, ""
    try:
        expr = build(spec)
    except Exception:  # noqa: BLE001
        return None, ""
    tags = set()

    def _occ(n):
        tags.add(base_view(n)[0])
        for c_ in expr_children(n):
            _occ(c_)
    _occ(spec)                  # tags of expression occurrences (payload tuples do not count)
    hashable = not any(c[0] in ("list", "array") for c in walk(spec))

    # ---- dependencies -----------------------------------------------------------------------
    if not (tags & set(NO_HANDLER)):
        for fl in FLAGS:
            want = {sort_maps(w) for w in ref_dependencies(spec, fl)}
            for cached in (False, True):
                if cached and not hashable:
                    continue
                cls = CachedDependencyMapper if cached else DependencyMapper
                try:
                    got = cls(**fl)(expr)
                    gots = {to_spec(g) for g in got}
                    bad = (gots != want or len(got) != len(gots)
                           or not isinstance(got, (set, frozenset)))
                except RecursionError:
                    raise
                except Exception as e:  # noqa: BLE001
                    gots, bad = f"raised {type(e).__name__}: {e}", True
                if r is not None:
                    r.evals += 1
                    r.count("dependency_checks")
                if bad:
                    flags = ",".join(f"{k[8:] if k.startswith('include_') else k}={v}"
                                     for k, v in fl.items())
                    kind = "dependencies" + (":cached" if cached else "")
                    return kind, (f"flags {flags}: expected "
                                  f"{sorted(show(w) for w in want)} got "
                                  f"{sorted(show(g) for g in gots) if isinstance(gots, set) else gots}")
        # all composite kinds off == the variable set; evaluation needs exactly those
        names = {v[1][1] for v in ref_dependencies(spec, dict(
            include_subscripts=False, include_lookups=False, include_calls=False,
            include_cses=False, composite_leaves=False))}
        if names != set(variables_of(spec)):
            return "variable-set", f"oracle mismatch {names} vs {variables_of(spec)}"
        if not (tags & {"If", "LogicalOr", "LogicalAnd", "Slice", "Wildcard", "DotWildcard",
                        "StarWildcard", "FunctionSymbol"}):
            env = base_env()
            env.update({n: 2 for n in names if n not in env})
            env = {n: env[n] for n in names}
            full = refsem.outcome(refsem.evaluate, spec, dict(env))
            if full[0] == "ok":
                for n in names:
                    e2 = {k: v for k, v in env.items() if k != n}
                    o = refsem.outcome(refsem.evaluate, spec, e2)
                    if not (o[0] == "err" and o[1] == "UnknownVariable" and o[2] == n):
                        return "needed-variable", (f"variable {n} reported but evaluation "
                                                   f"without it gives {refsem.show_outcome(o)}")
    elif hashable:
        for cls in (DependencyMapper, CachedDependencyMapper):
            try:
                cls(composite_leaves=False)(expr)      # descends everywhere
            except (ValueError, NotImplementedError):
                pass
            except RecursionError:
                raise
            except Exception as e:  # noqa: BLE001
                return "unsupported-not-reported", f"{cls.__name__} raised {type(e).__name__}: {e}"
            else:
                return "unsupported-not-reported", (f"{cls.__name__} silently accepted a node type "
                                                    "it has no handler for")

    # ---- node count -----------------------------------------------------------------------------
    if hashable and not (tags & set(COUNT_EXCLUDED)) and not (tags & {"NaN"}) \
            and not has_lib_equal_twins(spec):
        from pymbolic.mapper.analysis import get_num_nodes
        want = ref_node_count(spec)
        try:
            got = get_num_nodes(expr)
        except RecursionError:
            raise
        except Exception as e:  # noqa: BLE001
            got = f"raised {type(e).__name__}: {e}"
        if r is not None:
            r.evals += 1
            r.count("node_count_checks")
        if got != want:
            return "node-count", f"expected {want} distinct subexpressions, got {got}"

    # ---- flops ------------------------------------------------------------------------------------
    if hashable and tags <= set(FLOP_TAGS) | {"Variable", "int", "float", "bool", "complex"}:
        from pymbolic.mapper.flop_counter import CSEAwareFlopCounter, FlopCounter
        for name, cls, aware in (("FlopCounter", FlopCounter, False),
                                 ("CSEAwareFlopCounter", CSEAwareFlopCounter, True)):
            want = ref_flops(spec, aware)
            try:
                got = cls()(expr)
            except RecursionError:
                raise
            except Exception as e:  # noqa: BLE001
                got = f"raised {type(e).__name__}: {e}"
            if r is not None:
                r.evals += 1
                r.count("flop_checks")
            if got != want:
                return f"flops:{name}", f"expected {want} flops, got {got}"
    return None, ""


class C09(Check):
    pid = "C09"
    # the analyses memoize: python -O must not change what they return
    interp_modes = {"quick": ["", "-O"], "thorough": ["", "-O"]}
    level = "exploration"
    rule = ("bounded-exhaustive: every constructor shape (all node types with a handler) with "
            "every leaf combination, every (parent, position, child) nesting, three-level chains "
            "over {call, call-with-kwargs, subscript (scalar/tuple), lookup, CSE (with/without "
            "prefix), sum, power, conditional, slice, tuple}; plus sharing families (the same CSE "
            "twice, equal-but-not-identical subtrees); each x all 72 flag vectors x cached/uncached "
            "dependency mapper, the node counter and both flop counters; plus all length-3 "
            "one tree with 1100 (thorough 300 / 1100 / 2100) distinct operands that all occur again "
            "(closed-form node count, flops, dependencies); Fraction constants before / while / after "
            "Fraction is registered as a constant class at run time; instances whose four include_* "
            "attributes are set after construction (24 settings x 3 starting configurations); a user "
            "if_positive node with criterion / branches from a pool with a shared wrapper (27); the "
            "boolean flags given as 1 / 0 and numpy.bool_; polynomial nodes with expression "
            "coefficients; the whole check also under python -O; "
            "histories of 10 expressions (the caller adds an element to every set a plain analysis "
            "returns; the include_calls option is an equal, non-interned string) on ONE analysis instance (plain and cached dependency "
            "mapper under 4 flag settings, flop counter), each result compared with a fresh "
            "analysis. Non-trivial = the tree "
            "contains a subscript, lookup, call or CSE, or a repeated subtree; distinct = distinct "
            "trees.")
    assumptions = [
        "a Remainder node is none of 'additions, multiplications, divisions and powers': it costs "
        "nothing itself, its operands are counted; tuple/list/array containers are left out of the node-count alphabet; trees "
        "with == but differently typed twin subtrees are left out of the node count",
        "node types without a handler (Substitution, Derivative) must be reported by raising",
    ]
    chunk = 20

    def families(self, tier):
        leaves = [V("x"), V("y"), C(2), C(0)] if tier == "quick" else [
            V("x"), V("y"), C(2), C(0), C(1.0), C(True), C(0.0)]
        fams = [
            ("depth2", lambda: (("t", s) for s in gen.depth2(gen.ALL_CTORS, leaves))),
            ("nest2", lambda: (("t", s) for _, s in gen.nest2(gen.ALL_CTORS, gen.ALL_CTORS))),
            ("hash-twins", lambda: (("t", s) for s in gen.twin_trees())),
            ("typed-twins", lambda: (("t", s) for s in gen.twin_trees(
                gen.TYPED_TWINS, V("x"), V("y")))),
            ("sharing", self.gen_sharing),
            ("wide", lambda: (("wide", n) for n in ((1100,) if tier == "quick"
                                                    else (300, 1100, 2100)))),
            ("registered-constant-class", self.gen_regconst),
            ("if-positive", lambda: (("ifpos", i) for i in range(27))),
            ("truthy-flags", lambda: (("truthy", i) for i in range(len(FLAGS))
                                      if FLAGS[i]["composite_leaves"] is None)),
            ("polynomial-nodes", lambda: (("polynode", i) for i in range(4))),
            ("reconfigured", lambda: (("reconf", i) for i in range(len(FLAGS))
                                      if FLAGS[i]["composite_leaves"] is None)),
            ("instance-histories", self.gen_histories),
            ("nest3", lambda: (("t", s) for _, s in gen.nest3(N3, N3, N3))),
        ]
        return fams

    def gen_sharing(self):
        from vf.spec import CSE, Call, Look, Pow, Prod, Quot, Sub, Sum, T
        x, y = V("x"), V("y")
        cse = CSE(Sum(x, Prod(y, C(2))))
        csep = CSE(Sum(x, Prod(y, C(2))), "p")
        call = Call(V("f"), Sum(x, y))
        pool = [cse, csep, call, Sub(V("arr"), Sum(x, C(1))), Look(V("obj"), "a"), Sum(x, y),
                Pow(x, C(2)), Quot(Sum(x, y), Sum(x, y)), CSE(cse), CSE(call)]
        for a, b in itertools.product(pool, repeat=2):
            yield ("t", Sum(a, b))
            yield ("t", Prod(a, Pow(b, C(3))))
            yield ("t", T(a, b))
            yield ("t", Call(V("g"), a, b))
            yield ("t", CSE(Sum(a, Quot(b, a))))

    # -- one analysis instance applied to several expressions in turn -----------------------------
    def hist_pool(self):
        from vf.spec import CSE, Call, Prod, Sub, Sum
        x, y, z = V("x"), V("y"), V("z")
        cse = CSE(Sum(x, Prod(y, C(2))))
        return [Sum(x, y), Prod(x, z), x, Sum(cse, y), Prod(cse, z), Call(V("f"), Sum(x, y)),
                Sub(V("arr"), Sum(x, C(1))), CSE(Sum(x, y), "p"),
                # analyses whose whole result is the set made for one leaf
                C(2), CSE(C(1))]

    def gen_regconst(self):
        from vf.regconst import PHASES
        for phase in PHASES:
            for what in ("dep", "dep-cached", "flops", "flops-cse", "count"):
                yield ("regconst", phase, what)

    def gen_histories(self):
        n = len(self.hist_pool())
        for fi in range(4):
            for hist in itertools.product(range(n), repeat=3):
                yield ("hist", fi, hist)

    HIST_FLAGS = [dict(), dict(composite_leaves=False), dict(include_cses=True),
                  dict(include_calls=DESCEND, include_subscripts=False)]

    def check_history(self, r, fi, hist):
        from pymbolic.mapper.dependency import CachedDependencyMapper, DependencyMapper
        from pymbolic.mapper.flop_counter import CSEAwareFlopCounter, FlopCounter
        pool = self.hist_pool()
        fl = self.HIST_FLAGS[fi]
        full = dict(include_subscripts=True, include_lookups=True, include_calls=True,
                    include_cses=False, composite_leaves=None)
        full.update(fl)
        for cls in (DependencyMapper, CachedDependencyMapper):
            m = cls(**fl)
            for step, i in enumerate(hist):
                got = m(build(pool[i]))
                r.evals += 1
                want = {sort_maps(w) for w in ref_dependencies(pool[i], full)}
                got_specs = {sort_maps(to_spec(g)) for g in got}
                if cls is DependencyMapper and pool[i][0] != "CommonSubexpression":
                    # the result of a non-memoizing analysis is the caller's own set: what the
                    # caller does to it must not show up in any later analysis (a wrapper's set
                    # is kept by the instance and handed out by reference, like a memo entry)
                    got.add(("poison", step))
                if got_specs != want:
                    return (f"history:{cls.__name__}", step,
                            f"flags {fl}: call {step} on {show(pool[i])} after "
                            f"{[show(pool[j]) for j in hist[:step]]} returned "
                            f"{sorted(show(to_spec(g)) for g in got)}, a fresh analysis gives "
                            f"{sorted(show(w) for w in want)}")
        if fi == 0:
            m = FlopCounter()
            for step, i in enumerate(hist):
                got = m(build(pool[i]))
                r.evals += 1
                if got != ref_flops(pool[i], False):
                    return ("history:FlopCounter", step,
                            f"call {step} on {show(pool[i])}: {got} flops, expected "
                            f"{ref_flops(pool[i], False)}")
        return None

    def check_item(self, family, item, tier):
        r = Res()
        if item[0] == "wide":
            r.evals += 1
            r.keys.append(item)
            f = wide_failure(item[1])
            if f:
                r.fail(f[0], f"{f[0]}|n={item[1]}", f[1])
            return r
        if item[0] == "truthy":
            r.evals += 1
            r.keys.append(item)
            f = truthy_failure(FLAGS[item[1]])
            if f:
                r.fail(f[0], f"{f[0]}|{sorted((k, str(v)) for k, v in FLAGS[item[1]].items())}", f[1])
            return r
        if item[0] == "polynode":
            r.evals += 1
            r.keys.append(item)
            f = polynode_failure(item[1])
            if f:
                r.fail(f[0], f"{f[0]}|polynomial {item[1]}", f[1])
            return r
        if item[0] == "ifpos":
            r.evals += 1
            r.keys.append(item)
            f = ifpos_failure(item[1])
            if f:
                r.fail(f[0], f"{f[0]}|combination {item[1]}", f[1])
            return r
        if item[0] == "reconf":
            r.evals += 1
            r.keys.append(item)
            f = reconf_failure(FLAGS[item[1]])
            if f:
                r.fail(f[0], f"{f[0]}|{sorted((k, str(v)) for k, v in FLAGS[item[1]].items())}", f[1])
            return r
        if item[0] == "regconst":
            r.evals += 1
            r.keys.append(item)
            f = regconst_failure(item[1], item[2])
            if f:
                r.fail(f[0], f"{f[0]}|{item[1]}|{item[2]}", f[1])
            return r
        if item[0] == "hist":
            hist = tuple(item[2])
            f = self.check_history(r, item[1], hist)
            r.keys.append(item)
            r.count("histories")
            if f:
                pool = self.hist_pool()
                h = hist[:f[1] + 1]
                r.fail(f[0], f"{f[0]}|flags{item[1]}|" + ";".join(show(pool[i]) for i in h),
                       f[2], witness=("hist", item[1], h))
            return r
        spec = item[1]
        k, detail = analyse(spec, r)
        tags = {c[0] for c in walk(spec)}
        if tags & {"Subscript", "Lookup", "Call", "CallWithKwargs", "CommonSubexpression"}:
            r.keys.append(spec)
        if k:
            locs = localise(spec, lambda s: analyse(s)[0])
            if not locs:
                locs = [(k, f"{k}|{show(spec)}", spec)]
            for kk, sig, m in locs:
                d = analyse(m)[1]
                r.fail(kk, sig, f"in {show(spec)}: minimal failing tree {show(m)}: {d}",
                       witness=("t", m))
        return r


CHECK = C09()

"""C11 -- algebraic rewrites preserve value and reach their normal forms.

Engine A.  Three input spaces, all enumerated completely within named bounds:

* ``rf``  rational fragment (Sum, Product, Quotient, Power with integer literal exponents over
          x, y, 0, 1, 2, -1) to depth 3, plus deeper polynomial inputs (products / powers of sums):
          all eight rewriter configurations.  Value preservation is decided per instance by
          evaluating the input spec and ``to_spec(output)`` to exact rational functions
          (``vf.exact.RatFun``) with the small evaluator ``vf.c11_lib.xeval`` and comparing with
          ``==``; in addition the output must be defined and equal wherever the input is defined on
          a box of Fractions (a rewrite must not shrink the domain of definition).
* ``fa``  full evaluable alphabet: flatten and the two constant folders on every constructor
          shape / every (parent, position) around rewritable sums and products / every child type
          under a sum or product; value by ``vf.refsem`` on the box.
* ``nc``  sums and products over non-commuting atoms (``vf.exact.NCPoly``): flatten and the plain
          ConstantFoldingMapper must keep the order of factors (docstring of
          ``flattened_product``: "does not change the order of the terms in the products, so it does
          not require the product to be commutative").

Normal-form clauses are read structurally off ``to_spec(output)``.
"""
from __future__ import annotations

import functools
import itertools
import os
from fractions import Fraction

from vf import gen, refsem
from vf.c11_lib import (
    BIGPOW_NC_MAX, NotInFragment, bigpow, box_for, expand_nf, flatten_nf, float_literals,
    float_trees, fold_nf, history_pool, may_yield_floats,
    in_collector_fragment, is_closed, is_polynomial, is_rational, max_exponent, nc_eval,
    param_inputs, poly4, powpow, quotient_inputs, rename, rf_chain4, rf_depth2, rf_depth3,
    rf_value, xeval,
)
from vf.envs import SPECIAL_NAMES, base_env
from vf.exact import NCPoly
from vf.localise import localise
from vf.run import Check, Res
from vf.spec import C, S, T, V, build, canon_vars, show, to_spec, variables_of, walk

# {{{ bounds

FA_DOMAIN_2 = (-2, -1, 0, 1, 2, 3, Fraction(-3, 2), Fraction(1, 2), Fraction(5, 2))
FA_DOMAIN_3 = (-1, 0, 2, Fraction(1, 2))
FA_DOMAIN_N = (-1, 2, Fraction(1, 2))
FA_LEAVES_QUICK = (V("x"), V("y"), C(2), C(0), C(1))
FA_LEAVES_THOROUGH = (V("x"), V("y"), C(2), C(0), C(1), C(-1), C(2.5), C(True), C(1.0), C(0.0),
                      C(False))
NC_LEAVES = (V("x"), V("y"), V("z"), C(2), C(0), C(1))
FA_SP_TERNARY_EXTRA = {"quick": 6, "thorough": 12}   # composite members of the ternary pool
SMALL_DYADIC_SCALE = 64          # floats k/64 with |v| <= 4096 are computed exactly at depth <= 4
SMALL_DYADIC_MAX = 4096

# }}}

NOT_EVALUABLE = ("Substitution", "Derivative", "Slice", "Wildcard", "DotWildcard", "StarWildcard",
                 "FunctionSymbol")
EVAL_CTORS = gen.ctors(exclude_tags=NOT_EVALUABLE)
SYMBOLIC_PARENTS = gen.ctors(tags=("Substitution", "Derivative", "Slice"))
SP_CTORS = gen.ctors(names=("Sum2", "Sum3", "Product2", "Product3"))
# grandparents of the two-level chains around the kernels (quick / thorough)
QUICK_GP = gen.ctors(names=("Sum2", "Product2"))
REDUCED_GP = gen.ctors(names=("Call1", "CallKw11", "Subscript", "Sum2", "Product2",
                              "Product3", "Quotient", "FloorDiv", "Power", "LeftShift",
                              "BitwiseNot", "BitwiseXor2",
                              "Cmp<", "LogicalNot", "LogicalOr2", "If", "Min2", "Max3", "CSE",
                              "CSEp", "tuple2", "list2", "array1", "Derivative", "Slice2"))

RF_REWRITERS = ("flatten", "fold", "cfold", "collect", "collect_y", "expand", "distribute_y",
                "distribute_nc")
FA_REWRITERS = ("flatten", "fold", "cfold")
NC_REWRITERS = ("flatten", "fold")


# configurations whose result grows exponentially with the exponent (no merging of like terms /
# coefficients kept as unexpanded sums): only run up to exponent BIGPOW_NC_MAX
BIGPOW_HEAVY = ("distribute_nc", "distribute_y")
# collect_<letters> / distribute_<letters>: the variables declared parameters (coefficients); the
# letters x, y stand for these variable names (the history family renames them)
PARAMETER = {"x": "x", "y": "y"}
# the option dimension "parameters" in full: every subset of {x, y}, collector and distributor
RFP_REWRITERS = ("collect", "collect_x", "collect_y", "collect_xy",
                 "expand", "distribute_x", "distribute_y", "distribute_xy")


def parameter_set(rw):
    from pymbolic.primitives import Variable
    return frozenset(Variable(PARAMETER[c]) for c in rw.partition("_")[2])


def apply_rewriter(rw, expr):
    """The code under test."""
    import pymbolic
    from pymbolic.mapper.collector import TermCollector
    from pymbolic.mapper.constant_folder import (
        CommutativeConstantFoldingMapper, ConstantFoldingMapper)
    if rw == "flatten":
        return pymbolic.flatten(expr)
    if rw == "fold":
        return ConstantFoldingMapper()(expr)
    if rw == "cfold":
        return CommutativeConstantFoldingMapper()(expr)
    if rw == "collect":
        return TermCollector()(expr)
    if rw.startswith("collect_"):
        return TermCollector(set(parameter_set(rw)))(expr)
    if rw == "expand":
        return pymbolic.expand(expr)
    if rw.startswith("distribute_") and rw != "distribute_nc":
        return pymbolic.distribute(expr, parameters=parameter_set(rw))
    if rw == "distribute_nc":
        return pymbolic.distribute(expr, commutative=False)
    raise ValueError(rw)


# {{{ well-formedness of inputs (fa mode)

def unhashable_below_node(s) -> bool:
    def rec(c, below):
        if c[0] in ("list", "array") and below:
            return True
        nb = below or c[0][0].isupper()
        return any(rec(x, nb) for x in c[1:]
                   if isinstance(x, tuple) and x and isinstance(x[0], str))
    return rec(s, False)


_NON_SCALAR = ("tuple", "list", "array", "str", "none", "Slice", "map", "dict", "type")


def arithmetic_operands_ok(s) -> bool:
    """Operands of sums and products are scalar-valued expressions ("exact commutative
    arithmetic"): no containers, slices or holes directly under a Sum / Product."""
    for c in walk(s):
        if c[0] in ("Sum", "Product") and len(c) == 2 and c[1][0] == "tuple":
            if any(k[0] in _NON_SCALAR for k in c[1][1:]):
                return False
    return True


def constant_operand(k) -> bool:
    """A variable-free operand that has a value (reference semantics)."""
    if not is_closed(k):
        return False
    return refsem.outcome(refsem.evaluate, k, {})[0] == "ok"


def has_dead_closed_operand(s) -> bool:
    """A variable-free operand of a Sum/Product that does not evaluate (e.g. 1/0): the input
    itself evaluates nowhere such an operand is reached -- outside the property."""
    for c in walk(s):
        if c[0] in ("Sum", "Product") and len(c) == 2 and c[1][0] == "tuple":
            for k in c[1][1:]:
                if k[0] not in ("int", "float", "bool", "complex") and is_closed(k) \
                        and refsem.outcome(refsem.evaluate, k, {})[0] != "ok":
                    return True
    return False

# }}}


def _nf(rw, out_spec):
    if rw == "flatten":
        return flatten_nf(out_spec)
    if rw == "fold":
        return fold_nf(out_spec, ("Sum",), constant_operand)
    if rw == "cfold":
        return fold_nf(out_spec, ("Sum", "Product"), constant_operand)
    return None


def out_spec(o):
    """vf.spec.to_spec, except that a keyword-argument mapping keeps the order the node holds it
    in (to_spec sorts the keys; the reference functions of vf.envs weight keyword arguments by
    arrival order, so a sorted reading would look like a changed value)."""
    import numpy as np
    from immutabledict import immutabledict

    from pymbolic.primitives import Expression
    from vf.spec import class_tag, node_fields
    if isinstance(o, Expression):
        return (class_tag(type(o)), *[out_spec(f) for f in node_fields(o)])
    if isinstance(o, immutabledict):
        return ("map", *[(k, out_spec(v)) for k, v in o.items()])
    if isinstance(o, tuple):
        return ("tuple", *[out_spec(c) for c in o])
    if isinstance(o, list):
        return ("list", *[out_spec(c) for c in o])
    if isinstance(o, np.ndarray):
        return ("array", tuple(o.shape), *[out_spec(o[i]) for i in np.ndindex(o.shape)])
    return to_spec(o)


def _run(rw, spec):
    """-> (outcome of the rewriter, output spec or None)"""
    try:
        expr = build(spec)
    except Exception:  # noqa: BLE001
        return None, None
    o = refsem.outcome(apply_rewriter, rw, expr)
    if o[0] == "err":
        return o, None
    return o, out_spec(o[1])


# {{{ rf mode

@functools.lru_cache(maxsize=2048)
def rf_input(spec):
    """-> None (not an input: outside the fragment or evaluating nowhere) or
    (names, RatFun, [(env, value)] where defined on the box)."""
    if not is_rational(spec):
        return None
    names = tuple(variables_of(spec))
    try:
        v = rf_value(spec, names)
    except (ZeroDivisionError, NotInFragment):
        return None
    pts = []
    for env in box_for(names):
        try:
            pts.append((env, xeval(spec, env)))
        except ZeroDivisionError:
            pass
    return names, v, tuple(pts)


@functools.lru_cache(maxsize=256)
def rf_compare(spec, out):
    """Value comparison of an input and an output spec -> None or (what, detail)."""
    names, want, pts = rf_input(spec)
    names_out = tuple(dict.fromkeys(names + tuple(variables_of(out))))
    try:
        got = rf_value(out, names_out)
    except ZeroDivisionError:
        return "value", "which is defined nowhere"
    except NotInFragment as e:
        return "value", f"which is not a rational expression ({e})"
    if not (got == want):
        return "value", f"= {got!r}; the input is {want!r}"
    for env, v in pts:
        at = {k: str(x) for k, x in env.items()}
        try:
            w = xeval(out, env)
        except ZeroDivisionError:
            return "domain", f"is undefined at {at} where the input is {v}"
        if w != v:
            return "value", f"= {w} at {at}; the input is {v} there"
    fl = float_literals(out)
    if fl and not may_yield_floats(spec):
        # no float literal and no variable-free division in the input: nothing licenses Python's
        # float arithmetic, float constants of the output count as the exact dyadics they are
        if not (rf_value(out, names_out, face_value=True) == want):
            return "inexact", (f"contains the rounded float constant(s) {fl[:2]!r} although the "
                               "input has only integer constants and no variable-free division: "
                               "an exact value silently became an approximation")
    return None


def judge_rf(rw, spec):
    """-> (kind or None, detail, changed?)"""
    info = rf_input(spec)
    if info is None:
        return None, "", False
    names, want, pts = info
    o, out = _run(rw, spec)
    if o is None:
        return None, "", False
    if o[0] == "err":
        if rw.startswith("collect") and not in_collector_fragment(spec) \
                and o[1] == "RuntimeError":
            return None, "", False          # documented precondition of TermCollector
        return f"{rw}:raises:{o[1]}", f"{rw} raised {o[1]}: {o[2]}", False
    if out != spec:
        bad = rf_compare(spec, out)
        if bad:
            return f"{rw}:{bad[0]}", f"{rw} -> {show(out)} {bad[1]}", True
    names_out = tuple(dict.fromkeys(names + tuple(variables_of(out))))
    nf = _nf(rw, out)
    if nf is None and rw == "expand" and is_polynomial(spec):
        nf = expand_nf(out, want.n, names_out)
    if nf:
        return f"{rw}:nf:{nf}", f"{rw} -> {show(out)} violates normal-form clause {nf}", True
    return None, "", out != spec

# }}}


# {{{ fa mode

def fa_domain(n):
    return FA_DOMAIN_2 if n <= 2 else (FA_DOMAIN_3 if n == 3 else FA_DOMAIN_N)


def fa_wellformed(spec) -> bool:
    return not unhashable_below_node(spec) and arithmetic_operands_ok(spec) \
        and not has_dead_closed_operand(spec)


class _Inexact:
    def __init__(self):
        self.flag = False

    def __call__(self, s, v):
        if isinstance(v, complex):
            self.flag = True
        elif isinstance(v, float) and v == v:
            if abs(v) > SMALL_DYADIC_MAX or not (v * SMALL_DYADIC_SCALE).is_integer():
                self.flag = True


def judge_fa(rw, spec):
    if not fa_wellformed(spec):
        return None, "", False
    o, out = _run(rw, spec)
    if o is None:
        return None, "", False
    if o[0] == "err":
        return f"{rw}:raises:{o[1]}", f"{rw} raised {o[1]}: {o[2]}", False
    names = [v for v in variables_of(spec) if v not in SPECIAL_NAMES]
    compared = False
    box = itertools.product(fa_domain(len(names)), repeat=len(names)) if out != spec else ()
    for vals in box:
        env = base_env()
        env.update(zip(names, vals))
        guard = _Inexact()
        ref = refsem.outcome(refsem.evaluate, spec, env, guard)
        if ref[0] != "ok" or guard.flag:
            continue                        # input does not evaluate here / inexact floats
        env2 = base_env()
        env2.update(zip(names, vals))
        got = refsem.outcome(refsem.evaluate, out, env2)
        compared = True
        if not refsem.outcomes_equal(ref, got):
            return (f"{rw}:value", f"{rw} -> {show(out)}; at {dict(zip(names, map(str, vals)))} "
                    f"input {refsem.show_outcome(ref)} output {refsem.show_outcome(got)}", True)
    nf = _nf(rw, out)
    if nf:
        return f"{rw}:nf:{nf}", f"{rw} -> {show(out)} violates normal-form clause {nf}", True
    return None, "", compared and out != spec

# }}}


# {{{ nc mode

def judge_nc(rw, spec):
    names = variables_of(spec)
    env = {n: NCPoly.gen(n) for n in names}
    try:
        want = nc_eval(spec, env)
    except NotInFragment:
        return None, "", False
    o, out = _run(rw, spec)
    if o is None:
        return None, "", False
    if o[0] == "err":
        return f"{rw}:raises:{o[1]}", f"{rw} raised {o[1]}: {o[2]}", False
    try:
        got = nc_eval(out, {n: NCPoly.gen(n) for n in dict.fromkeys(names + variables_of(out))})
    except NotInFragment as e:
        return f"{rw}:order", f"{rw} -> {show(out)} not a polynomial expression ({e})", True
    if not (got == want):
        return (f"{rw}:order", f"{rw} -> {show(out)} = {got!r} over non-commuting atoms; "
                f"the input is {want!r}", True)
    return None, "", out != spec

# }}}


JUDGES = {"rf": (judge_rf, RF_REWRITERS), "rfp": (judge_rf, RFP_REWRITERS),
          "rfc": (judge_rf, FA_REWRITERS),
          "fa": (judge_fa, FA_REWRITERS), "nc": (judge_nc, NC_REWRITERS)}


# {{{ fa enumerators

def rewritable_kernels():
    x, y = V("x"), V("y")
    return [
        ("Sum", T(("Sum", T(x, y)), C(0), C(2), C(3))),
        ("Product", T(("Product", T(x, y)), C(1), C(2), C(3))),
        ("Sum", T(x, ("Power", C(2), C(3)), C(2))),
        ("Product", T(C(2), ("Sum", T(x, C(0), ("Product", T(C(1), y)))), C(3))),
    ]


def collapsing_kernels():
    """Operands that a rewriter turns into one of the boundary constants 0 and 1 (the values the
    smart constructors / operators treat specially)."""
    x = V("x")
    return [
        ("Product", T(C(0), x)),        # -> 0 (flatten, commutative folder)
        ("Sum", T(C(0), C(0))),         # -> 0 (all three)
        ("Sum", T(C(1), C(-1))),        # -> 0 (folders)
        ("Product", T(C(1), C(1))),     # -> 1 (flatten, commutative folder)
        ("Sum", T(C(2), C(-1))),        # -> 1 (folders)
    ]


def fa_around_kernels(parents, kernels=None, sibling_start=2):
    """Every (parent, expression position) with each rewritable kernel in that position; the
    parent's other slots hold the default leaves from *sibling_start* on (2: z, 2, 3; 1: y, z, 2
    -- variable siblings)."""
    for pc in parents:
        for pos, kind in enumerate(pc.slots):
            if kind not in ("e", "b"):
                continue
            for k in (kernels or rewritable_kernels()):
                ch = gen.fill_slots(pc, None, sibling_start)
                ch[pos] = k
                yield pc(*ch)


def fa_around_kernels2(gps, parents):
    """Every (grandparent, position, parent, position) chain around each kernel (thorough)."""
    for gc in gps:
        for gpos, gkind in enumerate(gc.slots):
            if gkind not in ("e", "b"):
                continue
            for mid in fa_around_kernels(parents):
                ch = gen.fill_slots(gc, None, 1)
                ch[gpos] = mid
                yield gc(*ch)


def fa_sp_trees(leaves, n_small):
    """Sums/products of sums/products with typed neutral elements: every binary/ternary parent
    over (leaves + binary sums/products of leaves)."""
    pool = list(leaves)
    for tag in ("Sum", "Product"):
        for a, b in itertools.product(leaves, repeat=2):
            pool.append((tag, T(a, b)))
    for tag in ("Sum", "Product"):
        for a, b in itertools.product(pool, repeat=2):
            yield (tag, T(a, b))
    with_var = [p_ for p_ in pool[len(leaves):]
                if p_[1][1][0] == "Variable" or p_[1][2][0] == "Variable"]
    small = pool[:len(leaves)] + with_var[:n_small]
    for tag in ("Sum", "Product"):
        for a, b, c in itertools.product(small, repeat=3):
            yield (tag, T(a, b, c))


def fa_closed_children():
    """Folding of composite variable-free operands with exactly representable values."""
    x = V("x")
    closed = [C(2), C(-1), C(2.5), C(True), ("Power", C(2), C(3)), ("Quotient", C(3), C(2)),
              ("Product", T(C(2), C(3))), ("Sum", T(C(1), C(2))), ("Min", T(C(2), C(3))),
              ("Comparison", C(2), S("<"), C(3)), ("If", C(True), C(2), C(3)),
              ("FloorDiv", C(7), C(2)), ("LeftShift", C(1), C(3)), ("BitwiseNot", C(2)),
              ("CommonSubexpression", C(2), ("none",), S("pymbolic_eval")), ("NaN", ("none",))]
    for tag in ("Sum", "Product"):
        for a, b in itertools.product(closed, repeat=2):
            yield (tag, T(x, a, b))
            yield (tag, T(a, x, b))
        for a in closed:
            yield (tag, T(a, x))
            yield (tag, T(x, a))
            yield (tag, T(a, ("Call", V("f"), T(x))))

# }}}


# {{{ nc enumerators

def nc_trees(tier):
    cs = SP_CTORS
    yield from gen.depth2(cs, list(NC_LEAVES))
    for _, s in gen.nest2(cs, cs):
        yield s
    lv = [V("x"), V("y"), V("z"), C(2)]
    pool = list(lv)
    for tag in ("Sum", "Product"):
        for a, b in itertools.product(lv, repeat=2):
            pool.append((tag, T(a, b)))
    for tag in ("Sum", "Product"):
        for a, b in itertools.product(pool, repeat=2):
            yield (tag, T(a, b))
    if tier != "quick":
        small = lv + [("Product", T(V("x"), V("y"))), ("Sum", T(V("x"), V("y"))),
                      ("Product", T(C(2), V("z"))), ("Power", V("x"), C(2))]
        for tag in ("Sum", "Product"):
            for a, b, c in itertools.product(small, repeat=3):
                yield (tag, T(a, b, c))

# }}}


@functools.lru_cache(maxsize=50000)
def judge_cached(mode, rw, spec):
    """Memo for localisation: the same small subtrees / shrink candidates recur in many items."""
    return JUDGES[mode][0](rw, spec)


class C11(Check):
    pid = "C11"
    level = "exploration"
    rule = ("bounded-exhaustive. rf: every tree of depth <= 3 of the rational fragment (Sum, "
            "Product, Quotient, Power with literal exponent in -2..3) over x, y, 0, 1, 2, -1 "
            "[depth 2 complete incl. ternary; depth 3: every binary parent over the child pool "
            "squared, every literal power of a pool element, ternary parents over a small pool; "
            "quick uses a reduced child pool] plus depth-4 chains P(a, M(.., I(c, d))) with P, I "
            "sums/products and M a binary or single-operand sum/product, quotient or literal "
            "power (operands that only become a sum/product after being rewritten; nested "
            "sums/products beneath a non-sum/product operand) plus deeper polynomial inputs "
            "(products / powers / "
            "differences of sums) plus literal powers 4..9 "
            "(thorough 4..13) of four small sums and every power 10..40 (thorough ..66) of x+1, "
            "sums/products with float literals of boundary magnitude (2**-60, 2**-20, thorough "
            "also 2**30 and denormals) on which float arithmetic is exact (rf-floats), "
            "powers of powers (v**a)**b, (v**a * w)**b [thorough also three levels] as terms and "
            "as factors of terms next to plain terms, times a binomial and summed pairwise "
            "(rf-powpow), quotients of composite numerators by integers that are not powers of "
            "two, alone and under products, powers and quotients (rf-quot), and (rf-params) sums "
            "of monomials written with explicit power factors "
            "of both "
            "variables, "
            "their squares and products with a binomial, x TermCollector and distribute under "
            "every parameter subset of {x, y}; the other rf families "
            "each x 8 rewriter configurations (flatten, ConstantFolding, "
            "CommutativeConstantFolding, TermCollector with parameters {} and {y}, expand, "
            "distribute with parameters {y}, distribute non-commutative); fa: flatten and both "
            "folders on every evaluable constructor shape with every leaf combination, every "
            "(parent, position) with variable siblings around five operands that collapse to the "
            "boundary constants 0 / 1 (fa-collapse), every (parent, position) and (grandparent, "
            "position, parent, position) [grandparents: quick "
            "Sum2/Product2, thorough 25 shapes] around four rewritable kernels, every child "
            "type under a sum/product, sums/products with typed neutral elements, composite "
            "closed operands; nc: flatten and the plain folder on sums/products of non-commuting "
            "atoms. history: every ordered pair of (configuration, input) calls over a small "
            "input pool, executed as call 1, call 2, call 1 again in one process on variables "
            "no earlier call has seen (both calls judged by the oracle, the repetition must "
            "reproduce the same tree). The rf families (incl. history) run under each listed "
            "PYTHONHASHSEED (TermCollector iterates "
            "over frozensets), the fa / nc families under the first one. Non-trivial = the input "
            "evaluates (value comparison carried out) and the rewriter returned a tree different "
            "from its input; distinct = distinct (mode, rewriter, input tree).")
    assumptions = [
        "inputs whose exact value does not exist (division by the zero function, 0**negative, a "
        "variable-free operand such as 1/0 that does not evaluate) are outside the property "
        "('in every environment where the input evaluates')",
        "value equality in the rational fragment is identity of rational functions (RatFun, "
        "cross-multiplication) AND definedness+equality on the Fraction box wherever the input is "
        "defined; float constants in outputs (the folders evaluate int/int with Python's true "
        "division) are read as the unique rational with denominator <= 4096 next to them, "
        "unless they are dyadics with a mantissa of <= 32 bits (deliberate constants, exact); the "
        "rf-floats family only contains trees on which every combination of the constants by "
        "+ and * is exact in double arithmetic (rounding is not the subject)",
        "exactness: when the input has no float literal and no variable-free division (Quotient "
        "or negative literal power without variables), nothing licenses float arithmetic and "
        "float constants of the output are taken as the exact dyadic rationals they are (kind "
        "'inexact' if the value only matches after rounding); otherwise they are decoded as above",
        "TermCollector's fragment is its documented precondition: every summand of every sum is "
        "a product, a power, a quotient, a leaf or variable-free; on other inputs a RuntimeError "
        "is accepted, "
        "a returned result must still preserve the value",
        "fa mode: the alphabet is the evaluable one (DESIGN C11); operands of sums/products are "
        "scalar expressions (no containers/slices directly under a Sum/Product); Derivative, "
        "Substitution and Slice additionally occur as parents (structure-only checks, the "
        "reference semantics has no value for them); wildcard nodes are not inputs; "
        "environments in which the reference evaluation of the input meets a float that is not "
        "a small dyadic (k/64, |v| <= 4096) are skipped (rounding is not the subject)",
        "the normal-form clause of expand is demanded for polynomial inputs (no Quotient, "
        "non-negative literal exponents) and default parameters only; summands are read with "
        "nested sums flattened; the shape of a single term is not prescribed",
        "constant operand (fold clause) = variable-free operand that has a reference value",
        "history family: state keyed by expressions is made 'fresh' by using variables unique to "
        "the history (hx<i>, hy<i>); state not keyed by expressions (e.g. a global counter) is "
        "not reset between histories -- only a fresh process would do that",
        "nc mode goes beyond the literal statement: it holds flatten / ConstantFoldingMapper to "
        "the documented promise of flattened_product not to reorder factors (DESIGN 5 item 10)",
    ]
    hash_seeds = {"quick": [0, 1, 2], "thorough": [0, 1, 2, 3, 4, 5, 6, 7]}
    chunk = 48

    def families(self, tier):
        lv = list(FA_LEAVES_QUICK if tier == "quick" else FA_LEAVES_THOROUGH)
        fams = [
            ("rf-depth2", lambda: (("rf", s) for s in rf_depth2())),
            ("rf-depth3", lambda: (("rf", s) for s in rf_depth3(tier))),
            ("rf-chain4", lambda: (("rf", s) for s in rf_chain4(tier))),
            ("rf-poly4", lambda: (("rf", s) for s in poly4(tier))),
            ("rf-bigpow", lambda: (("rf", s) for s in bigpow(tier))),
            ("rf-floats", lambda: float_trees(tier)),
            ("rf-powpow", lambda: (("rf", s) for s in powpow(tier))),
            ("rf-quot", lambda: (("rf", s) for s in quotient_inputs(tier))),
            ("rf-params", lambda: (("rfp", s) for s in param_inputs(tier))),
            ("rf-history", lambda: self.gen_history(tier)),
            ("fa-depth2", lambda: (("fa", s) for s in gen.depth2(EVAL_CTORS, lv))),
            ("fa-kernels", lambda: (("fa", s) for s in
                                    fa_around_kernels(EVAL_CTORS + SYMBOLIC_PARENTS))),
            ("fa-collapse", lambda: (("fa", s) for s in fa_around_kernels(
                EVAL_CTORS, collapsing_kernels(), 1))),
            ("fa-children", lambda: (("fa", s) for _, s in gen.nest2(SP_CTORS, EVAL_CTORS))),
            ("fa-sp-trees", lambda: (("fa", s) for s in
                                     fa_sp_trees(lv[:7], FA_SP_TERNARY_EXTRA[tier]))),
            ("fa-closed", lambda: (("fa", s) for s in fa_closed_children())),
            ("nc", lambda: (("nc", s) for s in nc_trees(tier))),
        ]
        # kernels beneath any node type that is itself an operand of a sum / product (quick), or an
        # operand of any of 24 grandparent shapes (thorough)
        gps = QUICK_GP if tier == "quick" else REDUCED_GP
        fams.append(("fa-kernels2", lambda: (("fa", s) for s in fa_around_kernels2(
            gps, EVAL_CTORS + SYMBOLIC_PARENTS))))
        # The hash seed is a configuration dimension for the code that iterates over sets
        # (TermCollector and everything built on it).  The fa / nc families only run flatten and
        # the folders, which never iterate over a set (and which the rf families exercise under
        # every seed anyway): they are enumerated under the first listed seed only.
        first = str(self.hash_seeds[tier][0])
        if os.environ.get("PYTHONHASHSEED", first) != first:
            fams = [f for f in fams if f[0].startswith("rf-")]
        return fams

    def gen_history(self, tier):
        pool = history_pool(tier)
        calls = [(rw, s) for s in pool for rw in RF_REWRITERS]
        for idx, ((rw1, in1), (rw2, in2)) in enumerate(itertools.product(calls, repeat=2)):
            yield ("hist", idx, rw1, in1, rw2, in2)

    def check_history(self, item):
        """(hist, index, cfg1, input1, cfg2, input2): call 1, call 2, call 1 again -- on variables
        no earlier call in this process has seen (class- or module-level state keyed by
        expressions cannot already know them).  Both calls are judged by the oracle; the
        repetition of call 1 must give the identical tree."""
        r = Res()
        _, idx, rw1, in1, rw2, in2 = item
        names = {"x": f"hx{idx}", "y": f"hy{idx}"}
        s1, s2 = rename(in1, names), rename(in2, names)
        PARAMETER.update(names)
        try:
            what = f"{rw1}({show(canon_vars(in1))}) then {rw2}({show(canon_vars(in2))})"
            k1, d1, _ = judge_rf(rw1, s1)
            _, out1 = _run(rw1, s1)
            k2, d2, changed = judge_rf(rw2, s2)
            _, out1b = _run(rw1, s1)
            r.evals += 4
            if changed:
                r.keys.append(("hist", rw1, in1, rw2, in2))
            if k1:
                r.fail(f"history-first:{k1}", f"history-first:{k1}|{what}", d1)
            if k2:
                r.fail(f"history:{k2}", f"history:{k2}|{what}",
                       f"second call of the history: {d2}")
            if out1 != out1b:
                r.fail("history:not-repeatable", f"history:not-repeatable|{what}",
                       f"{rw1} gave {show(out1) if out1 else out1} before and "
                       f"{show(out1b) if out1b else out1b} after the call of {rw2}")
        finally:
            PARAMETER.update(x="x", y="y")
        return r

    def check_item(self, family, item, tier):
        if item[0] == "hist":
            return self.check_history(item)
        r = Res()
        mode, spec = item[0], item[1]
        judge, rws = JUDGES[mode]
        for rw in rws:
            if rw in BIGPOW_HEAVY and family == "rf-bigpow" \
                    and max_exponent(spec) > BIGPOW_NC_MAX:
                continue
            kind, detail, changed = judge(rw, spec)
            r.evals += 1
            if changed:
                r.keys.append((mode, rw, spec))
            if not kind:
                continue
            locs = localise(spec, lambda s, rw=rw: judge_cached(mode, rw, s)[0])
            if not locs:
                locs = [(kind, f"{kind}|{show(spec)}", spec)]
            for kk, sig, m in locs:
                d = judge_cached(mode, rw, m)[1]
                r.fail(kk, sig, f"in {show(spec)}: minimal failing input {show(m)}: {d}",
                       witness=(mode, m))
        return r


CHECK = C11()

"""C17 -- pickles and persistent hash keys are stable across processes.

Engine B across processes.  A *configuration* is (PYTHONHASHSEED, interpreter mode).  For every
producer configuration a subprocess builds the expression pool from specs, runs every producer
history (every sequence over {hash, ==, pickle} of length <= 3 ending in pickle) on a fresh object
under every pickle protocol and writes the pickle bytes and the persistent-hash digests.  For
every (producer, consumer) pair a consumer subprocess -- another configuration -- executes every
transition of the consumer state graph over {unpickle, build-from-spec, hash, ==, dict insert,
dict look-up} on every distinct pickle and compares with a model that needs no pymbolic at all:
the unpickled expression and the one built from the same spec are ONE key.

The heavy lifting is in vf/c17_worker.py (subprocesses) and vf/c17_pool.py (pool, histories).
"""
from __future__ import annotations

import json
import os
import shutil
import subprocess
import sys
import tempfile

from vf import c17_pool as P
from vf.run import VERIF, Check, Res
from vf.spec import show

N_SHARDS = {"quick": 4, "thorough": 8}       # pool shards per consumer configuration
WORKER_TIMEOUT = 400
PROD_HISTS = P.producer_histories()
CONS_HISTORIES = P.state_graph()[2]
COMPILED_HISTORIES = P.state_graph(P.COMPILED_CONS_OPS, P.compiled_step)[2]
MAX_CONS_HISTORY = max(len(h) for h in CONS_HISTORIES) + 1      # + final observation


# symptoms of a wrong hash / wrong state in causal order (see _digest)
CAUSAL_ORDER = ("hash-unstable", "hash-differs", "eq-false", "ne-true", "set-miss", "dict-miss",
                "dict-dup", "dict-ghost")


def _scratch_base():
    return os.environ.get("VF_SCRATCH") or tempfile.gettempdir()


def _run_worker(cfg, args):
    seed, opt = P.parse_config(cfg)
    repo = os.environ.get("VF_REPO", "/repo")
    env = dict(os.environ, PYTHONHASHSEED=str(seed), PYTHONPATH=f"{repo}:{VERIF}",
               PYTHONDONTWRITEBYTECODE="1", VF_REPO=repo)
    py = sys.executable or "/venv/bin/python"
    return [py, *(["-O"] if opt else []), "-m", "vf.c17_worker", *args], env


def run_worker(cfg, args):
    """-> None, or an error text"""
    cmd, env = _run_worker(cfg, args)
    try:
        pr = subprocess.run(cmd, cwd=VERIF, env=env, capture_output=True, text=True,
                            timeout=WORKER_TIMEOUT)
    except subprocess.TimeoutExpired:
        return f"{' '.join(args[:3])} under {cfg}: no result within {WORKER_TIMEOUT}s"
    if pr.returncode != 0:
        return f"{' '.join(args[:3])} under {cfg}: exit {pr.returncode}: {pr.stderr[-1200:]}"
    return None


def show_phists(idxs):
    if {i for i, h in enumerate(PROD_HISTS) if "digest" not in h} <= set(idxs):
        return "*"          # every history that runs under every protocol
    hs = [PROD_HISTS[i] for i in idxs]
    m = min(len(h) for h in hs)
    return ",".join(">".join(h) for h in hs if len(h) == m)


def show_protos(ps):
    return "*" if list(ps) == list(P.PROTOCOLS) else ",".join(str(p_) for p_ in ps)


class C17(Check):
    pid = "C17"
    level = "model_checking"
    chunk = 1
    item_timeout = 2 * WORKER_TIMEOUT + 60
    rule = (
        "configurations = PYTHONHASHSEED {0,1,4242} (thorough {0,1,2,7,123,4242}) x {python, "
        "python -O}; EVERY ordered (producer, consumer) pair of configurations (36 / 144), each "
        "side a separate subprocess: one producer process per configuration, and every consumer "
        "configuration consumes the pickles of every producer. Pool: every built-in constructor shape (61), 39 further built-in instances "
        "(every constant kind incl. big ints / numpy scalars of every precision (float16/32/64, "
        "complex64/128, int8, uint64, bool; values that are not exactly representable) / "
        "non-ASCII names, empty and one-element nodes, geometric-algebra nodes, a 13-level tree, shared sub-objects), "
        "Polynomial and Rational, all " + str(len(P.user_entries())) + " generated user classes "
        "(decorated, also with init=False / hash=False / undecorated / "
        "legacy / mixed) with expression-valued fields, plus "
        + str(len(P.user_flat_entries("quick"))) + " (thorough "
        + str(len(P.user_flat_entries())) + ") of them with str/int-only fields, 3 old-style classes that implement only the "
        "get_hash/is_equal backend (vf/c17_usercls.py; pickle may refuse these with "
        "NotImplementedError, anything it accepts is held to every invariant), "
        + str(len([e for e in P.init_false_entries() if e["family"] == "user"]))
        + " instances of expr_dataclass nodes with a field(init=False) (derived in "
        "__post_init__ / assigned by a factory / the only field; value equal to and different "
        "from the default), "
        + str(len([e for e in P.legacy_arity_entries() if e["family"] == "user"]))
        + " instances of old-style init-args classes with 0 (the empty state tuple; also over "
        "a field-less dataclass node and as undecorated subclass), 1, 2 and 3 init args, "
        + str(len([e for e in P.postinit_entries() if e["family"] == "user"]))
        + " instances of expr_dataclass nodes with a __post_init__ (validating / idempotent "
        "normalisation / non-idempotent transformation of a plain, int or tuple field; "
        "decorated and undecorated subclasses), (parent, position, child) nestings over one representative shape per "
        "class (quick: 3 field kinds -- plain field, tuple element, keyword value -- x 34 "
        "children = " + str(len(P.nest_entries("quick"))) + "; thorough: all "
        + str(len(P.nest_entries("thorough"))) + " (parent, position, child) triples), user "
        "nodes inside built-in nodes (" + str(len(P.user_nest_entries("quick"))) + " / "
        + str(len(P.user_nest_entries("thorough"))) + "), equal-but-differently-built variants (keyword arguments in reverse "
        "order, as a plain dict, comparison operator by name, numpy scalar constants vs their .item() "
        "(walk digest only), repeated subtrees as one shared "
        "object (vf.spec.build_shared) vs separate equal objects; pickled in one form, rebuilt "
        "in the other), CompiledExpressions (one per arithmetic shape x variable listing, and non-symmetric "
        "shapes under " + str(len(P.NAMINGS)) + " further variable-name alphabets: names "
        "differing only in case, upper before lower case, digits, underscores, prefixes). Producer: "
        "all " + str(len(PROD_HISTS)) + " sequences over {hash, ==, pickle} of length <= "
        + str(P.PROD_DEPTH) + " ending in pickle, plus the "
        + str(sum(1 for h in PROD_HISTS if "digest" in h)) + " such sequences containing "
        "`digest` (compute the persistent keys first; default protocol only), each on a "
        "fresh object, x protocols 0-5; pickles with identical bytes -- from different producer "
        "histories and from different producer configurations -- are executed once per consumer "
        "process (its behaviour is a function of the bytes) and stand for all their sources. Consumer: every transition of "
        "the state graph over {unpickle, build, hash, ==, dict/set insert, look-up} ("
        + "%d canonical states, %d transitions, %d maximal histories" % tuple(
            len(x) for x in P.state_graph())
        + ", each replayed from scratch on "
        "fresh objects, complete invariant list after each) per distinct pickle; compiled "
        "expressions: " + "%d states / %d transitions" % tuple(
            len(x) for x in P.state_graph(P.COMPILED_CONS_OPS, P.compiled_step)[:2])
        + " over {unpickle, compile, call on the 3^k box}. Under the default protocol the "
        "built-in and user entries (thorough: all entries) additionally get the "
        + str(len(P.digest_histories()[0])) + " maximal histories (depth <= "
        + str(P.DIGEST_DEPTH) + ") of the graph extended by D = compute the persistent key of "
        "every existing object (pytools' KeyBuilder leaves a non-field attribute on the "
        "instance), object state (observed, keyed). "
        "Digests (PersistentHashWalkMapper+sha256 and pytools KeyBuilder): producer vs consumer, "
        "unpickled vs local, clone, recomputation, variants, and keyed alone vs keyed while the "
        "==-equal typed twins (ints as floats, 0/1 as bools) are keyed and alive. "
        "Non-trivial = (pair, pool entry) "
        "with at least one pickle consumed; distinct = distinct (pair, entry).")
    assumptions = [
        "consumer states are merged by canon(history) = (unpickled: absent/fresh/observed, local: "
        "absent/fresh/observed, insertion order into the dict): hash, ==, dict insertion and "
        "look-up reach an expression only through __hash__/__eq__, whose only lasting effect "
        "is assumed to be the same whichever of the four operations triggered it",
        "float nan constants are excluded (nan != nan); NaN nodes are included",
        "a pickle refusal (NotImplementedError from dumps) is accepted only for the old-style "
        "classes without init args; for every other pool entry it is a failure",
        "digests: an expression the digest function refuses (exception) must be refused with the "
        "same exception class everywhere; equality of digests is demanded for equal "
        "expressions of identical constant types only (1 vs 1.0 is not asserted), except that "
        "the walk mapper must key a numpy scalar like its .item() (its map_constant says so); "
        "pytools' KeyBuilder keys constants by type and is not asserted there",
        "compiled expressions: reference value = vf.refsem on the spec with the documented "
        "argument order (listed variables, then the others by name) on the box {-2,1,3}^k",
        "the pool is rebuilt from specs in every process (vf.spec.build); only entry names, "
        "pickle bytes and digests cross the process boundary",
    ]

    _shared = None
    _prod_errors = {}

    # {{{ producers are run once per configuration (setup); replays produce privately

    def setup(self, tier):
        self._shared = tempfile.mkdtemp(prefix="vf-c17-", dir=_scratch_base())
        self._prod_errors = {}
        procs = []
        for cfg in P.configs(tier):
            cmd, env = _run_worker(cfg, ["produce", tier, cfg, self._shared, "all"])
            procs.append((cfg, subprocess.Popen(cmd, cwd=VERIF, env=env, stdout=subprocess.PIPE,
                                                stderr=subprocess.PIPE, text=True)))
        for cfg, pr in procs:
            try:
                _, err = pr.communicate(timeout=WORKER_TIMEOUT)
            except subprocess.TimeoutExpired:
                pr.kill()
                err = f"no result within {WORKER_TIMEOUT}s"
                pr.communicate()
            if pr.returncode != 0:
                self._prod_errors[cfg] = f"producer under {cfg}: exit {pr.returncode}: " \
                                         f"{err[-1200:]}"

    def teardown(self, tier):
        if self._shared:
            shutil.rmtree(self._shared, ignore_errors=True)
            self._shared = None

    # }}}

    def families(self, tier):
        cfgs = P.configs(tier)
        n = N_SHARDS[tier]

        def pairs():
            # one item = one consumer configuration x one pool shard, consuming the pickles of
            # EVERY producer configuration ("*"); witnesses name one producer and one entry
            for cc in cfgs:
                for k in range(n):
                    yield ("*", cc, f"shard:{k}:{n}")
        return [("pairs", pairs)]

    def check_item(self, family, item, tier):
        pc, cc, sel = item
        r = Res()
        ddir = tempfile.mkdtemp(prefix="vf-c17-", dir=_scratch_base())
        try:
            shared = self._shared
            pcs = P.configs(tier) if pc == "*" else [pc]
            have = shared and sel.startswith("shard:") and all(
                os.path.exists(os.path.join(shared, f"prod-{p_}.{x}"))
                for p_ in pcs for x in ("pkl", "json"))
            if have:
                for p_ in pcs:
                    for x in ("pkl", "json"):
                        os.symlink(os.path.join(shared, f"prod-{p_}.{x}"),
                                   os.path.join(ddir, f"prod-{p_}.{x}"))
                # every producer history is counted once: with the first consumer configuration
                count_producer = cc == P.configs(tier)[0]
            else:
                for p_ in pcs:
                    err = self._prod_errors.get(p_) if shared and sel.startswith("shard:") \
                        else run_worker(p_, ["produce", tier, p_, ddir, sel])
                    if err:
                        r.evals += 1
                        r.fail("worker-crash", "worker-crash|producer", err, witness=item)
                        return r
                count_producer = True
            err = run_worker(cc, ["consume", tier, cc, ",".join(pcs), ddir, sel])
            if err:
                r.evals += 1
                r.fail("worker-crash", "worker-crash|consumer", err, witness=item)
                return r
            preps = {}
            for p_ in pcs:
                with open(os.path.join(ddir, f"prod-{p_}.json")) as fh:
                    preps[p_] = json.load(fh)
            with open(os.path.join(ddir, f"cons-{cc}.json")) as fh:
                crep = json.load(fh)
        finally:
            shutil.rmtree(ddir, ignore_errors=True)
        self._digest(r, item, tier, preps, crep, count_producer)
        return r

    def _digest(self, r, item, tier, preps, crep, count_producer):
        _, cc, sel = item
        pcs = list(preps)
        by_name = P.pool_by_name(tier)
        from vf.c17_worker import select
        mine = select(P.pool(tier), sel)
        names = {e["name"] for e in mine}
        first_shard = not sel.startswith("shard:") or sel.startswith("shard:0:")
        c = crep["counters"]
        r.evals += c["histories"]
        for k in ("states", "transitions", "histories", "pickles_distinct", "pair_pickles_covered",
                  "pair_histories_covered", "producer_histories_covered", "digests",
                  "attributed_to_simpler_entry"):
            r.count(k, c[k])
        r.count("max_depth", P.PROD_DEPTH + MAX_CONS_HISTORY)
        r.count("max_configurations", len(P.configs(tier)))
        if first_shard:
            r.count("pairs", len(pcs))
            r.count("pairs_with_different_string_hash",
                    sum(1 for p_ in pcs if preps[p_]["str_hash"] != crep["str_hash"]))
        if count_producer:
            nd = sum(1 for h in PROD_HISTS if "digest" in h)
            nh = sum(len(P.protocols_for(e, tier, by_name)) * (len(PROD_HISTS) - nd)
                     + (0 if e["family"] == "compiled" else len(P.DIGEST_PROTOCOLS) * nd)
                     for e in mine) * len(pcs)
            r.evals += nh
            r.count("producer_histories", nh)
            if first_shard:
                r.count("producer_histories_refused_by_pickle",
                        sum(preps[p_].get("refused_by_pickle", 0) for p_ in pcs))
        # non-trivial: at least one pickle of the entry, from that producer, reached the consumer
        consumed = [(p_, n) for p_, n in crep["consumed"] if n in names]
        r.keys.extend((p_, cc, n) for p_, n in consumed)
        if consumed:
            k = sum(map(ord, cc + sel))
            p_, n = consumed[k % len(consumed)]
            e = by_name[n]
            hs = CONS_HISTORIES if e["family"] != "compiled" else COMPILED_HISTORIES
            r.sample = {
                "producer": p_, "consumer": cc, "entry": e["name"], "pickled": show(e["prod"]),
                "rebuilt_as": show(e["cons"]),
                "producer_history": list(PROD_HISTS[k % len(PROD_HISTS)]),
                "protocol": k % len(P.PROTOCOLS),
                "consumer_history": "".join(hs[k % len(hs)]) + " + final observation"}
        for p_ in pcs:
            for f in preps[p_]["fails"]:
                if f["entry"] not in names:
                    continue
                e = by_name[f["entry"]]
                r.fail(f["kind"], f"{f['kind']}|{e['label']}",
                       f"producer {p_}, entry {e['name']}, history "
                       f"{'>'.join(PROD_HISTS[f['phist']])}, protocol {f['proto']}: {f['detail']}",
                       witness=(p_, cc, f"entry:{e['name']}"))
        for name, err in sorted(crep.get("broken_user_classes", {}).items()):
            r.fail("user-class-broken", f"user-class-broken|{name}",
                   f"the class definition of vf.usercls_gen.{name} raises under consumer "
                   f"configuration {cc}: {err}", witness=item)
        # one entry, several symptoms of one cause: a wrong hash makes == fail (it compares
        # hashes first), which makes the dict/set look-ups fail.  Only the first symptom in
        # CAUSAL_ORDER is reported per entry; the others are named in its detail.
        by_entry = {}
        for f in crep["fails"]:
            by_entry.setdefault(f["entry"], []).append(f)
        reported = []
        for fs in by_entry.values():
            chain = sorted((f for f in fs if f["kind"] in CAUSAL_ORDER),
                           key=lambda f: CAUSAL_ORDER.index(f["kind"]))
            for f in fs:
                if f["kind"] not in CAUSAL_ORDER:
                    reported.append((f, ""))
            if chain:
                also = ", ".join(f["kind"] for f in chain[1:])
                reported.append((chain[0], f"; consequences seen on the same entry: {also}"
                                 if also else ""))
                r.count("consequences_not_reported_separately", len(chain) - 1)
        for f, also in reported:
            e = by_name[f["entry"]]
            sig = f"{f['kind']}|{e['label']}"
            if f["phists"]:
                sig += f"|P={show_phists(f['phists'])}|p={show_protos(f['protos'])}"
            if f["order"]:
                sig += f"|C={''.join(f['order'])}"
            fp = f["pcfgs"][0] if f["pcfgs"] else pcs[0]
            r.fail(f["kind"], sig,
                   f"producer {fp} -> consumer {cc} (producers affected: "
                   f"{','.join(f['pcfgs'])}), entry {e['name']} "
                   f"(pickled {e['prod']!r}"
                   + (f", rebuilt as {e['cons']!r}" if e["cons"] != e["prod"] else "")
                   + f"): {f['detail']}; {f['n']} occurrences, "
                   f"{f['orders_failed']} failing consumer histories{also}",
                   witness=(fp, cc, f"entry:{e['name']}"))

    def describe(self, family, item):
        if isinstance(item, dict):
            return item
        return {"family": family, "item": item}


CHECK = C17()

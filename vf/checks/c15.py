"""C15 -- linear-form extraction (CoefficientCollector) and affine solving
(solve_affine_equations_for / gaussian_elimination) are exact.

Engine A, two groups of families:

* ``cc-*``   expression trees over  x y z a[0] f(x) 2 -1 3  with Sum / Product / Quotient / Power,
             each with target_names = None and every subset of {x, y, z, a}.  Oracle: exact rational
             functions (vf.exact.RatFun) over opaque atoms -- reconstruction identity, coefficients
             free of the targets, must-return on syntactically affine input, must-raise on
             semantically non-affine input (a second finite difference is non-zero).
* ``cc-foreign-*``  the same with one node type the collector has no rule for (// % << >> ~ | ^ &
             comparisons, not/or/and, if, min, max, CSE) at, above or below the arithmetic nodes;
             oracle: exact values on an integer grid (vf.refsem's clauses made exact).
* ``sys``    integer systems  A u = B p + c  of shapes 1x1 .. 3x3 (also over- and under-determined),
             written as (lhs, rhs) pairs in five equivalent forms, unknown list in every order.
             Oracle: Gauss-Jordan over Fraction; an accepted system must be uniquely and integrally
             solvable, every unknown must be assigned, and substituting the assignments must
             satisfy every equation identically in the parameters (RatFun).
"""
from __future__ import annotations

import itertools
import os
from functools import lru_cache

from vf import c15_oracle as O
from vf import gen
from vf.exact import RatFun
from vf.localise import _fresh, minimal_failing_subtree, shrink
from vf.run import Check, Res
from vf.spec import (
    C, T, V, build, canon_vars, rebuild, show, spec_children, to_spec, variables_of, walk,
)

# {{{ bounds

TARGET_NAMES = ("x", "y", "z", "a")                 # explicit target sets: every subset of these
QUICK_TARGET_NAMES = ("x", "y", "a")
SUB_A0 = ("Subscript", V("a"), C(0))
CALL_FX = ("Call", V("f"), T(V("x")))
LEAVES = (V("x"), V("y"), V("z"), SUB_A0, CALL_FX, C(2), C(-1), C(3))
QUICK_LEAVES = (V("x"), V("y"), SUB_A0, CALL_FX, C(2), C(-1))   # depth-3 trees of the quick tier
NARY_FILL = (V("x"), V("y"), C(2), C(-1))           # other factors/terms of a 3-ary parent
BINARY = ("Sum", "Product", "Quotient", "Power")
CONTAINERS = ("list", "tuple", "set", "frozenset")  # types target_names is passed as (depth 2)

# node types outside + * / **: the collector has no rule for them and must refuse them when they
# involve a target (families cc-foreign-*)
ARITH_CTORS = gen.ctors(names=("Sum2", "Product2", "Quotient", "Power"))
FOREIGN_CTORS = gen.ctors(names=(
    "FloorDiv", "Remainder", "LeftShift", "RightShift", "BitwiseNot", "BitwiseOr2", "BitwiseXor2",
    "BitwiseAnd2", "Cmp<", "Cmp<=", "Cmp>", "Cmp>=", "Cmp==", "Cmp!=", "LogicalNot", "LogicalOr2",
    "LogicalAnd2", "If", "Min2", "Max2", "CSE"))
FOREIGN_NEST_CTORS = [c for c in FOREIGN_CTORS if c.name not in ("Cmp<=", "Cmp>", "Cmp>=", "Cmp!=")]
FOREIGN_LEAVES = (V("x"), V("y"), SUB_A0, C(2), C(-1))       # leaf combinations at depth 2
FOREIGN_FILL = {"e": [V("x"), V("y"), C(2), SUB_A0, C(3)],   # distinct leaves of the nestings
                "b": [V("x"), V("y"), C(2), SUB_A0, C(3)]}

COEFF_2 = (1, -1, 2, -2, 0)                          # coefficients of 1- and 2-unknown systems
COEFF_1 = (1, -1, 2, -2, 3, -3, 0)                   # ... of 1x1 systems
COEFF_3 = (1, -1, 0)                                 # ... of systems with 3 unknowns or 3 equations
RHS_5 = ((), (("1", 1),), (("1", 2),), (("p", 1),), (("p", 1), ("q", 1)))   # 0 1 2 p p+q
RHS_EXTRA = ((("a0", 1),), (("p", 2), ("1", -1)), (("p", -1), ("q", 2), ("1", 3)))  # a[0] 2p-1 ..
RHS_3 = ((), (("1", 1),), (("p", 1),))               # 0 1 p (systems with 3 equations / unknowns)
UNKNOWNS = ("x", "y", "z")
ROWS_4X2 = ((1, 0), (0, 1), (1, 1), (1, -1))          # equation rows of the 4x2 systems (quick)
# parameters / unknowns that print alike (family sys-alike): per pair (P, Q) of distinct expressions
# with str(P) == str(Q) the right-hand sides  P, Q, P + 2Q, 2P - Q + 1
ALIKE_PAIRS = (("a0", "a0v"), ("sf", "sfv"))
RHS_ALIKE = tuple(r for pp, qq in ALIKE_PAIRS for r in (
    ((pp, 1),), ((qq, 1),), ((pp, 1), (qq, 2)), ((pp, 2), (qq, -1), ("1", 1))))
ALIKE_UNKNOWNS = ("a[0]", "s.f")                      # unknowns named like the parameters of
RHS_ALIKE_U = ((("a0", 1),), (("sf", 1),), (("a0", 1), ("sf", 2)),        # these right-hand sides
               (("a0", 2), ("sf", -1), ("1", 1)))                          # a[0], s.f, a[0]+2s.f ..
ALIKE_LEAVES = (SUB_A0, V("a[0]"), ("Lookup", V("s"), ("str", "f")), V("s.f"), V("x"), C(2))
ALIKE_TARGETS = (None, (), ("a[0]",), ("s.f",), ("a[0]", "s.f"), ("x",))
DEMAND_ACCEPTANCE = False    # the statement does not say that a uniquely and integrally solvable
#                              system must be accepted; refusals are only counted
#                              (sys_refused_solvable, 0 within the bounds on the fixed tree).  Set
#                              to True to report them as failures of kind "refused-solvable".

# }}}


def _subsets(names):
    out = []
    for k in range(len(names) + 1):
        out.extend(itertools.combinations(names, k))
    return out


ALL_TARGETS = (None, *_subsets(TARGET_NAMES))              # 17
QUICK_TARGETS = (None, *_subsets(QUICK_TARGET_NAMES))      # 9


def _binary(op, a, b):
    return (op, T(a, b)) if op in ("Sum", "Product") else (op, a, b)


def depth2_binary(leaves):
    return [_binary(op, a, b) for op in BINARY for a in leaves for b in leaves]


# {{{ collector: one case

def _container(targets, kind):
    if targets is None:
        return None
    return {"list": list, "tuple": tuple, "set": set, "frozenset": frozenset}[kind](targets)


@lru_cache(maxsize=8192)
def _prep(spec):
    """-> (status, exact value, pymbolic object); shared by all target sets of one tree."""
    try:
        value = O.ratfun(spec)
    except O.Undefined:
        return "undefined", None, None
    except O.Unsupported:
        return None, None, None
    return "ok", value, build(spec)


@lru_cache(maxsize=8192)
def _nonaffine(spec, tatoms):
    return O.nonaffine(O.ratfun(spec), tatoms)


def cc_case(spec, targets, container="list", cross_check=False):
    """Run CoefficientCollector(targets)(spec) and judge it.
    -> (kind or None, detail, cls), cls in undefined / open / must-return / must-raise / either /
    None (not an input of this check)."""
    from pymbolic.mapper.coefficient import CoefficientCollector
    tset = None if targets is None else frozenset(targets)
    status, value, expr = _prep(spec)
    if status != "ok":
        return None, "", status
    try:
        klass = O.syn(spec, tset)
        opaque = klass == "no" and O.opaque_power_mentions_target(spec, tset)
    except O.Unsupported:
        return None, "", None
    if klass == "open" or opaque:
        cls = "open"
    elif klass in ("free", "affine"):
        cls = "must-return"
    else:
        tatoms = O.target_atoms(spec, tset)
        na = _nonaffine(spec, tuple(t for t in tatoms if t in value.atoms()))
        if cross_check:
            assert na == O.nonaffine_fd(value, tatoms), (spec, targets)
        cls = "must-raise" if na else "either"
    if cross_check and cls == "must-return":
        # a syntactically affine tree is semantically affine
        assert not O.nonaffine_fd(value, O.target_atoms(spec, tset)), (spec, targets)

    try:
        got = CoefficientCollector(_container(targets, container))(expr)
    except RecursionError:
        raise
    except Exception as e:  # noqa: BLE001
        if cls == "must-return":
            return (f"must-return:{type(e).__name__}",
                    f"affine in the targets (syntactically) but raised {type(e).__name__}: {e}",
                    cls)
        return None, "", cls

    if not isinstance(got, dict):
        return "not-a-dict", f"returned {got!r}", cls
    shown = "{" + ", ".join(f"{k}: {v}" for k, v in got.items()) + "}"
    if cls == "must-raise":
        return ("returned-on-nonaffine",
                f"not affine in the targets (second finite difference != 0) but returned {shown}",
                cls)
    leaf_by_spec = {lf: O.leaf_status(lf, tset) for lf in O.leaves(spec)}
    total = RatFun(0)
    for k, coeff in got.items():
        is_one = isinstance(k, int) and not isinstance(k, bool) and k == 1
        if not is_one:
            ks = to_spec(k)
            if leaf_by_spec.get(ks, "param") == "param":
                return "bad-key", f"key {k} is not a target variable of the input; got {shown}", cls
        cs = to_spec(coeff)
        if O.mentions_target(cs, tset):
            return ("coeff-not-free",
                    f"coefficient of {k} is {coeff}, which contains a target variable; got {shown}",
                    cls)
        try:
            cv = O.ratfun(cs)
        except (O.Undefined, O.Unsupported, ZeroDivisionError) as e:
            return ("coeff-undefined",
                    f"coefficient of {k} is {coeff}: {type(e).__name__}; got {shown}", cls)
        total = total + (cv if is_one else cv * RatFun.atom(O.atom_name(ks)))
    if not (total == value):
        return ("reconstruction",
                f"sum(coeff*var)+const = {total!r} but the input is {value!r}; got {shown}", cls)
    return None, "", cls

# }}}


# {{{ collector: one case with node types outside + * / **

def ccf_case(spec, targets, container="list"):
    """Like :func:`cc_case` for a tree that contains floor division, remainder, shifts, bitwise or
    logical operators, comparisons, if, min, max or a common-subexpression wrapper.  There is no
    rational function to compare with; the oracle is the exact value at every point of
    O.GRID ** atoms.  must-raise: some second finite difference in the target atoms is a non-zero
    number at a grid point; otherwise either; a returned result must have target keys,
    target-free coefficients and reproduce the value at every grid point."""
    from pymbolic.mapper.coefficient import CoefficientCollector
    tset = None if targets is None else frozenset(targets)
    try:
        tab = O.grid_table(spec)
        expr = _build(spec)
    except RecursionError:
        raise
    except Exception:  # noqa: BLE001
        return None, "", None
    if tab is None:
        return None, "", None
    atoms, table = tab
    if all(v is None for v in table.values()):
        return None, "", "undefined"
    status = {O.atom_name(lf): O.leaf_status(lf, tset) for lf in O.leaves_any(spec)}
    witness = None
    if "ambiguous" in status.values():
        cls = "open"
    else:
        witness = O.grid_nonaffine(spec, [a for a in atoms if status[a] == "target"])
        cls = "must-raise" if witness else "either"
    try:
        got = CoefficientCollector(_container(targets, container))(expr)
    except RecursionError:
        raise
    except Exception:  # noqa: BLE001
        return None, "", cls
    if not isinstance(got, dict):
        return "not-a-dict", f"returned {got!r}", cls
    shown = "{" + ", ".join(f"{k}: {v}" for k, v in got.items()) + "}"
    if cls == "must-raise":
        pt, t, u = witness
        return ("returned-on-nonaffine",
                f"not affine in the targets (second finite difference in {t}, {u} at "
                f"{dict(zip(atoms, pt))} is non-zero) but returned {shown}", cls)
    leaf_specs = {lf for lf in O.leaves_any(spec)}
    terms = []
    for k, coeff in got.items():
        is_one = isinstance(k, int) and not isinstance(k, bool) and k == 1
        ks = None
        if not is_one:
            ks = to_spec(k)
            if ks not in leaf_specs or status[O.atom_name(ks)] == "param":
                return "bad-key", f"key {k} is not a target variable of the input; got {shown}", cls
        cs = to_spec(coeff)
        if O.mentions_target_any(cs, tset):
            return ("coeff-not-free",
                    f"coefficient of {k} is {coeff}, which contains a target variable; got {shown}",
                    cls)
        terms.append((None if is_one else O.atom_name(ks), cs))
    for pt, want in table.items():
        if want is None:
            continue
        env = dict(zip(atoms, pt))
        total = 0
        for name, cs in terms:
            cv = O.point_value(cs, env)
            if cv is None:
                total = None
                break
            total = total + (cv if name is None else cv * env[name])
        if total != want:
            return ("reconstruction",
                    f"at {env}: sum(coeff*var)+const = {total} but the input is {want}; "
                    f"got {shown}", cls)
    return None, "", cls


@lru_cache(maxsize=8192)
def _build(spec):
    return build(spec)


def any_case(spec, targets, container="list"):
    """Dispatch on the node types of the tree: exact rational functions or exact grid points."""
    if O.has_foreign(spec):
        return ccf_case(spec, targets, container)
    return cc_case(spec, targets, container)

# }}}


# {{{ collector: reduce a failing tree to minimal failing subtrees (with a per-process memo)

_FAILS = {}       # (targets, container) -> {spec: failure kind or None}
_MINIMAL = {}     # (targets, container) -> {literal failing subtree: (kind, signature, minimal)}


def _replace_all(s, sub, new):
    if s == sub:
        return new
    ch = spec_children(s)
    if not ch or s[0] in ("str", "int", "bool"):
        return s
    return rebuild(s, [_replace_all(c, sub, new) if isinstance(c, tuple) else c for c in ch])


def cc_signature(kind, m, targets):
    mapping = {}
    cm = canon_vars(m, mapping)
    if targets is None:
        ts = "None"
    else:
        ts = "[" + ",".join(sorted(mapping[n] for n in targets if n in mapping)) + "]"
    return f"{kind}|{show(cm)}|targets={ts}"


def cc_explain(spec, targets, container):
    """-> [(kind, signature, minimal spec)]: minimal failing subtrees that explain the failure."""
    memo = _MINIMAL.setdefault((targets, container), {})

    fmemo = _FAILS.setdefault((targets, container), {})

    def fails(s):
        if s in fmemo:
            return fmemo[s]
        try:
            k = any_case(s, targets, container)[0]
        except RecursionError:
            raise
        except Exception:  # noqa: BLE001
            k = None
        if len(fmemo) < 50000:
            fmemo[s] = k
        return k

    out = []
    used = set(variables_of(spec))
    cur = spec
    # memoised minimal failures that occur literally in the tree
    for sub in list(walk(spec)):
        hit = memo.get(sub)
        if hit is not None and any(c == sub for c in walk(cur)):
            out.append(hit)
            cur = _replace_all(cur, sub, _fresh(used))
    for _ in range(6):
        if out and fails(cur) is None:
            break               # the remainder passes: fully explained
        hit = minimal_failing_subtree(cur, fails)
        if hit is None:
            break
        path, sub, kind = hit
        m = shrink(sub, kind, fails)
        triple = (kind, cc_signature(kind, m, targets), m)
        memo[sub] = triple
        out.append(triple)
        if not path:
            break
        cur = _replace_all(cur, sub, _fresh(used))
    return out

# }}}


# {{{ solver: one case

@lru_cache(maxsize=None)
def _equation(form, names, row, rhs):
    """(lhs spec, rhs spec, linear form of lhs - rhs); the written form is checked once against the
    system it is meant to denote (exact rational functions)."""
    lhs, rhs_s = O.equation(form, names, row, rhs)
    want = RatFun(0)
    for a, u in zip(row, names):
        want = want + a * RatFun.atom(u)
    for nm, c in rhs:
        want = want - (c if nm == "1" else c * RatFun.atom(O.atom_name(O.PARAM_SPECS[nm])))
    if form == "swap":
        want = -want                # sides exchanged: the same equation
    assert O.ratfun(lhs) - O.ratfun(rhs_s) == want, (form, row, rhs)
    diff = O.lin_sub(O.linform(lhs), O.linform(rhs_s))
    back = RatFun(0)
    for k, v in diff.items():
        back = back + (v if k == "1" else v * RatFun.atom(k))
    assert back == want, (form, row, rhs)
    return lhs, rhs_s, diff


@lru_cache(maxsize=4096)
def _reference(rows, rhss):
    cls, params, sol = O.ref_solve(rows, rhss)
    if sol is not None:             # self-check of the reference: A sol = rhs, coefficient-wise
        for row, rhs in zip(rows, rhss):
            d = {}
            for nm, c in rhs:
                d[nm] = d.get(nm, 0) + c
            for p in set(d) | {k for s in sol for k in s}:
                assert sum(a * s.get(p, 0) for a, s in zip(row, sol)) == d.get(p, 0)
    return cls, sol


def _value_form(v):
    """Exact value of a returned assignment: linear form if possible, else RatFun."""
    vs = to_spec(v)
    f = O.linform(vs)
    return f if f is not None else O.ratfun(vs)


def _as_ratfun(f):
    if isinstance(f, RatFun):
        return f
    r = RatFun(0)
    for k, v in f.items():
        r = r + (v if k == "1" else v * RatFun.atom(k))
    return r


def sys_case(form, order, rows, rhss):
    """-> (kind or None, signature, detail, outcome label)"""
    from pymbolic.algorithm import solve_affine_equations_for
    names = tuple(sorted(order))
    eqs = [_equation(form, names, row, rhs) for row, rhs in zip(rows, rhss)]
    cls, sol = _reference(rows, rhss)
    try:
        got = solve_affine_equations_for(
            list(order), [(build(lhs), build(rhs_s)) for lhs, rhs_s, _ in eqs])
    except RecursionError:
        raise
    except Exception as e:  # noqa: BLE001
        if cls != "unique-integral":
            return None, "", "", "raised"
        if DEMAND_ACCEPTANCE:
            pairs = [(lhs, rhs_s) for lhs, rhs_s, _ in eqs]
            yn = "no" if O.both_sides(pairs, names) == "-" else "yes"
            return ("refused-solvable",
                    f"refused-solvable:{type(e).__name__}|both-sides={yn}",
                    f"unknowns {list(order)}: {O.show_system(pairs)}: uniquely and integrally "
                    f"solvable but the solver raised {type(e).__name__}: {e}",
                    "refused-solvable")
        return None, "", "", "refused-solvable"
    pairs = [(lhs, rhs_s) for lhs, rhs_s, _ in eqs]
    text = f"unknowns {list(order)}: {O.show_system(pairs)}"
    shown = "{" + ", ".join(f"{k}: {v}" for k, v in got.items()) + "}" \
        if isinstance(got, dict) else repr(got)
    # signature = failure kind + reference class + "does some atom (unknown, parameter or the
    # constant) occur on both sides of one equation"; the input itself goes into the detail
    bs = O.both_sides(pairs, names)
    tag = f"ref={cls}|both-sides={'no' if bs == '-' else 'yes'}"
    text += f" [on both sides of an equation: {bs}]"
    if not isinstance(got, dict):
        return "not-a-dict", f"not-a-dict|{tag}", f"{text}: returned {shown}", "returned"
    if cls != "unique-integral":
        why = {"inconsistent": "the system has no solution",
               "rank-deficient": "an unknown is not uniquely determined",
               "unique-fractional": "the unique solution is not integral"}[cls]
        return ("accepted", f"accepted|{tag}",
                f"{text}: {why} (exact elimination over Fraction) but the solver returned {shown}",
                "returned")
    assign = {}
    for k, v in got.items():
        ks = to_spec(k)
        if ks[0] != "Variable" or ks[1][1] not in names:
            return ("bad-key", f"bad-key|{tag}",
                    f"{text}: key {k!r} is not an unknown; got {shown}", "returned")
        try:
            assign[ks[1][1]] = _value_form(v)
        except (O.Undefined, O.Unsupported) as e:
            return ("bad-value", f"bad-value|{tag}",
                    f"{text}: value of {k} is {v!r} ({type(e).__name__}); got {shown}", "returned")
    if set(assign) != set(names):
        return ("missing-unknown", f"missing-unknown|{tag}",
                f"{text}: no assignment for {sorted(set(names) - set(assign))}; got {shown}",
                "returned")
    linear = all(isinstance(v, dict) for v in assign.values())
    for u, val in assign.items():
        atoms = set(val) if isinstance(val, dict) else val.atoms()
        if atoms & set(names):
            return ("value-mentions-unknown", f"value-mentions-unknown|{tag}",
                    f"{text}: value of {u} mentions an unknown; got {shown}", "returned")
    for lhs, rhs_s, diff in eqs:
        if linear:
            res = O.lin_subs(diff, assign)
            bad = bool(res)
        else:
            res = (O.ratfun(lhs) - O.ratfun(rhs_s)).subs(
                {u: _as_ratfun(v) for u, v in assign.items()})
            bad = not res.is_zero()
        if bad:
            expect = ", ".join(
                f"{u} = " + (" + ".join(f"{c}*{p}" if p != "1" else f"{c}"
                                          for p, c in s.items() if c != 0) or "0")
                for u, s in zip(names, sol))
            return ("wrong-solution", f"wrong-solution|{tag}",
                    f"{text}: returned {shown} does not satisfy {show(lhs)} = {show(rhs_s)} "
                    f"(residual {res!r}); exact solution: {expect}", "returned")
    return None, "", "", "returned"

# }}}


class C15(Check):
    pid = "C15"
    level = "exploration"
    rule = (
        "bounded-exhaustive. Collector (cc-*): every Sum2/Sum3/Product2/Product3/Quotient/Power "
        "over the leaves x y z a[0] f(x) 2 -1 3 (depth 2; target_names passed as list, tuple, set "
        "and frozenset), every binary tree of depth 3 (quick: over the leaves x y a[0] f(x) 2 -1), "
        "every 3-ary Sum/Product with one depth-2 child in each position and the other two "
        "children from x y 2 -1; each with target_names = None and every subset of {x,y,z,a} "
        "(quick depth 3: of {x,y,a}). Node types the collector has no rule for (cc-foreign-*): "
        "FloorDiv, Remainder, LeftShift, RightShift, BitwiseNot/Or/Xor/And, the 6 comparisons, "
        "LogicalNot/Or/And, If, Min, Max and the common-subexpression wrapper, each with every "
        "leaf combination over x y a[0] 2 -1 (depth 2), every (parent, position, child) nesting "
        "with + * / ** on either side or with each other, and every three-level chain with one "
        "such node above, between or below two of + * / **; same target sets; judged on the exact "
        "values at every point of {-2..3}^atoms (a non-zero second finite difference in the "
        "targets at a grid point = not affine = must raise; a returned result must reproduce "
        "the value at every grid point). cc-alike: leaves that PRINT alike (subscript a[0] and a "
        "variable named 'a[0]', look-up s.f and a variable named 's.f', plus x, 2) in every Sum2, "
        "Sum3, Product2, Quotient and c*A+B, with target_names None, [], ['a[0]'], ['s.f'], both, "
        "['x']. Solver (family sys): every integer system of shape (eqs "
        "x unknowns) 1x1 (coefficients -3..3), 2x1, 1x2, 2x2 (coefficients -2..2) with right-hand "
        "sides from {0,1,2,p,p+q} (1x1/2x1 also a[0], 2p-1, -p+2q+3), 3x2, 2x3 and (thorough) 3x3 "
        "with coefficients -1..1 and right-hand sides from {0,1,p}; systems with two and three "
        "equations beyond the unknowns (several pivot-free rows: a contradictory equation "
        "before, between and after redundant ones): 3x1 (coefficients -2..2), 4x1 (-1..1), 4x2 "
        "with every equation row from x, y, x+y, x-y (thorough also all rows over -1..1 with "
        "right-hand sides 0/1), right-hand sides from {0,1,p}; these sets are closed under "
        "permuting equations; each written in up to 5 equivalent (lhs, rhs) forms (unknowns left; "
        "sides swapped; one unknown kept left; everything left and 0 right; every unknown, "
        "parameter and the constant on BOTH sides) with the unknown list in every order (quick "
        "2x2: 2 forms, 3x2/2x3: 1 form; thorough 3x3: 1 form + a both-sides family in all 6 "
        "orders). sys-alike: 1x1, 2x1 and 2x2 (coefficients -1..1) systems whose right-hand "
        "sides combine two distinct parameters that print alike (P, Q, P+2Q, 2P-Q+1 for a[0] / "
        "'a[0]' and s.f / 's.f'), and systems whose UNKNOWNS are named 'a[0]' and 's.f' with the "
        "subscript a[0] and the look-up s.f as parameters; under every seed. "
        "The only hash-seed dependent step is the order of the solver's *set of "
        "parameters*: the shapes whose systems can have two parameters (1x1, 2x1, 1x2, 2x2) are "
        "repeated under every listed PYTHONHASHSEED; the other shapes and the collector families "
        "(no set iteration on that code path) run under the first seed only. "
        "Non-trivial = the expression has a value somewhere (collector) / every system (solver); "
        "distinct = distinct (tree, target set, container type) resp. (seed, form, unknown order, "
        "system).")
    assumptions = [
        "every algebraic leaf (variable, subscript a[0], call f(x)) is an opaque atom of the exact "
        "domain; with target_names=None every such leaf is a variable of the linear form",
        "with explicit target names a subscript/call leaf that mentions none of them is a "
        "parameter; one that mentions a target name (a[0] with 'a' listed, f(x) with 'x' listed) "
        "is left open by the statement: raising is accepted, returning it as a key is accepted, "
        "returning it inside a coefficient is not",
        "'raises' means any exception; between 'syntactically affine' (must return) and "
        "'semantically non-affine' (must raise) both behaviours are accepted, but a returned "
        "result is always verified (keys are target leaves of the input, coefficients free of "
        "targets, exact reconstruction identity)",
        "powers with a non-integer-constant exponent are opaque atoms of the exact domain; if such "
        "a power contains a target the case is only checked when the collector returns",
        "the statement does not oblige the solver to accept a uniquely and integrally solvable "
        "system; such refusals are counted (sys_refused_solvable), not reported (none occurs "
        "within the bounds once the two proposed fixes are applied)",
        "expressions without a value anywhere (division by the zero function) are skipped",
        "atoms of the oracles are told apart by structure (a[0] the subscript is 'Subscript(a, 0)',"
        " the variable named 'a[0]' is 'a[0]'), never by printed form; a look-up leaf is only used "
        "with target sets that mention neither its aggregate nor its attribute name",
        "operators outside + * / ** have no exact rational-function value: non-affinity is decided "
        "by a non-zero second difference on the integer grid {-2..3}^atoms (sound; a tree whose "
        "differences vanish on the grid is not required to raise), a returned result is compared "
        "with the exact Fraction value at every grid point, logical nodes are truth-valued, and "
        "refusing such a node is accepted even where it involves no target (e.g. (a // 2) * x for "
        "target x raises UnsupportedExpressionError today)",
    ]
    hash_seeds = {"quick": [0, 1, 2], "thorough": [0, 1, 2, 3, 4, 5, 6, 7]}
    chunk = 100

    # -- families ---------------------------------------------------------------------------
    def families(self, tier):
        quick = tier == "quick"
        cc_leaves = QUICK_LEAVES if quick else LEAVES
        seeds = [str(s) for s in self.hash_seeds[tier]]
        here = os.environ.get("PYTHONHASHSEED", seeds[0])
        first = here == seeds[0] or here not in seeds
        fams = []
        if first:
            fams += [
                ("cc-depth2", self.gen_cc_depth2),
                ("cc-depth3", lambda: self.gen_cc_depth3(cc_leaves)),
                ("cc-nary3", lambda: self.gen_cc_nary3(cc_leaves)),
                ("cc-foreign-depth2", lambda: self.gen_ccf_depth2(quick)),
                ("cc-foreign-nest", lambda: self.gen_ccf_nest(quick)),
                ("cc-alike", self.gen_cc_alike),
            ]
        fams.append(("sys", lambda: self.gen_systems(quick, first)))
        fams.append(("sys-alike", lambda: self.gen_sys_alike(quick)))
        return fams

    def gen_systems(self, quick, first):
        """One family, smallest shapes first (the runner keeps the lowest-index witness per
        signature).  Only the order of the solver's *set of parameters* depends on the hash seed,
        so the shapes whose systems can have two or more parameters come first and are generated
        under every seed; the shapes with at most one parameter only under the first seed."""
        yield from self.gen_sys(1, 1, COEFF_1, RHS_5 + RHS_EXTRA, O.FORMS)
        yield from self.gen_sys(2, 1, COEFF_2, RHS_5 + RHS_EXTRA, O.FORMS)
        yield from self.gen_sys(1, 2, COEFF_2, RHS_5, O.FORMS)
        yield from self.gen_sys(2, 2, COEFF_2, RHS_5, ("std", "split") if quick else O.FORMS)
        if not first:
            return
        # two and more equations beyond the number of unknowns (several rows without a pivot after
        # elimination: a contradictory one may come before, between or after redundant ones)
        yield from self.gen_sys(3, 1, COEFF_2, RHS_3, ("std", "split"))
        yield from self.gen_sys(4, 1, COEFF_3, RHS_3, ("std",))
        yield from self.gen_sys(3, 2, COEFF_3, RHS_3, ("std",) if quick else ("std", "split"))
        yield from self.gen_sys(2, 3, COEFF_3, RHS_3, ("std",), all_orders=not quick)
        yield from self.gen_sys(4, 2, None, RHS_3, ("std",), all_orders=not quick,
                                row_pool=ROWS_4X2)
        if not quick:
            yield from self.gen_sys(4, 2, COEFF_3, RHS_3[:2], ("std",), all_orders=False)
        if not quick:
            yield from self.gen_sys(3, 3, COEFF_3, RHS_3, ("std",), all_orders=False)
            yield from self.gen_sys(3, 3, COEFF_3, RHS_3, ("split",), all_orders=True,
                                    rhs_combos=[(1, 2, 1), (2, 1, 2)])

    def gen_cc_depth2(self):
        for lf in LEAVES:
            yield ("cc", lf, "all")
        for op in BINARY:
            for a in LEAVES:
                for b in LEAVES:
                    yield ("cc", _binary(op, a, b), "all")
        for op in ("Sum", "Product"):
            for combo in itertools.product(LEAVES, repeat=3):
                yield ("cc", (op, T(*combo)), "all")

    def gen_cc_depth3(self, leaves):
        pool = list(leaves) + depth2_binary(leaves)
        nl = len(leaves)
        for op in BINARY:
            for i, a in enumerate(pool):
                for j, b in enumerate(pool):
                    if i < nl and j < nl:
                        continue            # depth 2: family cc-depth2
                    yield ("cc", _binary(op, a, b), "q" if leaves is QUICK_LEAVES else "t")

    def gen_cc_nary3(self, leaves):
        kids = depth2_binary(leaves)
        for op in ("Sum", "Product"):
            for pos in range(3):
                for kid in kids:
                    for o1 in NARY_FILL:
                        for o2 in NARY_FILL:
                            ch = [o1, o2]
                            ch.insert(pos, kid)
                            yield ("cc", (op, T(*ch)), "q" if leaves is QUICK_LEAVES else "t")

    def gen_ccf_depth2(self, quick):
        """Every operator outside + * / ** with every leaf combination."""
        mode = "q" if quick else "t"
        for s in gen.depth2(FOREIGN_CTORS, FOREIGN_LEAVES):
            yield ("cc", s, mode)

    def gen_ccf_nest(self, quick):
        """Every (parent, position, child) nesting with at least one such operator, and every
        three-level chain arithmetic > arithmetic > operator, arithmetic > operator > arithmetic,
        operator > arithmetic > arithmetic (e.g. 3*(x // 2) + 1, (2*x + a) // 4 + x)."""
        mode = "q" if quick else "t"
        A, F = ARITH_CTORS, FOREIGN_NEST_CTORS
        for parents, kids in ((A, F), (F, A), (F, F)):
            for _, s in gen.nest2(parents, kids, FOREIGN_FILL):
                yield ("cc", s, mode)
        for gps, parents, kids in ((A, A, F), (A, F, A), (F, A, A)):
            for _, s in gen.nest3(gps, parents, kids, FOREIGN_FILL):
                yield ("cc", s, mode)

    def gen_sys_alike(self, quick):
        """Systems whose parameters (and, second half, unknowns) print alike."""
        same_pair = [(i, j) for i in range(len(RHS_ALIKE)) for j in range(len(RHS_ALIKE))
                     if i // 4 == j // 4]
        forms2 = ("std", "split") if quick else O.FORMS
        yield from self.gen_sys(1, 1, COEFF_1, RHS_ALIKE, O.FORMS)
        yield from self.gen_sys(2, 1, COEFF_2, RHS_ALIKE, ("std", "split"), rhs_combos=same_pair)
        yield from self.gen_sys(2, 2, COEFF_3, RHS_ALIKE, forms2, rhs_combos=same_pair)
        # unknowns named "a[0]" and "s.f" next to the parameters a[0] (subscript) and s.f (look-up)
        yield from self.gen_sys(1, 1, COEFF_1, RHS_ALIKE_U, O.FORMS, names=ALIKE_UNKNOWNS)
        yield from self.gen_sys(2, 1, COEFF_2, RHS_ALIKE_U, ("std", "split"),
                                names=ALIKE_UNKNOWNS)
        yield from self.gen_sys(2, 2, COEFF_3, RHS_ALIKE_U, forms2, names=ALIKE_UNKNOWNS)

    def gen_cc_alike(self):
        """Linear forms over leaves that print alike (a[0] / `a[0]`, s.f / `s.f`)."""
        for lf in ALIKE_LEAVES:
            yield ("cc", lf, "alike")
        for op in ("Sum", "Product", "Quotient"):
            for a in ALIKE_LEAVES:
                for b in ALIKE_LEAVES:
                    yield ("cc", _binary(op, a, b), "alike")
        for combo in itertools.product(ALIKE_LEAVES, repeat=3):
            yield ("cc", ("Sum", T(*combo)), "alike")
        for a in ALIKE_LEAVES:
            for b in ALIKE_LEAVES:
                for c in (C(2), C(-1)):
                    yield ("cc", ("Sum", T(("Product", T(c, a)), b)), "alike")

    def gen_sys(self, m, n, coeffs, rhs_pool, forms, all_orders=True, rhs_combos=None,
                names=UNKNOWNS, row_pool=None):
        names = names[:n]
        orders = list(itertools.permutations(names)) if all_orders else [names]
        if rhs_combos is None:
            rhs_combos = itertools.product(range(len(rhs_pool)), repeat=m)
        rhs_combos = list(rhs_combos)
        if row_pool is not None:
            all_rows = itertools.product(row_pool, repeat=m)
        else:
            all_rows = (tuple(tuple(flat[i * n:(i + 1) * n]) for i in range(m))
                        for flat in itertools.product(coeffs, repeat=m * n))
        for rows in all_rows:
            for rc in rhs_combos:
                rhss = tuple(rhs_pool[k] for k in rc)
                for form in forms:
                    for order in orders:
                        yield ("sys", form, order, rows, rhss)

    # -- the check ----------------------------------------------------------------------------
    def check_item(self, family, item, tier):
        r = Res()
        if item[0] == "sys":
            _, form, order, rows, rhss = item
            kind, sig, detail, outcome = sys_case(form, order, rows, rhss)
            r.evals += 1
            r.keys.append(item)
            r.count("sys_" + outcome.replace("-", "_"))
            r.count(f"sys_shape_{len(rows)}x{len(order)}")
            if kind:
                r.fail(kind, sig, detail, witness=item)
            return r
        if item[0] == "cc1":
            _, spec, targets, container = item
            mode = "one"
            cases = [(targets, container)]
        else:
            _, spec, mode = item
            if mode == "all":
                cases = [(t, c) for t in ALL_TARGETS
                         for c in (CONTAINERS if t is not None else ("list",))]
            elif mode == "alike":
                cases = [(t, "list") for t in ALIKE_TARGETS]
            elif mode == "q":
                cases = [(t, "list") for t in QUICK_TARGETS]
            else:
                cases = [(t, "list") for t in ALL_TARGETS]
        foreign = O.has_foreign(spec)
        pre = "ccf_" if foreign else "cc_"
        for targets, container in cases:
            if foreign:
                kind, detail, cls = ccf_case(spec, targets, container)
            else:
                kind, detail, cls = cc_case(spec, targets, container, cross_check=mode == "all")
            if cls is None:
                continue
            if cls == "undefined":
                r.count(pre + "undefined")
                continue
            r.evals += 1
            r.keys.append((spec, targets, container))
            r.count(pre + cls.replace("-", "_"))
            if kind:
                locs = cc_explain(spec, targets, container)
                if not locs:
                    locs = [(kind, cc_signature(kind, spec, targets), spec)]
                for kk, sig, m in locs:
                    d = any_case(m, targets, container)[1]
                    r.fail(kk, sig,
                           f"CoefficientCollector({_container(targets, container)!r}) on "
                           f"{show(spec)}: minimal failing tree {show(m)}: {d}",
                           witness=("cc1", m, targets, container))
        return r


CHECK = C15()

"""C01 -- expression nodes: structural equality, consistent hashing, immutability.

Engine A: a pool of objects (per built-in class: base, fresh clone, one variant per field, typed
constant variants, normalisation variants; per generated user class: instances and same-field
instances of the parent class) -- all ordered pairs against a spec-level reference; immutability of
every field of every pool object.
Engine B: per representative object family, all histories of {hash, ==, copy, deepcopy, pickle,
identity mapping, cached identity mapping, str, repr, setattr attempt} up to a depth bound; after
every history the full equality/hash matrix of all live objects is compared with the reference.
Both under the default interpreter mode and under -O.
"""
from __future__ import annotations

import copy
import itertools
import pickle
import sys

from vf.checks.c09 import loose
from vf.explore import bfs
from vf.run import Check, Res
from vf.spec import (
    CSE, C, NONE, S, SCOPE_EVAL, SCOPE_EXPR, SCOPE_GLOBAL, T, V, build, class_tag, node_fields,
    show, sort_maps, to_spec)

HIST_DEPTH = {"quick": 2, "thorough": 3}
X, Y = V("x"), V("y")


# {{{ the pool

def builtin_families():
    """name -> (base spec, [variant specs differing in exactly one field / one constant type])"""
    fams = {}

    def add(name, base, variants):
        fams[name] = (base, variants)

    add("Variable", V("x"), [V("y")])
    add("Wildcard", ("Wildcard",), [])
    add("DotWildcard", ("DotWildcard", S("w")), [("DotWildcard", S("v"))])
    add("StarWildcard", ("StarWildcard", S("w")), [("StarWildcard", S("v")),
                                                    ("DotWildcard", S("w"))])
    add("FunctionSymbol", ("FunctionSymbol",), [])
    add("Call", ("Call", V("f"), T(X, C(1))),
        [("Call", V("g"), T(X, C(1))), ("Call", V("f"), T(Y, C(1))), ("Call", V("f"), T(X)),
         ("Call", V("f"), T(X, C(1.0))), ("Call", V("f"), T(X, C(True))),
         ("CallWithKwargs", V("f"), T(X, C(1)), ("map",))])
    add("CallWithKwargs",
        ("CallWithKwargs", V("f"), T(X), ("map", ("k", C(1)), ("j", Y))),
        [("CallWithKwargs", V("g"), T(X), ("map", ("k", C(1)), ("j", Y))),
         ("CallWithKwargs", V("f"), T(Y), ("map", ("k", C(1)), ("j", Y))),
         ("CallWithKwargs", V("f"), T(X), ("map", ("k", C(2)), ("j", Y))),
         ("CallWithKwargs", V("f"), T(X), ("map", ("k", C(1)))),
         ("CallWithKwargs", V("f"), T(X), ("map", ("k", C(1)), ("i", Y))),
         ("CallWithKwargs", V("f"), T(X), ("map", ("j", Y), ("k", C(1)))),      # other order
         ("CallWithKwargs", V("f"), T(X), ("dict", ("k", C(1)), ("j", Y))),     # plain dict
         ("CallWithKwargs", V("f"), T(X), ("mproxy", ("k", C(1)), ("j", Y))),   # other Mappings
         ("CallWithKwargs", V("f"), T(X), ("userdict", ("j", Y), ("k", C(1)))),
         ("CallWithKwargs", V("f"), T(X), ("map", ("k", C(1.0)), ("j", Y)))])
    add("Subscript", ("Subscript", V("a"), X),
        [("Subscript", V("b"), X), ("Subscript", V("a"), Y), ("Subscript", V("a"), T(X)),
         ("Lookup", V("a"), S("x"))])
    add("Lookup", ("Lookup", V("a"), S("n")), [("Lookup", V("b"), S("n")),
                                               ("Lookup", V("a"), S("m"))])
    for tag in ("Sum", "Product", "BitwiseOr", "BitwiseXor", "BitwiseAnd", "LogicalOr",
                "LogicalAnd", "Min", "Max"):
        other = "Product" if tag == "Sum" else "Sum"
        add(tag, (tag, T(X, C(1))),
            [(tag, T(Y, C(1))), (tag, T(X, C(2))), (tag, T(C(1), X)), (tag, T(X, C(1), C(1))),
             (tag, T(X, C(1.0))), (tag, T(X, C(True))), (tag, T()), (other, T(X, C(1)))])
    for tag in ("Quotient", "FloorDiv", "Remainder", "Power", "LeftShift", "RightShift"):
        other = {"Quotient": "FloorDiv", "FloorDiv": "Remainder", "Remainder": "Quotient",
                 "Power": "Quotient", "LeftShift": "RightShift", "RightShift": "LeftShift"}[tag]
        add(tag, (tag, X, C(2)), [(tag, Y, C(2)), (tag, X, C(3)), (tag, C(2), X),
                                  (tag, X, C(2.0)), (other, X, C(2))])
    add("BitwiseNot", ("BitwiseNot", X), [("BitwiseNot", Y), ("LogicalNot", X)])
    add("LogicalNot", ("LogicalNot", X), [("LogicalNot", Y)])
    add("Comparison", ("Comparison", X, S("<"), Y),
        [("Comparison", Y, S("<"), Y), ("Comparison", X, S("<="), Y),
         ("Comparison", X, S("<"), X), ("Comparison", X, S("lt"), Y),      # name form
         ("Comparison", X, S("le"), Y), ("Comparison", X, S(">"), Y)])
    add("If", ("If", X, Y, C(0)), [("If", Y, Y, C(0)), ("If", X, X, C(0)), ("If", X, Y, C(1)),
                                   ("If", X, Y, C(False)), ("If", X, Y, C(0.0))])
    add("CommonSubexpression", CSE(X),
        [CSE(Y), CSE(X, "p"), CSE(X, None, SCOPE_EXPR), CSE(X, None, SCOPE_GLOBAL),
         ("CommonSubexpression", X, NONE, NONE),                                  # scope None
         ("CommonSubexpression", X, S("p"), SCOPE_EXPR)])
    add("Substitution", ("Substitution", X, T(S("x")), T(Y)),
        [("Substitution", Y, T(S("x")), T(Y)), ("Substitution", X, T(S("y")), T(Y)),
         ("Substitution", X, T(S("x")), T(C(1))), ("Substitution", X, T(S("x"), S("y")), T(Y, Y))])
    add("Derivative", ("Derivative", X, T(S("x"))),
        [("Derivative", Y, T(S("x"))), ("Derivative", X, T(S("y"))),
         ("Derivative", X, T(S("x"), S("x")))])
    add("Slice", ("Slice", T(X, Y)),
        [("Slice", T(X)), ("Slice", T(X, NONE)), ("Slice", T(NONE, Y)), ("Slice", T()),
         ("Slice", T(X, Y, C(1))), ("Slice", T(Y, X)), ("Slice", T(NONE,))])
    add("NaN", ("NaN", NONE), [("NaN", ("type", "float")), ("NaN", ("type", "np.float64"))])
    add("AlgebraicLeaf", ("AlgebraicLeaf",), [("Leaf",)])
    # constants that differ but collide under hash(): hash(-1) == hash(-2), hash(0) == hash(2**61-1)
    # -- the hash short-cut of == does not separate them, only the field comparison does
    M1, M2, BIG = C(-1), C(-2), C(2**61 - 1)
    add("twin:Sum", ("Sum", T(X, M1)), [("Sum", T(X, M2)), ("Sum", T(M2, X))])
    add("twin:Product", ("Product", T(C(0), X)), [("Product", T(BIG, X))])
    add("twin:Power", ("Power", X, M1), [("Power", X, M2), ("Power", M2, X)])
    add("twin:Call", ("Call", V("f"), T(M1)), [("Call", V("f"), T(M2))])
    add("twin:CallWithKwargs", ("CallWithKwargs", V("f"), T(), ("map", ("k", M1))),
        [("CallWithKwargs", V("f"), T(), ("map", ("k", M2)))])
    add("twin:Subscript", ("Subscript", V("a"), M1), [("Subscript", V("a"), M2),
                                                      ("Subscript", V("a"), T(M2))])
    add("twin:If", ("If", X, C(0), M1), [("If", X, BIG, M1), ("If", X, C(0), M2)])
    add("twin:Comparison", ("Comparison", X, S("<"), M1), [("Comparison", X, S("<"), M2)])
    add("twin:CommonSubexpression", CSE(("Sum", T(X, M1))), [CSE(("Sum", T(X, M2)))])
    add("twin:Slice", ("Slice", T(C(0), M1)), [("Slice", T(C(0), M2)), ("Slice", T(BIG, M1))])
    add("twin:nested", ("Sum", T(("Product", T(X, M1)), ("Power", X, C(0)))),
        [("Sum", T(("Product", T(X, M2)), ("Power", X, C(0)))),
         ("Sum", T(("Product", T(X, M1)), ("Power", X, BIG)))])
    add("nested", ("Sum", T(("Product", T(X, C(2))), ("Power", X, C(2)))),
        [("Sum", T(("Product", T(X, C(2.0))), ("Power", X, C(2)))),
         ("Sum", T(("Product", T(X, C(2))), ("Power", X, C(True)))),
         ("Sum", T(("Product", T(X, C(2))), ("Power", Y, C(2))))])
    return fams


NAME_PROBES_ONLY = {"FooBar", "HTTPServer", "MyCSENode", "A", "ABCd", "XMLHttpRequest2", "_Tagged",
                    "Lambda_", "With_Under", "_x", "Norm2Squared", "Grad3D", "lower", "__Dunder"}


def user_families():
    import vf.usercls_gen as u
    vals = {"name": S("x"), "children": T(X, C(1)), "child": X, "prefix": NONE,
            "scope": SCOPE_EVAL, "u": C(11), "w": C(12)}
    alt = {"name": S("y"), "children": T(Y, C(1)), "child": Y, "prefix": S("p"),
           "scope": SCOPE_GLOBAL, "u": C(13), "w": C(14)}
    fams = {}
    for name, info in u.CLASSES.items():
        if name in NAME_PROBES_ONLY:
            continue        # classes that only probe the handler-name derivation (C04): they are
                            # one-field decorated classes like Foo
        tag = class_tag(info["cls"])
        base = (tag, *[vals[f] for f in info["fields"]])
        variants = []
        for i, f in enumerate(info["fields"]):
            fl = [vals[g] for g in info["fields"]]
            fl[i] = alt[f]
            variants.append((tag, *fl))
        # same field values, other class: the built-in base and the sibling hierarchy levels
        nb = {"Expression": 0, "Variable": 1, "Sum": 1, "CommonSubexpression": 3}[info["base"]]
        if info["base"] != "Expression":
            variants.append((info["base"], *[vals[f] for f in info["fields"][:nb]]))
        for other, oinfo in u.CLASSES.items():
            if other != name and oinfo["fields"] == info["fields"] and \
                    oinfo["base"] == info["base"]:
                variants.append((class_tag(oinfo["cls"]), *[vals[f] for f in oinfo["fields"]]))
        fams["U:" + name] = (base, variants)
        # the added fields with values that differ but collide under hash()
        extra = [f for f in info["fields"] if f in ("u", "w")]
        if extra:
            tv = dict(vals, u=C(-1), w=C(0))
            ta = dict(alt, u=C(-2), w=C(2**61 - 1))
            tvariants = []
            for f in extra:
                fl = [tv[g] for g in info["fields"]]
                fl[info["fields"].index(f)] = ta[f]
                tvariants.append((tag, *fl))
            fams["UT:" + name] = ((tag, *[tv[f] for f in info["fields"]]), tvariants)
    return fams


def all_families():
    f = builtin_families()
    f.update(user_families())
    return f

# }}}


def ref_equal(sa, sb):
    """Same class and pairwise == fields, read off the *normalised* specs (to_spec of the built
    objects, i.e. what introspection of the fields shows)."""
    return loose(sort_maps(sa)) == loose(sort_maps(sb))


def lib_eq(a, b):
    return a == b


def pair_failure(a, b, sa, sb):
    want = ref_equal(sa, sb)
    try:
        got = a == b
        ne = a != b
    except RecursionError:
        raise
    except Exception as e:  # noqa: BLE001
        return f"eq-raises:{type(e).__name__}", f"== raised {e!r}"
    if got is not want and got != want:
        return ("eq-wrong", f"== gives {got!r}, fields say {want}")
    if ne == got:
        return "ne-inconsistent", f"!= gives {ne!r} while == gives {got!r}"
    if want:
        try:
            ha, hb = hash(a), hash(b)
        except RecursionError:
            raise
        except Exception as e:  # noqa: BLE001
            return f"hash-raises:{type(e).__name__}", f"hash raised {e!r}"
        if ha != hb:
            return "hash-differs", f"equal objects hash to {ha} and {hb}"
        d = {a: 1}
        if d.get(b) != 1 or b not in {a}:
            return "dict-lookup", "an equal object does not find the other as dict / set key"
    return None


# {{{ two different classes with one name (a class factory called twice, two modules)

SAME_NAME_KINDS = ("legacy", "decorated", "legacy-sub-variable", "undecorated-sub-sum",
                   "field-compare-false", "field-hash-false", "field-repr-false", "field-kw-only")


def _class_factory(kind):
    import pymbolic.primitives as p
    if kind == "legacy":
        class Twin(p.Expression):
            init_arg_names = ("u",)
            mapper_method = "map_twin"

            def __init__(self, u):
                object.__setattr__(self, "u", u)

            def __getinitargs__(self):
                return (self.u,)
    elif kind == "decorated":
        @p.expr_dataclass()
        class Twin(p.Expression):
            u: object
    elif kind == "legacy-sub-variable":
        class Twin(p.Variable):
            init_arg_names = ("name", "u")
            mapper_method = "map_twin"

            def __init__(self, name, u="t"):
                p.Variable.__init__(self, name)
                object.__setattr__(self, "u", u)

            def __getinitargs__(self):
                return (self.name, self.u)
    else:
        class Twin(p.Sum):
            pass
    return Twin


def fieldflag_failure(kind):
    """A user node whose extra field is declared with a dataclasses.field() flag (compare=False,
    hash=False, repr=False, kw_only=True): it is a field all the same -- two nodes that differ in
    it are different nodes, two that agree are equal and hash alike."""
    import dataclasses
    import warnings

    import pymbolic.primitives as p
    flag = {"field-compare-false": dict(compare=False), "field-hash-false": dict(hash=False),
            "field-repr-false": dict(repr=False), "field-kw-only": dict(kw_only=True)}[kind]
    with warnings.catch_warnings():
        warnings.simplefilter("ignore")

        @p.expr_dataclass()
        class Flagged(p.Variable):
            tag: object = dataclasses.field(default=None, **flag)

        def mk(t):
            return Flagged("x", tag=t) if kind == "field-kw-only" else Flagged("x", t)
        for t1, t2 in ((1, 2), (-1, -2), ("a", "b"), (None, 0)):
            a, a2, b = mk(t1), mk(t1), mk(t2)
            for x, y, want in ((a, a2, True), (a, b, False), (b, a, False),
                               (p.Sum((a, 1)), p.Sum((b, 1)), False)):
                try:
                    got = x == y
                    if got != want or (x != y) == got:
                        return ("eq-wrong", f"{kind}: tags {t1!r} / {t2!r}: {x!r} == {y!r} gives "
                                f"{got}")
                    if want and hash(x) != hash(y):
                        return ("hash-differs", f"{kind}: equal nodes hash apart")
                    if not want and len({x, y}) != 2:
                        return ("dict-lookup", f"{kind}: nodes differing in the flagged field "
                                "collapse into one set element")
                except RecursionError:
                    raise
                except Exception as e:  # noqa: BLE001
                    return (f"eq-raises:{type(e).__name__}", f"{kind}: {e!r}")
    return None


def samename_failure(kind):
    """Two classes made by calling one factory twice: same __name__, same fields, different
    classes.  Instances are never equal across them, alone or inside built-in nodes."""
    import warnings

    import pymbolic.primitives as p
    if kind.startswith("field-"):
        return fieldflag_failure(kind)
    with warnings.catch_warnings():
        warnings.simplefilter("ignore")
        ca, cb = _class_factory(kind), _class_factory(kind)
        arg = (p.Variable("x"), 1) if kind == "undecorated-sub-sum" else "x"
        mk = (lambda c: c(arg))
        for _round in range(3):         # earlier comparisons must not change later ones
            a, a2, b = mk(ca), mk(ca), mk(cb)
            for x, y, want in ((a, a2, True), (a, b, False), (b, a, False),
                               (p.Sum((a, 1)), p.Sum((a2, 1)), True),
                               (p.Sum((a, 1)), p.Sum((b, 1)), False),
                               (p.Call(p.Variable("f"), (b,)), p.Call(p.Variable("f"), (a,)),
                                False)):
                try:
                    got, ne = (x == y), (x != y)
                    if got != want or ne == got:
                        return ("eq-wrong", f"{kind}: {x!r} == {y!r} gives {got} (!= gives {ne}), "
                                f"the classes are {'the same' if want else 'different'}")
                    if want and (hash(x) != hash(y) or {x: 1}.get(y) != 1):
                        return ("hash-differs", f"{kind}: equal instances hash / look up apart")
                    if not want and ({x: 1}.get(y) is not None or len({x, y}) != 2):
                        return ("dict-lookup", f"{kind}: instances of two different classes "
                                "stand in for each other as dict / set keys")
                except RecursionError:
                    raise
                except Exception as e:  # noqa: BLE001
                    return (f"eq-raises:{type(e).__name__}", f"{kind}: {e!r}")
    return None

# }}}


# {{{ size: wide n-ary nodes, deep chains

WIDE_TAGS = ("Sum", "Product", "Min", "LogicalAnd", "Call", "tuple-in-Subscript")
WIDE_Q = (129, 300)
WIDE_T = (65, 129, 300, 1100)
DEEP_TAGS = ("Sum", "Power", "Call", "CommonSubexpression")
DEEP_Q = (60, 200, 400)
DEEP_T = (60, 200, 300, 400, 600, 900)


def _wide(tag, entries):
    import pymbolic.primitives as p
    t = tuple(entries)
    if tag == "Call":
        return p.Call(p.Variable("f"), t)
    if tag == "tuple-in-Subscript":
        return p.Subscript(p.Variable("a"), t)
    return getattr(p, tag)(t)


def wide_failure(tag, n, pos):
    """A node with *n* children against (a) an equal one built separately and (b) copies that
    differ in ONE child only, by a constant whose hash collides (-1 / -2, 0 / 2**61-1), by an
    unrelated constant, and by a variable -- at the first, the middle or the last position."""
    import pymbolic.primitives as p
    idx = {"first": 0, "middle": n // 2, "last": n - 1}[pos]
    base = [p.Variable(f"v{i % 7}") if i % 3 else i for i in range(n)]
    for here, there, equal in ((-1, -1, True), (-1, -2, False), (0, 2**61 - 1, False),
                               (-1, 5, False), (p.Variable("q"), p.Variable("r"), False),
                               (p.Power(p.Variable("q"), -1), p.Power(p.Variable("q"), -2),
                                False)):
        ea, eb = list(base), list(base)
        ea[idx], eb[idx] = here, there
        a, b = _wide(tag, ea), _wide(tag, eb)
        for x, y in ((a, b), (b, a)):
            try:
                got, ne = (x == y), (x != y)
                if got != equal or ne == got:
                    return ("eq-wrong", f"{n} children, entry {idx} is {here!r} in one and "
                            f"{there!r} in the other: == gives {got}, != gives {ne}")
                if equal and (hash(x) != hash(y) or {x: 1}.get(y) != 1):
                    return ("hash-differs", f"{n} children: equal nodes hash / look up apart")
                if not equal and len({x, y}) != 2:
                    return ("dict-lookup", f"{n} children, entry {idx} {here!r} / {there!r}: the "
                            "two nodes collapse into one set element")
            except RecursionError:
                raise
            except Exception as e:  # noqa: BLE001
                return (f"eq-raises:{type(e).__name__}", f"{n} children: {e!r}")
    return None


def _deep(tag, depth):
    """Built bottom-up, hashing every level (so that hash() never has to recurse)."""
    import pymbolic.primitives as p
    e = p.Variable("x")
    for i in range(depth):
        if tag == "Sum":
            e = p.Sum((e, i % 3))
        elif tag == "Power":
            e = p.Power(e, 2) if i % 2 else p.Power(2, e)
        elif tag == "Call":
            e = p.Call(p.Variable("f"), (e,))
        else:
            e = p.CommonSubexpression(e, "p" if i % 2 else None)
        hash(e)
    return e


def deep_failure(tag, depth, r=None):
    """Two separately built, structurally identical chains: == is True -- or the comparison gives
    up with RecursionError; it never answers False (and != never True, a dict never misses
    silently).  A chain that differs at the very bottom must not compare equal."""
    a, b = _deep(tag, depth), _deep(tag, depth)
    for what, fn, good in (("==", lambda: a == b, True), ("!=", lambda: a != b, False),
                           ("dict look-up", lambda: {a: 1}.get(b), 1),
                           ("set membership", lambda: b in {a}, True)):
        try:
            got = fn()
        except RecursionError:
            if r is not None:
                r.count("deep_comparisons_gave_up")
            continue
        if got != good:
            return ("eq-wrong", f"two identical {tag} chains of depth {depth}: {what} gives "
                    f"{got!r}")
    return None

# }}}


def self_failure(o):
    """Reflexivity on ONE object, whatever its fields hold (a constant that is not equal to itself
    must not make the node unequal to itself): ==, !=, hash, set and dict membership."""
    try:
        if not (o == o):
            return "reflexivity", "o == o is False for one and the same object"
        if o != o:
            return "reflexivity", "o != o is True for one and the same object"
        if hash(o) != hash(o):
            return "hash-changed", "two hash() calls differ"
        if o not in {o} or {o: 1}.get(o) != 1 or o not in [o] or o not in (o,):
            return "dict-lookup", "the object does not find itself as set / dict / list member"
        c = copy.copy(o)
        if hash(c) != hash(o):
            return "hash-differs", "a copy hashes differently"
    except RecursionError:
        raise
    except Exception as e:  # noqa: BLE001
        return f"self-raises:{type(e).__name__}", f"raised {e!r}"
    return None


def _nan_objects():
    import numpy as np
    import pymbolic.primitives as p
    x = p.Variable("x")
    out = []
    for nname, mk in (("float-nan", lambda: float("nan")), ("np-nan", lambda: np.float64("nan")),
                      ("complex-nan", lambda: complex(float("nan"), 0.0))):
        out += [
            (f"Power({nname}, 2)", lambda mk=mk: p.Power(mk(), 2)),
            (f"Power(x, {nname})", lambda mk=mk: p.Power(x, mk())),
            (f"Quotient({nname}, x)", lambda mk=mk: p.Quotient(mk(), x)),
            (f"Subscript(a, {nname})", lambda mk=mk: p.Subscript(p.Variable("a"), mk())),
            (f"If(x, {nname}, 0)", lambda mk=mk: p.If(x, mk(), 0)),
            (f"Comparison(x, <, {nname})", lambda mk=mk: p.Comparison(x, "<", mk())),
            (f"CSE({nname})", lambda mk=mk: p.CommonSubexpression(mk())),
            (f"Sum((x, {nname}))", lambda mk=mk: p.Sum((x, mk()))),
            (f"Call(f, ({nname},))", lambda mk=mk: p.Call(p.Variable("f"), (mk(),))),
            (f"Sum((x, Power({nname}, 2)))", lambda mk=mk: p.Sum((x, p.Power(mk(), 2)))),
            (f"LogicalNot({nname})", lambda mk=mk: p.LogicalNot(mk())),
        ]
    import vf.usercls_gen as u
    for cname in ("ExpD1", "ExpL", "SumD1", "SumL", "ExpDI"):
        info = u.CLASSES.get(cname)
        if info is None:
            continue
        vals = {"children": (x, 1), "u": float("nan")}
        out.append((f"{cname}(u=nan)",
                    lambda info=info, vals=vals: info["cls"](*[vals[f] for f in info["fields"]])))
    return out


NAN_OBJECTS = _nan_objects()


def immutability_failure(obj, spec):
    import pymbolic.primitives as p
    if not isinstance(obj, p.Expression):
        return None
    before = to_spec(obj)
    hb = hash(obj)
    names = []
    try:
        import dataclasses
        names = [f.name for f in dataclasses.fields(obj)]
    except TypeError:
        pass
    for n in getattr(obj, "init_arg_names", ()) or ():
        if n not in names:
            names.append(n)
    for name in names:
        cur = getattr(obj, name)
        for val, what in ((cur, "the same value"), (("changed",), "a different value")):
            try:
                setattr(obj, name, val)
                raised = False
            except (AttributeError, TypeError):
                raised = True
            if not raised:
                # restore, then report
                try:
                    object.__setattr__(obj, name, cur)
                except Exception:  # noqa: BLE001
                    pass
                return "mutable", f"setattr(obj, {name!r}, {what}) did not raise"
        try:
            delattr(obj, name)
            raised = False
        except (AttributeError, TypeError):
            raised = True
        if not raised:
            try:
                object.__setattr__(obj, name, cur)
            except Exception:  # noqa: BLE001
                pass
            return "mutable", f"delattr(obj, {name!r}) did not raise"
    if to_spec(obj) != before or hash(obj) != hb:
        return "mutated", "fields or hash changed after rejected mutation attempts"
    return None


# {{{ object lifetimes

def sub_objects(o, out):
    """the expression objects of a tree, root included"""
    import pymbolic.primitives as p
    if isinstance(o, p.Expression):
        out.append(o)
        for v in node_fields(o):
            sub_objects(v, out)
    elif isinstance(o, tuple):
        for v in o:
            sub_objects(v, out)
    return out


def lifetime_failure(base, variants, r, rounds):
    """History with object lifetimes: compare long-lived objects a_k with equal temporaries b_k
    (==, hash, dict probe), drop every b_k, then build other trees; whenever one of their nodes
    comes to live at a dropped b's address, a_k == node must still be what the fields say.
    -> (number of address re-uses observed, failure or None)"""
    npairs = 24
    pairs = [(build(base), build(base)) for _ in range(npairs)]
    keep_a, owner = [], {}
    sa = to_spec(pairs[0][0])
    for a, b in pairs:
        f = pair_failure(a, b, sa, sa) or pair_failure(b, a, sa, sa)
        if f:
            return 0, f
        for n in sub_objects(b, []):
            if n is not b:
                owner.setdefault(id(n), None)      # a dropped child: address of interest, no peer
        owner[id(b)] = a
        keep_a.append(a)
    del a, b, n
    pairs.clear()                                  # every b dies here, all a's live on
    hits = 0
    keep = []
    others = [*variants, base] if variants else [base, ("Variable", ("str", "zz"))]
    for i in range(rounds):
        for v in others:
            c = build(v)
            keep.append(c)
            for node in sub_objects(c, []):
                a = owner.get(id(node))
                if a is None:
                    continue
                hits += 1
                r.evals += 1
                sn = to_spec(node)
                f = pair_failure(a, node, sa, sn) or pair_failure(node, a, sn, sa)
                if f:
                    return hits, (f[0] + ":after-peer-dropped",
                                  f"{show(sa)} was compared with an equal temporary, the temporary "
                                  f"was dropped and a structurally different node of a later tree "
                                  f"now lives at its address: {f[1]}")
    return hits, None

# }}}


# {{{ Engine B

def unary_ops(tier):
    protos = (2, pickle.HIGHEST_PROTOCOL) if tier == "quick" else tuple(
        range(pickle.HIGHEST_PROTOCOL + 1))
    ops = ["hash", "copy", "deepcopy", "ident", "cident", "str", "repr", "setattr", "dictput",
           "dictget", *HELPER_OPS]
    ops += [f"pickle{p_}" for p_ in protos]
    return ops


# library helpers that are handed an expression and must leave it as it is
HELPER_OPS = ("wrapcse", "mkcse", "tagcse", "subst", "deps", "flatsum")


def run_helper(kind, o):
    import pymbolic.primitives as p
    if kind == "wrapcse":
        return p.wrap_in_cse(o, "tmp")
    if kind == "mkcse":
        return p.make_common_subexpression(o, "tmp")
    if kind == "tagcse":
        from pymbolic.cse import tag_common_subexpressions
        return tag_common_subexpressions([o, p.Sum((o, 1)), p.Product((o, o))])
    if kind == "subst":
        from pymbolic import substitute
        return substitute(o, {"zz": 1, "x": p.Variable("q")})
    if kind == "deps":
        from pymbolic.mapper.dependency import DependencyMapper
        return DependencyMapper(include_cses=True)(o)
    return p.flattened_sum([o, 1, o])


def run_history(fam_specs, hist):
    """Replay on fresh objects; -> (violation or None, outcome)"""
    from pymbolic.mapper import CachedIdentityMapper, IdentityMapper
    import pymbolic.primitives as p
    objs = [build(s) for s in fam_specs]
    specs = [to_spec(o) for o in objs]            # normalised reading of the fields
    first_hash = {}
    derived = []        # (object, source index, how)
    store = {}

    def note_hash(i, o):
        h = hash(o)
        if i in first_hash and first_hash[i] != h:
            return ("hash-changed", f"hash of object {i} changed from {first_hash[i]} to {h}")
        first_hash.setdefault(i, h)
        return None

    for op in hist:
        kind = op[0]
        i = op[1]
        o = objs[i]
        try:
            if kind == "hash":
                v = note_hash(i, o)
                if v:
                    return v, None
            elif kind == "eq":
                j = op[2]
                got = o == objs[j]
                want = ref_equal(specs[i], specs[j])
                if got != want:
                    return ("eq-wrong", f"after {hist[:hist.index(op)]}: object {i} == object {j} "
                            f"gives {got!r}, fields say {want}"), None
            elif kind == "copy":
                derived.append((copy.copy(o), i, kind))
            elif kind == "deepcopy":
                derived.append((copy.deepcopy(o), i, kind))
            elif kind.startswith("pickle"):
                derived.append((pickle.loads(pickle.dumps(o, int(kind[6:]))), i, kind))
            elif kind == "ident":
                derived.append((IdentityMapper()(o), i, kind))
            elif kind == "cident":
                derived.append((CachedIdentityMapper()(o), i, kind))
            elif kind in HELPER_OPS:
                try:
                    run_helper(kind, o)
                except RecursionError:
                    raise
                except Exception:  # noqa: BLE001
                    pass            # not every object is a valid input of every helper
                if to_spec(o) != specs[i]:
                    return ("mutated", f"{kind} changed the fields of object {i}: now "
                            f"{show(to_spec(o))}, was {show(specs[i])}"), None
            elif kind == "str":
                str(o)
            elif kind == "repr":
                repr(o)
            elif kind == "dictput":
                store[o] = i
            elif kind == "dictget":
                got = store.get(o, None)
                want = None
                for k_i in [k for k in store.values()]:
                    if ref_equal(specs[k_i], specs[i]):
                        want = "some"
                if (got is None) != (want is None):
                    return ("dict-lookup", f"look-up of object {i} gives {got!r} but an equal key "
                            f"{'was' if want else 'was not'} inserted"), None
            elif kind == "setattr":
                if isinstance(o, p.Expression) and not sys.flags.optimize:
                    fields = node_fields(o)
                    import dataclasses
                    try:
                        names = [f.name for f in dataclasses.fields(o)]
                    except TypeError:
                        names = list(getattr(o, "init_arg_names", ()))
                    for name in names[:1]:
                        try:
                            setattr(o, name, getattr(o, name))
                            return ("mutable", f"setattr on field {name!r} of object {i} did not "
                                    "raise"), None
                        except (AttributeError, TypeError):
                            pass
                    if node_fields(o) != fields:
                        return ("mutated", "fields changed"), None
        except RecursionError:
            raise
        except Exception as e:  # noqa: BLE001
            if kind in ("str", "repr", "ident", "cident") and isinstance(
                    e, (ValueError, NotImplementedError)):
                continue        # this mapper has no handler for the class (C04's business)
            return (f"op-raises:{kind}:{type(e).__name__}", f"{kind} on object {i} raised {e!r}"), None
    # ---- final observation: the whole matrix over all live objects -----------------------------
    live = [(o, specs[i], f"#{i}") for i, o in enumerate(objs)]
    for d, i, how in derived:
        ds = to_spec(d)
        if sort_maps(ds) != sort_maps(specs[i]):
            return ("derived-differs", f"{how} of object {i} reads back as {show(ds)}, source is "
                    f"{show(specs[i])}"), None
        live.append((d, specs[i], f"{how}(#{i})"))
    for (a, sa, na), (b, sb, nb) in itertools.product(live, repeat=2):
        f = pair_failure(a, b, sa, sb)
        if f:
            return (f[0], f"after history {hist}: {na} vs {nb}: {f[1]}"), None
    for i, o in enumerate(objs):
        v = note_hash(i, o)
        if v:
            return v, None
    return None, (len(live), len(first_hash))

# }}}


class C01(Check):
    pid = "C01"
    level = "model_checking"
    interp_modes = {"quick": ["", "-O"], "thorough": ["", "-O"]}
    rule = ("Engine A: pool = for every built-in node class a base instance, a fresh clone, one "
            "variant per field differing in exactly that field, typed-constant variants (1 / 1.0 / "
            "True), normalisation variants (operator by name, dict vs immutabledict keyword "
            "arguments in either order, scope None), same-field instances of neighbouring classes; "
            "for each of 79 generated user classes (decorated / undecorated / legacy / mixed "
            "hierarchies, init=False / hash=False) an instance, one variant per field and the "
            "same-field instances of the base class and of sibling classes; for built-in and user "
            "classes variants whose differing constants collide under hash() (-1/-2, 0/2**61-1); ALL ordered pairs of the pool against the "
            "spec-level reference (which is an equivalence relation, so transitivity follows from "
            "pairwise agreement), and set/del of every field of every pool object. Engine B: per "
            "family (base, clone, first variant(s)) all histories over {hash, ==, copy, deepcopy, "
            "pickle (protocols 2,5 / all), identity mapping, cached identity mapping, str, repr, "
            "dict insert / look-up, setattr attempt, and six library helpers that are handed the "
            "object (wrap_in_cse, make_common_subexpression, tag_common_subexpressions, substitute, "
            "dependency analysis, flattened_sum)} up to depth 2 (thorough: depth 3 over the "
            "operations other than the helpers for the built-in classes, four objects for the user classes), with "
            "the complete equality/hash matrix of all live and derived objects after every "
            "history. Everything under the default mode and under python -O. Non-trivial = pairs "
            "of distinct objects / histories of length >= 2; distinct = distinct pairs, histories.")
    assumptions = [
        "the reference reads fields by dataclasses.fields / __getinitargs__ only and compares "
        "constants with Python's == (1 == 1.0 == True)",
        "float nan constants inside fields are excluded from the cross-object matrix (tuple "
        "identity short-cut); NaN nodes are included; objects with nan fields are checked for "
        "reflexivity on one object only",
        "under -O the immutability clause is not asserted (the statement says 'in the default "
        "interpreter mode')",
        "state canon = history with exact repeats removed (an operation repeated on the same "
        "object leaves hash caches and field values as they are; checked by the final matrix)",
    ]
    chunk = 1
    item_timeout = 600

    def families(self, tier):
        fams = all_families()
        names = sorted(fams)

        def pool_items():
            # shard the all-pairs matrix by row blocks
            n = sum(2 + len(v) for _, v in fams.values())
            for start in range(0, n, 12):
                yield ("pairs", start, min(start + 12, n))

        def immut():
            for nm in names:
                yield ("immut", nm)

        def hist():
            for nm in names:
                yield ("hist", nm)
        def classdefs():
            import vf.usercls_gen as u
            for nm in u.EXPECTED:
                yield ("classdef", nm)
        def life():
            for nm in names:
                yield ("life", nm)

        def selfcmp():
            for i in range(len(NAN_OBJECTS)):
                yield ("self", i)

        def samename():
            for kind in SAME_NAME_KINDS:
                yield ("samename", kind)

        def wide():
            for tag in WIDE_TAGS:
                for n in (WIDE_Q if tier == "quick" else WIDE_T):
                    for pos in ("first", "middle", "last"):
                        yield ("wide", tag, n, pos)

        def deep():
            for tag in DEEP_TAGS:
                for d in (DEEP_Q if tier == "quick" else DEEP_T):
                    yield ("deep", tag, d)
        return [("class-definitions", classdefs), ("pairs", pool_items),
                ("immutability", immut), ("self-comparison", selfcmp),
                ("same-named-classes", samename), ("wide-nodes", wide),
                ("deep-chains", deep), ("lifetimes", life),
                ("histories", hist)]

    def pool(self):
        fams = all_families()
        out = []
        for nm in sorted(fams):
            base, variants = fams[nm]
            out.append((nm + ":base", base))
            out.append((nm + ":clone", base))
            for k, v in enumerate(variants):
                out.append((f"{nm}:v{k}", v))
        return out

    def check_item(self, family, item, tier):
        r = Res()
        kind = item[0]
        if kind == "classdef":
            import vf.usercls_gen as u
            r.evals += 1
            r.keys.append(item)
            if item[1] in u.BROKEN:
                r.fail("class-definition-raises", f"class-definition-raises|{item[1]}",
                       f"defining the user node class {item[1]} (see vf/usercls_gen.py) raised "
                       f"{u.BROKEN[item[1]]}")
            return r
        if kind == "pairs":
            pool = self.pool()
            objs = [(nm, build(s)) for nm, s in pool]
            specs = [to_spec(o) for _, o in objs]
            for i in range(item[1], item[2]):
                for j in range(len(objs)):
                    r.evals += 1
                    if i != j:
                        r.keys.append((i, j))
                    f = pair_failure(objs[i][1], objs[j][1], specs[i], specs[j])
                    if f:
                        r.fail(f[0], f"{f[0]}|{show(specs[i])}|{show(specs[j])}",
                               f"{objs[i][0]} = {show(specs[i])} vs {objs[j][0]} = "
                               f"{show(specs[j])}: {f[1]}", witness=("pair", pool[i][1],
                                                                     pool[j][1]))
            return r
        if kind == "pair":
            a, b = build(item[1]), build(item[2])
            f = pair_failure(a, b, to_spec(a), to_spec(b))
            if f:
                r.fail(f[0], f"{f[0]}|{show(to_spec(a))}|{show(to_spec(b))}", f[1])
            return r
        if kind == "samename":
            r.evals += 1
            r.keys.append(item)
            f = samename_failure(item[1])
            if f:
                r.fail(f[0], f"{f[0]}|same-named {item[1]} classes", f[1])
            return r
        if kind == "wide":
            r.evals += 1
            r.keys.append(item)
            f = wide_failure(*item[1:])
            if f:
                r.fail(f[0], f"{f[0]}|wide {item[1]} n={item[2]} {item[3]}", f[1])
            return r
        if kind == "deep":
            r.evals += 1
            r.keys.append(item)
            f = deep_failure(item[1], item[2], r)
            if f:
                r.fail(f[0], f"{f[0]}|deep {item[1]} depth={item[2]}", f[1])
            return r
        if kind == "self":
            name, mk = NAN_OBJECTS[item[1]]
            o = mk()
            r.evals += 1
            r.keys.append(item)
            f = self_failure(o)
            if f:
                r.fail(f[0], f"{f[0]}|{name}", f"{name}: {f[1]}")
            return r
        fams = all_families()
        base, variants = fams[item[1]]
        if kind == "immut":
            if sys.flags.optimize:
                return r
            for s in [base, *variants]:
                r.evals += 1
                o = build(s)
                r.keys.append(s)
                f = immutability_failure(o, s)
                if f:
                    r.fail(f[0], f"{f[0]}|{class_name(o)}", f"{show(to_spec(o))}: {f[1]}",
                           witness=item)
                    break
            return r
        if kind == "life":
            # the experiment is repeated: whether a later node lands on a dropped address depends
            # on the allocator's state; a failure found in any repetition is definite
            hits, f = 0, None
            for _attempt in range(3):
                h, f = lifetime_failure(base, variants, r, 40 if tier == "quick" else 200)
                hits += h
                if f:
                    break
            r.count("address_reuse_hits", hits)
            r.keys.append(item)
            if f:
                r.fail(f[0], f"{f[0]}|{item[1]}", f"family {item[1]}: {f[1]}", witness=item)
            return r
        # histories
        if tier == "quick" and item[1].startswith("UT:"):
            return r            # quick: the all-pairs matrix is their comparison history
        if tier == "quick" and sys.flags.optimize:
            return r            # quick: histories in the default mode only
        deep = tier == "thorough" and not item[1].startswith("U:")
        fam_specs = [base, base, *variants[:1]] if (tier == "quick" or deep) \
            else [base, base, *variants[:2]]
        n = len(fam_specs)
        menu = [(u, i) for i in range(n) for u in unary_ops(tier)]
        menu += [("eq", i, j) for i in range(n) for j in range(n) if i != j]
        core = [op for op in menu if op[0] not in HELPER_OPS]

        def step(hist):
            r.evals += 1
            return run_history(fam_specs, hist)
        # depth 3 over the core operations; the library helpers join in up to depth 2
        runs = [(core, 3), (menu, 2)] if deep else [(menu, 2)]
        seen_sigs = set()
        for mn, depth in runs:
            ex = bfs(mn, step, depth)
            r.count("states", ex.states)
            r.count("transitions", ex.transitions)
            r.count("histories", ex.transitions)
            r.count("max_depth", ex.max_depth)
            r.keys.extend((item[1], depth, k) for k in range(ex.states))
            for hist, k, detail in ex.violations:
                ops = ",".join(op[0] for op in hist)
                sig = f"{k}|{item[1]}|{ops}"
                if k == "mutable":
                    # a property of the class
                    sig = f"{k}|{item[1].removeprefix('UT:').removeprefix('U:')}"
                if (sig, hist) in seen_sigs:
                    continue
                seen_sigs.add((sig, hist))
                r.fail(k, sig, f"family {item[1]}: {detail}", witness=item)
        return r


def class_name(o):
    return type(o).__name__


CHECK = C01()

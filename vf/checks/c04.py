"""C04 -- mapper dispatch and the stock traversals reach every node correctly.

Engine A.
  dispatch   : every generated user class (hierarchies of depth 1-2 over Expression / Variable /
               Sum / CommonSubexpression; decorated, undecorated, legacy, mixed) x every subset of
               the handlers in its chain x {Mapper, CachedMapper} x {__call__, rec, rec_fallback};
               foreign objects; derived handler names.
  traversals : depth-2 trees and every (parent, position, child) nesting over the full alphabet x
               extra-argument shapes x {Identity, Walk, Combine, Collector, Callback (+ cached)}.
"""
from __future__ import annotations

import itertools
from collections import Counter
from fractions import Fraction

import numpy as np

from vf import gen
from vf.checks.c08 import identity_violation
from vf.checks.c09 import base_view, expr_children
from vf.gen_usercls import snake
from vf.localise import localise
from vf.run import Check, Res
from vf.spec import (
    C, S, T, V, build, build_shared, class_tag, show, sort_maps, spec_children, rebuild, to_spec,
    walk)

ARG_SHAPES_Q = [((), {}), ((7,), {}), ((7, "a"), {"k": 1})]
ARG_SHAPES_T = [((), {}), ((7,), {}), ((7, "a"), {}), ((), {"k": 1}), ((7,), {"k": 1}),
                ((7, "a"), {"k": 1, "j": (2,)})]

LEAF_TAGS = ("Variable", "int", "float", "bool", "complex", "NaN", "Wildcard", "DotWildcard",
             "StarWildcard", "FunctionSymbol")
COMBINE_UNSUPPORTED = {"Slice", "Substitution", "Derivative", "NaN", "Wildcard", "DotWildcard",
                       "StarWildcard", "FunctionSymbol"}
COLLECTOR_UNSUPPORTED = {"Slice", "Substitution", "Derivative", "NaN"}
CALLBACK_SUPPORTED = {"Variable", "FunctionSymbol", "Call", "Subscript", "Lookup", "Sum",
                      "Product", "Quotient", "FloorDiv", "Remainder", "Power", "LeftShift",
                      "RightShift", "BitwiseNot", "BitwiseOr", "BitwiseXor", "BitwiseAnd",
                      "LogicalNot", "LogicalOr", "LogicalAnd", "list", "tuple", "array",
                      "CommonSubexpression", "If", "Comparison", "int", "float", "bool", "complex",
                      "str", "none", "map", "type"}


# a one-element Slice is degenerate (its start and stop are the same child); one explicit probe
# of it is kept in the "trav-special" family
TRAV_CTORS = gen.ctors(exclude_names=("Slice1",))


def norm(o):
    return sort_maps(to_spec(o))


# {{{ dispatch

_MI = {}


def mi_classes():
    """Node classes with TWO bases (a 'trait' class with its own handler name first, a stock or
    user node class second): the handler of the second base is an ancestor handler like any other.
    Local to this check (C01 / C17 do not need them)."""
    if _MI:
        return _MI
    from pymbolic.primitives import Expression, Sum, Variable, expr_dataclass

    @expr_dataclass()
    class TraitU(Expression):
        pass

    @expr_dataclass()
    class TraitVarU(TraitU, Variable):
        pass

    @expr_dataclass()
    class TraitSumU(TraitU, Sum):
        pass

    class PlainTraitU:                      # not an expression class, no handler name
        pass

    @expr_dataclass()
    class PlainTraitVarU(PlainTraitU, Variable):
        pass

    @expr_dataclass()
    class TraitVarUU(TraitVarU):
        pass

    for cls, fields in ((TraitVarU, ("name",)), (TraitSumU, ("children",)),
                        (PlainTraitVarU, ("name",)), (TraitVarUU, ("name",))):
        chain = []
        for c in cls.__mro__:
            hn = c.__dict__.get("mapper_method")
            if hn and hn not in chain:
                chain.append(hn)
        # (map_leaf / map_algebraic_leaf are what the Mapper base class itself delegates map_variable
        # to: not part of the menu, as for the generated classes)
        chain = [h for h in chain if h not in ("map_leaf", "map_algebraic_leaf")]
        _MI["MI:" + cls.__name__] = dict(cls=cls, fields=fields, handler_chain=tuple(chain))
    return _MI


def class_info(name):
    import vf.usercls_gen as u
    return mi_classes()[name] if name.startswith("MI:") else u.CLASSES[name]


def user_instance(name):
    info = class_info(name)
    vals = {"name": "x", "children": (1, 2), "child": 5, "prefix": None,
            "scope": "pymbolic_eval", "u": 11, "w": 12}
    return info["cls"](*[vals[f] for f in info["fields"]])


class HandlerError(Exception):
    pass


HANDLER_EXCEPTIONS = (AttributeError, KeyError, TypeError, ValueError, LookupError,
                      NotImplementedError, RuntimeError, HandlerError)


def make_mapper(cached, handler_names, log, raises=None):
    from pymbolic.mapper import CachedMapper, Mapper
    base = CachedMapper if cached else Mapper
    ns = {}
    for hn in handler_names:
        def h(self, expr, *a, _hn=hn, **k):
            log.append((_hn, a, dict(k)))
            if raises is not None:
                raise raises(f"raised inside {_hn}")
            return ("handled", _hn)
        ns[hn] = h
    return type("M", (base,), ns)()


def expected_handler(expr, mapper):
    """The resolution order of the statement, restated: the node's own handler name, then the
    nearest ancestor class whose handler the mapper implements."""
    for cls in type(expr).__mro__:
        hn = getattr(cls, "mapper_method", None)
        if hn and hasattr(mapper, hn):
            return hn
    return None


def check_dispatch(item):
    from pymbolic.mapper import UnsupportedExpressionError
    name, mask, cached, entry = item
    chain = class_info(name)["handler_chain"]
    impl = [h for i, h in enumerate(chain) if mask >> i & 1]
    fails = []
    for args, kw in ARG_SHAPES_Q:
        expr = user_instance(name)
        log = []
        m = make_mapper(cached, impl, log)
        want = expected_handler(expr, m)
        if entry == "rec_fallback":
            # rec_fallback starts at the parent class
            want = None
            for cls in type(expr).__mro__[1:]:
                hn = getattr(cls, "mapper_method", None)
                if hn and hasattr(m, hn):
                    want = hn
                    break
        fn = {"call": m, "rec": m.rec, "rec_fallback": m.rec_fallback}[entry]
        try:
            res = ("ok", fn(expr, *args, **kw))
        except UnsupportedExpressionError:
            res = ("unsupported",)
        except NotImplementedError:
            res = ("notimplemented",)
        except RecursionError:
            raise
        except Exception as e:  # noqa: BLE001
            res = ("raised", type(e).__name__, str(e)[:100])
        if want in impl:
            good = res == ("ok", ("handled", want)) and log == [(want, args, kw)]
        elif want is None:
            good = res == ("unsupported",) and not log
        else:
            # a handler inherited from the Mapper base class (map_variable -> map_algebraic_leaf)
            good = res in (("notimplemented",), ("unsupported",)) and not log
        if not good:
            fails.append(("dispatch", f"dispatch|{name}|impl={impl}|{entry}|cached={cached}",
                          f"{name} (chain {chain}) with handlers {impl}, extra args {args} {kw}: "
                          f"expected handler {want}, got {res} log {log}"))
            break
    # an exception raised INSIDE the selected handler is the caller's to see: same class, and no
    # other handler is tried afterwards
    if not fails and want in impl:
        for exc in HANDLER_EXCEPTIONS:
            expr = user_instance(name)
            log = []
            m = make_mapper(cached, impl, log, raises=exc)
            fn = {"call": m, "rec": m.rec, "rec_fallback": m.rec_fallback}[entry]
            try:
                res = ("ok", fn(expr))
            except RecursionError:
                raise
            except Exception as e:  # noqa: BLE001
                res = ("raised", type(e).__name__, str(e)[:60])
            if res[:2] != ("raised", exc.__name__) or [x[0] for x in log] != [want]:
                fails.append(("dispatch:handler-exception",
                              f"dispatch:handler-exception|{exc.__name__}|{entry}|cached={cached}",
                              f"{name} with handlers {impl}: handler {want} raises "
                              f"{exc.__name__}; got {res}, handlers run: {[x[0] for x in log]}"))
                break
    return fails


FOREIGN = [
    ("int", lambda: 3, "map_constant"), ("float", lambda: 2.5, "map_constant"),
    ("complex", lambda: 1 + 2j, "map_constant"), ("bool", lambda: True, "map_constant"),
    ("np.int64", lambda: np.int64(3), "map_constant"),
    ("np.float32", lambda: np.float32(1.5), "map_constant"),
    ("np.bool_", lambda: np.bool_(True), "map_constant"),
    ("np.complex128", lambda: np.complex128(1j), "map_constant"),
    ("array0d", lambda: np.array(3), "map_numpy_array"),
    ("array1d-object", lambda: np.array([1, 2], dtype=object), "map_numpy_array"),
    ("array2d-numeric", lambda: np.zeros((2, 2)), "map_numpy_array"),
    ("list", lambda: [1, 2], "map_list"), ("empty-list", lambda: [], "map_list"),
    ("tuple", lambda: (1, 2), "map_tuple"), ("empty-tuple", lambda: (), "map_tuple"),
    ("str", lambda: "x", None), ("None", lambda: None, None), ("dict", lambda: {"a": 1}, None),
    ("set", lambda: {1}, None), ("Fraction", lambda: Fraction(1, 2), None),
    ("object", lambda: object(), None), ("bytes", lambda: b"x", None),
    ("range", lambda: range(2), None),
]
FOREIGN_HANDLERS = ("map_constant", "map_numpy_array", "map_list", "map_tuple")


def check_foreign(item):
    kind, cached, entry = item
    mk, want = next((f[1], f[2]) for f in FOREIGN if f[0] == kind)
    fails = []
    for args, kw in ARG_SHAPES_Q:
        obj = mk()
        log = []
        m = make_mapper(cached, FOREIGN_HANDLERS, log)
        fn = {"call": m, "rec": m.rec, "rec_fallback": m.rec_fallback}[entry]
        try:
            res = ("ok", fn(obj, *args, **kw))
        except RecursionError:
            raise
        except Exception as e:  # noqa: BLE001
            res = ("raised", type(e).__name__)
        unhashable = cached and entry != "rec_fallback" and kind in (
            "list", "empty-list", "dict", "set") or (cached and entry != "rec_fallback"
                                                      and kind.startswith("array"))
        if want is not None:
            good = res == ("ok", ("handled", want)) and log == [(want, args, kw)]
            if unhashable and res == ("raised", "TypeError"):
                continue        # memo key needs a hashable object: C02/C05 known limitation
        else:
            good = res[0] == "raised" and not log
        if not good:
            fails.append(("foreign", f"foreign|{kind}|{entry}|cached={cached}",
                          f"{kind} object with extra args {args} {kw}: expected "
                          f"{want or 'rejection with an error'}, got {res} log {log}"))
            break
    return fails


def check_regconst(item):
    """A number class registered at run time (after the mapper modules were imported): while it is
    registered its instances are constants for every mapper -- map_constant is the handler, the
    stock traversals pass them through; before, and after unregistering, they are rejected."""
    from fractions import Fraction

    from pymbolic.mapper import (
        CachedCollector, CachedIdentityMapper, CachedWalkMapper, Collector, IdentityMapper,
        WalkMapper)
    import pymbolic.primitives as p

    from vf.regconst import Frac2, constant_class_history
    phase, cname, cached, entry = item
    cls = {"Fraction": Fraction, "Frac2": Frac2}[cname]
    half = cls(1, 2)
    with constant_class_history(phase, Fraction) as is_const:
        tree = p.Sum((p.Product((half, p.Variable("x"))), p.Variable("y")))
        try:
            if entry in ("call", "rec", "rec_fallback"):
                log = []
                m = make_mapper(cached, FOREIGN_HANDLERS, log)
                fn = {"call": m, "rec": m.rec, "rec_fallback": m.rec_fallback}[entry]
                res = ("ok", fn(half, 7, k=1))
                good = res == ("ok", ("handled", "map_constant")) and \
                    log == [("map_constant", (7,), {"k": 1})]
            elif entry == "identity":
                res = ("ok", (CachedIdentityMapper if cached else IdentityMapper)()(tree))
                good = res[1] == tree and type(res[1].children[0].children[0]) is cls
            elif entry == "walk":
                seen = []

                class W(CachedWalkMapper if cached else WalkMapper):
                    def visit(self, expr, *a, **k):
                        seen.append(expr)
                        return True
                W()(tree)
                res = ("ok", len(seen))
                good = any(x is half for x in seen) and len(seen) == 5
            else:
                class Co(CachedCollector if cached else Collector):
                    def map_variable(self, expr, *a, **k):
                        return {expr}
                res = ("ok", Co()(tree))
                good = res[1] == {p.Variable("x"), p.Variable("y")}
        except RecursionError:
            raise
        except Exception as e:  # noqa: BLE001
            res = ("raised", type(e).__name__)
            good = False
    if is_const and not good:
        return [("registered-constant", f"registered-constant|{cname}|{entry}|cached={cached}",
                 f"Fraction is a registered constant class, {cname}(1, 2) through {entry}: {res}")]
    if not is_const and res[0] != "raised":
        return [("unregistered-constant-accepted",
                 f"unregistered-constant-accepted|{phase}|{cname}|{entry}|cached={cached}",
                 f"Fraction is not registered ({phase}) but {cname}(1, 2) went through {entry}: "
                 f"{res}")]
    return []


def check_numarray(item):
    """An array with a NUMERIC dtype is mapped element by element like any other: whatever the
    handler for constants returns (a Fraction, a Variable) arrives in the result unchanged."""
    from fractions import Fraction

    from pymbolic.mapper import IdentityMapper
    import pymbolic.primitives as p
    dt, shape, cached, how = item
    shape = tuple(shape)
    n = int(np.prod(shape)) if shape else 1
    vals = [(k % 2 == 0) if dt == "bool" else k + 1 for k in range(n)]
    arr = np.array(vals, dtype=dt).reshape(shape)

    class M(IdentityMapper):
        def map_constant(self, expr, *a, **k):
            if how == "identity":
                return expr
            if how == "halve":
                return Fraction(int(expr.real), 2) if dt != "complex128" else expr / 2
            return p.Variable(f"c{int(expr.real)}")
    if cached:
        return []           # memoizing identity mappers refuse arrays (recorded elsewhere)
    try:
        res = M()(arr)
    except RecursionError:
        raise
    except Exception as e:  # noqa: BLE001
        return [("numeric-array", f"numeric-array|{dt}|{how}", f"{dt} array of shape {shape} "
                 f"through a {how} mapper raised {e!r}")]
    ok = isinstance(res, np.ndarray) and res.shape == arr.shape
    if ok:
        for idx in np.ndindex(arr.shape):
            c = arr[idx]
            want = c if how == "identity" else (
                (Fraction(int(c.real), 2) if dt != "complex128" else c / 2) if how == "halve"
                else p.Variable(f"c{int(c.real)}"))
            got = res[idx]
            if type(got) is not type(want) and how != "identity" or got != want:
                ok = False
    if not ok:
        return [("numeric-array", f"numeric-array|{dt}|{how}",
                 f"{dt} array {arr.tolist()!r} through a {how} mapper came back as {res!r}")]
    return []


BUILTIN_NAMES = {
    "Variable": "map_variable", "Wildcard": "map_wildcard", "DotWildcard": "map_dot_wildcard",
    "StarWildcard": "map_star_wildcard", "FunctionSymbol": "map_function_symbol",
    "Call": "map_call", "CallWithKwargs": "map_call_with_kwargs", "Subscript": "map_subscript",
    "Lookup": "map_lookup", "Sum": "map_sum", "Product": "map_product",
    "Quotient": "map_quotient", "FloorDiv": "map_floor_div", "Remainder": "map_remainder",
    "Power": "map_power", "LeftShift": "map_left_shift", "RightShift": "map_right_shift",
    "BitwiseNot": "map_bitwise_not", "BitwiseOr": "map_bitwise_or",
    "BitwiseXor": "map_bitwise_xor", "BitwiseAnd": "map_bitwise_and",
    "Comparison": "map_comparison", "LogicalNot": "map_logical_not",
    "LogicalOr": "map_logical_or", "LogicalAnd": "map_logical_and", "If": "map_if",
    "Min": "map_min", "Max": "map_max", "CommonSubexpression": "map_common_subexpression",
    "Substitution": "map_substitution", "Derivative": "map_derivative", "Slice": "map_slice",
    "NaN": "map_nan", "AlgebraicLeaf": "map_algebraic_leaf", "Leaf": "map_leaf",
    "QuotientBase": "map_quotient_base",
}


def check_name(item):
    import pymbolic.primitives as p
    kind, name = item
    if kind == "builtin":
        cls = getattr(p, name)
        want = BUILTIN_NAMES[name]
    else:
        import vf.usercls_gen as u
        cls = u.CLASSES[name]["cls"]
        want = u.CLASSES[name]["handler_chain"][0]
        if "_is_expr_dataclass" in cls.__dict__ and not u.CLASSES[name]["explicit"]:
            if want != "map_" + snake(name):
                return [("harness", f"harness|{name}", "generator table inconsistent")]
    got = getattr(cls, "mapper_method", None)
    if got != want:
        return [("handler-name", f"handler-name|{name}",
                 f"class {name}: expected handler name {want!r}, got {got!r}")]
    return []

# }}}


# {{{ traversals

def leaves_counter(s):
    c = Counter()

    def rec(n):
        if base_view(n)[0] in LEAF_TAGS:
            c[sort_maps(n)] += 1
            return
        for k in expr_children(n):
            rec(k)
    rec(s)
    return c


def occurrences(s):
    """(spec, [child specs]) for every node occurrence."""
    out = []

    def rec(n):
        ch = expr_children(n)
        out.append((sort_maps(n), Counter(sort_maps(c) for c in ch)))
        for c in ch:
            rec(c)
    rec(s)
    return out


def reachable_tags(s):
    tags = set()

    def rec(n):
        tags.add(base_view(n)[0])
        for c in expr_children(n):
            rec(c)
    rec(s)
    return tags


def t_identity(spec, args, kw, cached):
    from pymbolic.mapper import CachedIdentityMapper, IdentityMapper
    import pymbolic.primitives as p
    expr = build_shared(spec) if cached else build(spec)
    base = CachedIdentityMapper if cached else IdentityMapper
    entries = []

    class cls(base):
        # __call__ is the top-level interface a subclass may give another meaning to; the
        # traversal itself has to recurse through rec()
        def __call__(self, e, *a, **k):
            entries.append(1)
            return super().__call__(e, *a, **k)
    res = cls()(expr, *args, **kw)
    if len(entries) != 1:
        return "identity:reentered-call", (f"an overridden __call__ was entered {len(entries)} "
                                           "times during one traversal")
    if norm(res) != sort_maps(spec):
        return "identity:not-equal", f"returned {show(norm(res))}"
    if isinstance(expr, np.ndarray) and (not isinstance(res, np.ndarray)
                                         or res.shape != expr.shape):
        return "identity:not-equal", (f"an array of shape {expr.shape} came back as "
                                      f"{type(res).__name__}")
    mutable_inside = any(c[0] in ("list", "array") for c in walk(spec))
    if isinstance(expr, (p.Expression, tuple)) and res is not expr and not mutable_inside:
        return "identity:not-same-object", "nothing changed but a new object was returned"
    return None


def t_rewrite(spec, args, kw, cached):
    from pymbolic.mapper import CachedIdentityMapper, IdentityMapper
    import pymbolic.primitives as p
    target = V("x")
    if not any(c == target for c in walk(spec)):
        return None
    base = CachedIdentityMapper if cached else IdentityMapper
    seen = []

    class Rw(base):
        def map_variable(self, expr, *a, **k):
            seen.append((a, dict(k)))
            if expr.name == "x":
                return p.Variable("x_new")
            return expr

    def ref(s):
        if s == target:
            return V("x_new")
        ch = spec_children(s)
        if not ch:
            return s
        return rebuild(s, [ref(c) if isinstance(c, tuple) and c and isinstance(c[0], str)
                           else c for c in ch])

    expr = build_shared(spec) if cached else build(spec)
    res = Rw()(expr, *args, **kw)
    want = sort_maps(ref(spec))
    if norm(res) != want:
        return "rewrite:wrong-result", f"returned {show(norm(res))}, expected {show(want)}"
    if any(s != (args, kw) for s in seen):
        return "rewrite:args", f"handler saw {seen}, top-level call had {(args, kw)}"
    v = identity_violation(expr, res, spec, {target})
    if v:
        return "rewrite:rebuilt-untouched", f"subtree {v} has no rewritten leaf but is a new object"
    return None


def t_walk(spec, args, kw, stop_at=None):
    from pymbolic.mapper import WalkMapper
    events = []

    class W(WalkMapper):
        def visit(self, expr, *a, **k):
            s = norm(expr)
            events.append(("v", s, a, dict(k)))
            return not (stop_at is not None and s == stop_at)

        def post_visit(self, expr, *a, **k):
            events.append(("p", norm(expr), a, dict(k)))

    W()(build(spec), *args, **kw)
    for e in events:
        if (e[2], e[3]) != (args, kw):
            return "walk:args", (f"{'visit' if e[0] == 'v' else 'post_visit'}({show(e[1])}) saw "
                                 f"{(e[2], e[3])}, top-level call had {(args, kw)}")
    # rebuild the nesting
    stack = [[None, Counter()]]
    found = []
    i = 0
    for kind, s, _a, _k in events:
        # a stopped node may or may not get a post_visit: drop unclosed stopped nodes
        while len(stack) > 1 and stack[-1][1] is None and not (kind == "p" and stack[-1][0] == s):
            stack.pop()
        if kind == "v":
            stack[-1][1][s] += 1
            if stop_at is not None and s == stop_at:
                found.append((s, None))     # children skipped; a post_visit is optional
                stack.append([s, None])
            else:
                stack.append([s, Counter()])
        else:
            if len(stack) < 2 or stack[-1][0] != s:
                return "walk:nesting", f"post_visit({show(s)}) does not close the open visit"
            top = stack.pop()
            if top[1] is not None:
                found.append((s, top[1]))
        i += 1
    # stopped nodes may stay open (no post_visit)
    while len(stack) > 1 and stack[-1][1] is None:
        stack.pop()
    if len(stack) != 1:
        return "walk:nesting", f"visit({show(stack[-1][0])}) never closed by post_visit"
    want = occurrences(spec)
    if stop_at is None:
        if Counter((s, frozenset(c.items())) for s, c in found) != Counter(
                (s, frozenset(c.items())) for s, c in want):
            missing = Counter(s for s, _ in want) - Counter(s for s, _ in found)
            extra = Counter(s for s, _ in found) - Counter(s for s, _ in want)
            return "walk:occurrences", (f"missing visits {[show(m) for m in missing]}, "
                                        f"extra visits {[show(m) for m in extra]}")
    else:
        # nothing strictly below a stopped occurrence may be visited: count visits
        def count_excluding(n):
            if sort_maps(n) == stop_at:
                return Counter({stop_at: 1})
            c = Counter({sort_maps(n): 1})
            for k in expr_children(n):
                c += count_excluding(k)
            return c
        want_v = count_excluding(spec)
        got_v = Counter(e[1] for e in events if e[0] == "v")
        if got_v != want_v:
            return "walk:visit-false", (f"visit returned False at {show(stop_at)} but visits were "
                                        f"{ {show(k): v for k, v in (got_v - want_v).items()} } too "
                                        f"many / { {show(k): v for k, v in (want_v - got_v).items()} } "
                                        "too few")
    return None


def t_combine(spec, args, kw, cached, collector):
    from pymbolic.mapper import (
        CachedCollector, CachedCombineMapper, Collector, CombineMapper,
        UnsupportedExpressionError)
    seen = []
    if collector:
        base = CachedCollector if cached else Collector

        class M(base):
            def map_variable(self, expr, *a, **k):
                seen.append((a, dict(k)))
                return {expr}
        unsupported = COLLECTOR_UNSUPPORTED
    else:
        base = CachedCombineMapper if cached else CombineMapper

        class M(base):
            def combine(self, values):
                out = Counter()
                for v in values:
                    out = out + v
                return out

            def map_constant(self, expr, *a, **k):
                seen.append((a, dict(k)))
                return Counter({norm(expr): 1})

            map_variable = map_constant
        unsupported = COMBINE_UNSUPPORTED
    expr = build_shared(spec) if cached else build(spec)
    tags = reachable_tags(spec)
    mapper = M()
    try:
        res = mapper(expr, *args, **kw)
    except (UnsupportedExpressionError, NotImplementedError):
        if tags & unsupported:
            return None
        return "combine:raises", "raised although every node type has a handler"
    if tags & unsupported:
        return ("combine:silently-skipped", f"node types {sorted(tags & unsupported)} have no "
                f"handler but the traversal returned {res!r}")
    if any(s != (args, kw) for s in seen):
        return "combine:args", f"handler saw {seen}, top-level call had {(args, kw)}"
    if collector:
        want = {c for c in leaves_counter(spec) if base_view(c)[0] == "Variable"}
        if {norm(v) for v in res} != want:
            return "collector:result", f"collected {sorted(show(norm(v)) for v in res)}"
    else:
        want = leaves_counter(spec)
        if cached:
            # a memoized subtree is folded in once per occurrence all the same
            pass
        if res != want:
            return "combine:result", (f"missing {[show(k) for k in (want - res)]} "
                                      f"extra {[show(k) for k in (res - want)]}")
    # history on the same instance: every subtree on its own, after the whole tree (a memoized
    # result must not have been widened by the siblings it was combined with), then the whole again
    subs = []
    for s in _occ_specs(spec):
        if sort_maps(s) not in subs:
            subs.append(sort_maps(s))
    for s in [*subs[1:], subs[0]]:
        if s[0] in ("str", "none", "type", "map", "dict", "tuple") or reachable_tags(s) & unsupported:
            continue
        again = mapper(build_shared(s) if cached else build(s), *args, **kw)
        if collector:
            ok = {norm(v) for v in again} == {c for c in leaves_counter(s)
                                              if base_view(c)[0] == "Variable"}
        else:
            ok = again == leaves_counter(s)
        if not ok:
            return (("collector" if collector else "combine") + ":instance-history",
                    f"after the whole tree, the same instance returns {again!r} for the subtree "
                    f"{show(s)}")
    return None


def t_callback(spec, args, kw, own_reference=False):
    """own_reference: the callback falls back through the mapper object the CALLER made and handed
    to CallbackMapper (its own variable), not through mapper.fallback_mapper."""
    from pymbolic.mapper import CallbackMapper, IdentityMapper, UnsupportedExpressionError
    import pymbolic.primitives as p
    calls = []
    ident = IdentityMapper()

    def fn(expr, mapper, *a, **k):
        calls.append((norm(expr), a, dict(k)))
        fb = ident if own_reference else mapper.fallback_mapper
        if isinstance(expr, p.Expression):
            for cls in type(expr).__mro__:
                h = getattr(fb, getattr(cls, "mapper_method", "") or "", None)
                if h is not None:
                    return h(expr, *a, **k)
            raise UnsupportedExpressionError("no fallback handler")
        return fb.map_foreign(expr, *a, **k)

    tags = reachable_tags(spec)
    try:
        res = CallbackMapper(fn, ident)(build(spec), *args, **kw)
    except (UnsupportedExpressionError, NotImplementedError):
        if tags <= CALLBACK_SUPPORTED:
            return "callback:raises", "raised although every node type is in the callback list"
        return None
    if not tags <= CALLBACK_SUPPORTED:
        return ("callback:silently-skipped", f"node types {sorted(tags - CALLBACK_SUPPORTED)} are "
                "not in the callback list but no error was raised")
    if norm(res) != sort_maps(spec):
        return "callback:result", f"returned {show(norm(res))}"
    if any((a, k) != (args, kw) for _, a, k in calls):
        return "callback:args", f"callback saw {[(a, k) for _, a, k in calls]}"
    if Counter(c[0] for c in calls) != Counter(s for s, _ in occurrences(spec)):
        return "callback:occurrences", "callback not invoked once per node occurrence"
    return None


def traversal_failures(spec, shapes, r=None, only=None):
    """-> [(kind, detail)]; each traversal judged independently."""
    out = []
    hashable = not any(c[0] in ("list", "array") for c in walk(spec))
    jobs = []
    for args, kw in shapes:
        jobs.append(("identity", lambda a=args, k=kw: t_identity(spec, a, k, False)))
        jobs.append(("rewrite", lambda a=args, k=kw: t_rewrite(spec, a, k, False)))
        jobs.append(("walk", lambda a=args, k=kw: t_walk(spec, a, k)))
        jobs.append(("combine", lambda a=args, k=kw: t_combine(spec, a, k, False, False)))
        jobs.append(("collector", lambda a=args, k=kw: t_combine(spec, a, k, False, True)))
        jobs.append(("callback", lambda a=args, k=kw: t_callback(spec, a, k)))
        jobs.append(("callback-own", lambda a=args, k=kw: t_callback(spec, a, k, True)))
        if hashable and all(_hashable_args(a, k) for a, k in [(args, kw)]):
            jobs.append(("identity-cached", lambda a=args, k=kw: t_identity(spec, a, k, True)))
            jobs.append(("rewrite-cached", lambda a=args, k=kw: t_rewrite(spec, a, k, True)))
            jobs.append(("combine-cached",
                         lambda a=args, k=kw: t_combine(spec, a, k, True, False)))
            jobs.append(("collector-cached",
                         lambda a=args, k=kw: t_combine(spec, a, k, True, True)))
    # visit() returning False at every distinct composite node
    stops = []
    for n in walk(spec):
        if n[0] not in LEAF_TAGS and n[0] not in ("str", "none", "type", "map", "dict") \
                and expr_children(n) and sort_maps(n) not in stops and _is_occurrence(spec, n):
            stops.append(sort_maps(n))
    for st in stops[:4]:
        jobs.append(("walk-stop", lambda st=st: t_walk(spec, (7,), {"k": 1}, stop_at=st)))
    done = set()
    for name, job in jobs:
        if only is not None and name != only:
            continue
        if name in done:
            continue
        try:
            f = job()
        except RecursionError:
            raise
        except Exception as e:  # noqa: BLE001
            f = (f"{name}:raises:{type(e).__name__}", f"{type(e).__name__}: {e}"[:300])
        if r is not None:
            r.evals += 1
        if f:
            done.add(name)
            kind = f[0] if f[0].startswith(name.split("-")[0]) else f"{name}:{f[0]}"
            if name.endswith("-cached") and not kind.endswith(":cached"):
                kind += ":cached"
            out.append((name, kind, f[1]))
    return out


def _hashable_args(a, k):
    try:
        hash((a, tuple(sorted(k.items()))))
        return True
    except TypeError:
        return False


def _is_occurrence(spec, n):
    return any(sort_maps(s) == sort_maps(n) for s, _ in [(x, 0) for x in _occ_specs(spec)])


def _occ_specs(spec):
    yield spec
    for c in expr_children(spec):
        yield from _occ_specs(c)

# }}}


class C04(Check):
    pid = "C04"
    level = "exploration"
    rule = ("dispatch: all 93 generated user classes (hierarchies of depth 1-2 over Expression, "
            "Variable, Sum, CommonSubexpression; levels decorated+0/1 field, undecorated, legacy; "
            "init=False / hash=False; explicit handler names, also ones equal to the base's) "
            "x all subsets of the handlers in their chain x {Mapper, CachedMapper} x {__call__, "
            "rec, rec_fallback} x 3 extra-argument shapes, and with the selected handler raising each "
            "of 8 exception classes (must reach the caller, no other handler tried); instances of a "
            "number class (and of a subclass) before / while / after the class is registered at run "
            "time x 6 entry points; arrays of 5 numeric dtypes x 3 shapes through identity / "
            "constant-halving / constant-to-variable mappers; 23 kinds of foreign objects; derived "
            "handler names of all built-in and generated classes. traversals: every constructor "
            "shape of the full alphabet with every leaf combination and every (parent, position, "
            "child) nesting (thorough: plus three-level chains over 20 shapes) x extra-argument shapes (quick 3, thorough 6) x {identity, rewriting "
            "identity, walk, walk with visit()=False at each composite node, leaf-counting combine, "
            "collector, callback (falling back through mapper.fallback_mapper and through the "
            "caller's own reference)} and their cached variants; combine and collector instances are "
            "called again, after the whole tree, on every distinct subtree and on the whole tree "
            "(instance history); the dispatch matrix also over four node classes with TWO bases (a trait "
            "class with its own handler name, or a plain mix-in, before Variable / Sum). "
            "Non-trivial = composite tree / class "
            "with at least one handler; distinct = distinct (case) descriptors.")
    assumptions = [
        "the resolution order is restated from the statement over type(expr).__mro__; the "
        "CamelCase->snake_case rule is re-implemented independently (vf/gen_usercls.py)",
        "lists and arrays are mutable containers: only equality, not object identity, is asserted "
        "for them; memoizing traversals are given inputs in which equal subtrees are one object "
        "and are not given unhashable inputs",
        "when visit() returns False the node's own post_visit may or may not be called",
        "a non-Expression object that carries a mapper_method attribute is dispatched by it "
        "(MultiVector works this way) and is not counted among the rejected foreign objects",
    ]
    chunk = 25

    def families(self, tier):
        import vf.usercls_gen as u
        leaves = [V("x"), V("y"), C(2), C(0)]

        def dispatch():
            for name, info in itertools.chain(u.CLASSES.items(), mi_classes().items()):
                n = len(info["handler_chain"])
                for mask in range(2 ** n):
                    for cached in (0, 1):
                        for entry in ("call", "rec", "rec_fallback"):
                            yield ("dispatch", (name, mask, cached, entry))

        def foreign():
            for f in FOREIGN:
                for cached in (0, 1):
                    for entry in ("call", "rec", "rec_fallback"):
                        yield ("foreign", (f[0], cached, entry))

        def regconst():
            from vf.regconst import PHASES
            for phase in PHASES:
                for cname in ("Fraction", "Frac2"):
                    for cached in (0, 1):
                        for entry in ("call", "rec", "rec_fallback", "identity", "walk",
                                      "collector"):
                            yield ("regconst", (phase, cname, cached, entry))

        def numarrays():
            for dt in ("int64", "float64", "int8", "bool", "complex128"):
                for shape in ((3,), (2, 2), ()):
                    for cached in (0, 1):
                        for how in ("identity", "halve", "to-variable"):
                            yield ("numarray", (dt, shape, cached, how))

        def names():
            for n in BUILTIN_NAMES:
                yield ("name", ("builtin", n))
            for n in u.CLASSES:
                yield ("name", ("user", n))

        shapes = "q" if tier == "quick" else "t"
        fams = [
            ("dispatch", dispatch), ("foreign", foreign), ("registered-constant-class", regconst),
            ("numeric-arrays", numarrays),
            ("names", names),
            ("trav-depth2", lambda: (("trav", s, shapes)
                                     for s in gen.depth2(TRAV_CTORS, leaves))),
            ("trav-nest2", lambda: (("trav", s, shapes)
                                    for _, s in gen.nest2(TRAV_CTORS, TRAV_CTORS))),
            ("trav-special", self.gen_special),
        ]
        if tier == "thorough":
            from vf.checks.c09 import N3
            n3 = N3 + gen.ctors(names=("Substitution", "Derivative", "Quotient", "Cmp<", "Min2",
                                       "LogicalNot", "list2", "array1"))
            fams.append(("trav-nest3", lambda: (("trav", s, "q")
                                                for _, s in gen.nest3(n3, n3, n3))))
        return fams

    def gen_special(self):
        from vf.spec import CSE, Sum
        # zero / constant children of wrappers, nested wrappers, user classes inside trees
        for child in (C(0), C(0.0), C(False), C(1), V("x")):
            yield ("trav", CSE(child), "t")
            yield ("trav", CSE(CSE(child)), "t")
            yield ("trav", Sum(V("x"), CSE(child, "p")), "t")
        for tag in ("U:vf.usercls_gen.SumU", "U:vf.usercls_gen.SumUU"):
            yield ("trav", (tag, T(V("x"), V("y"))), "t")
        yield ("trav", ("Slice", T(V("x"))), "q")
        # arrays of every rank: 0-d, empty, 1-d, 2-d, 3-d -- alone and as an operand
        e1, e2 = Sum(V("x"), V("y")), V("x")
        for shape, n in (((), 1), ((0,), 0), ((1,), 1), ((3,), 3), ((2, 2), 4), ((1, 3), 3),
                         ((2, 1, 2), 4), ((2, 0), 0)):
            arr = ("array", shape, *[(e1 if i % 2 else e2) for i in range(n)])
            yield ("trav", arr, "q")
            yield ("trav", ("tuple", arr, V("y")), "q")
            yield ("trav", ("list", arr), "q")
        yield ("trav", ("U:vf.usercls_gen.VarU", S("x")), "t")
        yield ("trav", ("U:vf.usercls_gen.ComU", V("x"), ("none",), S("pymbolic_eval")), "t")

    def check_item(self, family, item, tier):
        r = Res()
        kind = item[0]
        if kind in ("dispatch", "foreign", "name", "regconst", "numarray"):
            fn = {"dispatch": check_dispatch, "foreign": check_foreign, "name": check_name,
                  "regconst": check_regconst, "numarray": check_numarray}[kind]
            r.evals += 1
            r.keys.append(item)
            for k, sig, detail in fn(tuple(item[1])):
                r.fail(k, sig, detail)
            return r
        spec = item[1]
        shapes = ARG_SHAPES_Q if item[2] == "q" else ARG_SHAPES_T
        if spec[0] not in LEAF_TAGS:
            r.keys.append(spec)
        for name, k, _detail in traversal_failures(spec, shapes, r):
            def fails(s, name=name):
                f = traversal_failures(s, shapes, None, only=name)
                return f[0][1] if f else None
            locs = localise(spec, fails)
            if not locs:
                locs = [(k, f"{k}|{show(spec)}", spec)]
            for kk, sig, m in locs:
                f = traversal_failures(m, shapes, None, only=name)
                d = f[0][2] if f else ""
                r.fail(kk, sig, f"in {show(spec)}: minimal failing tree {show(m)}: {d}",
                       witness=("trav", m, item[2]))
        return r


CHECK = C04()

"""C20 -- statement-stream utilities keep programs well-formed.

Engine A (bounded-exhaustive inputs, independent oracle in ``vf.c20_model``):

* ``rw``      every single statement over a grid of lhs / rhs / condition shapes and identifier
              assignments: written set == scan, required reads <= reported reads <= permitted.
* ``fuse``    every ordered pair of small streams with every id assignment, every acyclic
              dependency relation and one body per statement class:
              ``fuse_statement_streams_with_unique_ids`` and ``disambiguate_and_fuse``.
* ``fuse-containers`` every ordered pair of streams of length <= 2 (every id assignment and
              dependency relation, one class layout) with the two streams handed over as list /
              tuple / one-shot generator in every combination (fuse), as list / tuple
              (disambiguate_identifiers, disambiguate_and_fuse).
* ``disamb``  every ordered pair of statement bodies with every placement of the identifiers in
              written name / lhs index / rhs / condition (plus two-statement streams), three
              filters: ``disambiguate_identifiers`` and ``disambiguate_and_fuse``.  A further
              block carries "typed twins" (x + 1, x + 1.0, x + True, x*2, x*2.0, and the
              hash-colliding x + -1, x + -2) in every pair of positions of stream b: the
              renamed stream is compared type-strictly, so nothing but names may change.
              Another block puts attribute look-ups (q.r, q[p].r) whose attribute NAME ranges
              over the identifier names into rhs, lhs index and condition: attributes are not
              identifiers and must survive.
              Another block puts calls q(r) whose FUNCTION SYMBOL ranges over the identifier
              names into rhs, lhs index and condition (function symbols are identifiers or
              not -- whichever the library says for ``x <- f(y)`` -- but uniformly).
              Another block varies how the caller's filter expresses yes / no (bool, match
              object / None, count, numpy bool, name / empty string): only truthiness counts.
* ``dot``     every labelled DAG on <= 4 (quick) / 5 (thorough) statements: the edges drawn by
              ``get_dot_dependency_graph`` == transitive reduction (longest-path criterion).
* ``dot-chains`` chains of 6 statements with up to 2 shortcut edges (thorough: any set of shortcut
              edges; also chains of 7 with <= 1) in EVERY listing order of the statements, each
              with ids chosen so that every dependency set iterates in chain order and in
              reverse chain order (first hash seed only: hash-independent by construction),
              and with every set of shortcut edges in natural / reversed order (all seeds).

Engine B (explicit-state BFS over histories of repeated fusion, family ``bfs``): state = a stream,
initially empty; menu = fuse(state, P_j), disambiguate_and_fuse(state, P_j), fuse(P_j, state) for
a pool of six streams (handed over as list + generator, tuple + list, tuple + generator); every
transition is executed on the real code and checked by the same
oracle; every expanded state must be a well-formed program whose dot export is the transitive
reduction.  A violating transition is reported and not expanded.
"""
from __future__ import annotations

import itertools
import os

from vf import c20_model as M
from vf.c20_model import A, CA, N, Var
from vf.run import Check, Res

# {{{ bounds (every bound is a named constant)

# -- rw family
RW_NAMES = {"quick": ("x", "y"), "thorough": ("x", "y", "z")}

# -- fuse family
FUSE_IDS = {"quick": ("s0", "s1", "s0_0"), "thorough": ("s0", "s1", "s2", "s0_0")}
FUSE_IDS_LONG = ("s0", "s1", "s0_0")          # id pool of the streams of length 3
FUSE_MAX_LEN_FREE_BODIES = 2      # streams up to this length carry every body combination
FUSE_MAX_LEN = {"quick": 2, "thorough": 3}    # longer ones (thorough) carry one body layout

# how the two streams are handed over: fuse walks each stream once, so every combination of
# list / tuple / one-shot generator; the disambiguating entry points walk them repeatedly, so
# every combination of list / tuple
FUSE_CONTAINERS = tuple(x + y for x in M.CONTAINER_KINDS for y in M.CONTAINER_KINDS
                        if x + y != "ll")
DISAMB_CONTAINERS = ("lt", "tl", "tt")

# -- disamb family
DISAMB_NAMES = {"quick": ("x", "x_0"), "thorough": ("x", "y", "x_0")}
DISAMB_FILTERS = ("all", "none", "only:x")
# how the caller's predicate says yes / no (bool, match object / None, count, numpy bool, str):
# every non-bool style with every base filter, over the reduced bodies
DISAMB_STYLE_FILTERS = tuple(f"{base}@{style}" for base in DISAMB_FILTERS
                             for style in M.ANSWER_STYLES if style != "bool")
DISAMB2_NAMES = ("x", "x_0")      # identifiers of the two-statement streams

# -- dot family
DOT_MAX_NODES = {"quick": 4, "thorough": 5}
DOT_RANGE = 4096                  # edge masks per work item
DOT_CHAIN_NODES = {"quick": (6,), "thorough": (6, 7)}   # long chains with shortcut edges
# number of shortcut edges up to which EVERY listing order of the statements is explored
DOT_CHAIN_FREE_ORDER = {("quick", 6): 2, ("thorough", 6): 10, ("thorough", 7): 1}

# -- bfs family
BFS_DEPTH = {"quick": 4, "thorough": 5}       # operations applied to the initially empty stream
BFS_LOCAL_LEVELS = 2              # the last two levels are expanded inside one work item

# }}}


X, Y, Z, X0 = Var("x"), Var("y"), Var("z"), Var("x_0")


def Sub(a, i):
    return ("Subscript", a, i)


def Sum(*ch):
    return ("Sum", ("tuple", *ch))


def Lt(a, b):
    return ("Comparison", a, ("str", "<"), b)


def Call(f, *args):
    return ("Call", f, ("tuple", *args))


# {{{ rw family: one statement

def rw_items(tier):
    names = RW_NAMES[tier]
    V = [Var(n) for n in names]
    F = Var("f")
    ZERO = M.ZERO
    lhs = []
    for p in V:
        lhs.append(p)
        lhs.append(Sub(p, ZERO))
        for q in V:
            lhs.append(Sub(p, q))
            lhs.append(Sub(p, Call(F, q)))
            lhs.append(Sub(p, Call(q, ZERO)))
            for r in V:
                lhs.append(Sub(p, Sum(q, r)))
                lhs.append(Sub(p, ("tuple", q, r)))
                lhs.append(Sub(p, Sub(r, q)))
    rhs = [ZERO]
    for q in V:
        rhs.append(q)
        rhs.append(Call(F, q))
        rhs.append(Call(q, ZERO))
        rhs.append(("Lookup", q, ("str", "attr")))
        for r in V:
            rhs.append(Sum(q, r))
            rhs.append(Sub(r, q))
    cond = [None, ("bool", True)]
    for q in V:
        cond.append(q)
        cond.append(("LogicalNot", q))
        cond.append(Call(F, q))
        for r in V:
            cond.append(Lt(q, r))
            cond.append(Sub(r, q))
    yield ("stmt", N("s"))
    for lh in lhs:
        for rh in rhs:
            for c in cond:
                if c is None:
                    yield ("stmt", A("s", lh, rh))
                else:
                    yield ("stmt", CA("s", lh, rh, c))

# }}}


# {{{ fuse family: streams with every id assignment and every acyclic dependency relation

FUSE_BODIES = (
    ("A", Sub(Z, X), Y, None),
    ("CA", X, Y, Lt(Z, M.ZERO)),
    ("N", None, None, None),
)


def dags(n):
    """Every acyclic dependency relation on positions 0..n-1 as a tuple of dependency tuples."""
    pairs = [(i, j) for i in range(n) for j in range(n) if i != j]
    for mask in range(1 << len(pairs)):
        adj = [0] * n
        for k, (i, j) in enumerate(pairs):
            if mask >> k & 1:
                adj[i] |= 1 << j
        if M.mask_is_acyclic(n, adj):
            yield tuple(tuple(j for j in range(n) if adj[i] >> j & 1) for i in range(n))


def container_streams(tier):
    """Streams of length <= 2 with every id assignment and dependency relation, one class
    layout: the inputs of the container-kind block."""
    ids = FUSE_IDS[tier]
    out = [()]
    for n in (1, 2):
        for idsel in itertools.permutations(ids, n):
            for dag in dags(n):
                out.append(tuple(
                    (FUSE_BODIES[i][0], idsel[i], *FUSE_BODIES[i][1:],
                     tuple(sorted(idsel[j] for j in dag[i])))
                    for i in range(n)))
    return out


def fuse_streams(tier):
    ids = FUSE_IDS[tier]
    out = [()]
    for n in range(1, FUSE_MAX_LEN[tier] + 1):
        if n <= FUSE_MAX_LEN_FREE_BODIES:
            layouts = list(itertools.product(FUSE_BODIES, repeat=n))
        else:
            layouts = [tuple(FUSE_BODIES[i % len(FUSE_BODIES)] for i in range(n))]
        pool = ids if n <= FUSE_MAX_LEN_FREE_BODIES else FUSE_IDS_LONG
        for idsel in itertools.permutations(pool, n):
            for dag in dags(n):
                for bodies in layouts:
                    out.append(tuple(
                        (b[0], idsel[i], b[1], b[2], b[3],
                         tuple(sorted(idsel[j] for j in dag[i])))
                        for i, b in enumerate(bodies)))
    return out

# }}}


# {{{ disamb family: every placement of identifiers

def bodies_over(names, templates):
    V = [Var(n) for n in names]
    out = []
    if "N" in templates:
        out.append(("N", None, None, None))
    for p in V:
        for q in V:
            if "T1" in templates:
                out.append(("A", p, q, None))
            for r in V:
                if "T2" in templates:
                    out.append(("A", Sub(p, q), r, None))
                if "T3" in templates:
                    out.append(("CA", p, q, Lt(r, M.ZERO)))
                if "T5" in templates:
                    # attribute look-ups whose ATTRIBUTE name is one of the identifier names:
                    # an attribute is not an identifier and must survive every renaming
                    out.append(("A", p, ("Lookup", q, ("str", r[1][1])), None))
                    out.append(("CA", Sub(p, ("Lookup", q, ("str", r[1][1]))), M.ZERO,
                                Lt(("Lookup", Sub(q, p), ("str", r[1][1])), M.ZERO)))
                if "T6" in templates:
                    # calls whose FUNCTION SYMBOL is one of the identifier names, in the rhs, in
                    # the lhs index, in the condition
                    call = Call(q, r)
                    out.append(("A", p, call, None))
                    out.append(("A", Sub(p, call), M.ZERO, None))
                    out.append(("CA", p, M.ZERO, Lt(call, M.ZERO)))
                if "T4" in templates:
                    for s in V:
                        out.append(("CA", Sub(p, q), Sum(r, ("int", 1)), Lt(s, M.ZERO)))
    return out


def stream_of(bodies):
    """ids s0, s1, ... in order; each statement depends on its predecessor."""
    return tuple((b[0], f"s{i}", b[1], b[2], b[3], (f"s{i - 1}",) if i else ())
                 for i, b in enumerate(bodies))


def Prod(*ch):
    return ("Product", ("tuple", *ch))


# expressions that compare == (or at least hash alike) but differ in the type / value of a nested
# constant: a renaming must keep every one of them apart
TWIN_EXPRS = (
    Sum(X, ("int", 1)), Sum(X, ("float", 1.0)), Sum(X, ("bool", True)),
    Prod(X, ("int", 2)), Prod(X, ("float", 2.0)),
    Sum(X, ("int", -1)), Sum(X, ("int", -2)),          # hash(-1) == hash(-2)
)


def twin_lists():
    """A-streams: one that clashes on x and one that clashes on nothing.  B-streams: every ordered
    pair of statements carrying a twin expression in the rhs, in the lhs index or in the
    condition, and every single statement carrying two of them (lhs index + rhs, rhs +
    condition)."""
    W = Var("w")
    bodies = []
    for e in TWIN_EXPRS:
        bodies.append(("A", Y, e, None))
        bodies.append(("A", Sub(Z, e), M.ZERO, None))
        bodies.append(("CA", Y, M.ZERO, Lt(e, M.ZERO)))
    lb = [stream_of((b, c)) for b in bodies for c in bodies]
    for e in TWIN_EXPRS:
        for f in TWIN_EXPRS:
            lb.append(stream_of((("A", Sub(Z, e), f, None),)))
            lb.append(stream_of((("CA", Y, e, Lt(f, M.ZERO)),)))
    la = [stream_of((("A", X, M.ZERO, None),)), stream_of((("A", W, M.ZERO, None),))]
    return la, lb


def disamb_lists(tier):
    """-> list of (A-streams, B-streams) blocks; every pair inside a block is explored."""
    one = [stream_of((b,)) for b in bodies_over(DISAMB_NAMES[tier], ("N", "T1", "T2", "T3", "T4"))]
    t2 = ("N", "T1", "T2") if tier == "quick" else ("N", "T1", "T2", "T3")
    small = bodies_over(DISAMB2_NAMES, t2)
    single = [stream_of((b,)) for b in small]
    double = [stream_of((b, c)) for b in small for c in small]
    looks = [stream_of((b,)) for b in bodies_over(DISAMB_NAMES[tier], ("T5",))]
    calls = [stream_of((b,)) for b in bodies_over(DISAMB_NAMES[tier], ("T6",))]
    return [(one, one, DISAMB_FILTERS), (one, looks, DISAMB_FILTERS),
            (looks, one, DISAMB_FILTERS), (single, calls, DISAMB_FILTERS),
            (calls, single, DISAMB_FILTERS), (single, double, DISAMB_FILTERS),
            (double, single, DISAMB_FILTERS), (*twin_lists(), DISAMB_FILTERS),
            (single, single, DISAMB_STYLE_FILTERS)]

# }}}


# {{{ bfs family: pool and menu

# P0: written aggregate z, x written and in an lhs index; typed twins y + 1 / y + 1.0.
# P1: z only in a condition, as argument of a call whose function symbol x_0 is a variable of
#     P2; redundant dependency s2 -> s0.
# P2: generated-looking names s0_0 / x_0, dependency on a later id; hash-colliding twins
#     x + -1 / x + -2.
# P3: a lone no-op.
# P4: conditional subscript assignment, ids out of order; attribute lookup x.y whose attribute
#     name is also an identifier.
# P5: z only in an lhs index.
POOL = (
    (A("s0", X, Sum(Y, ("int", 1))), A("s1", Sub(Z, X), Sum(Y, ("float", 1.0)), ["s0"])),
    (CA("s0", Y, X, Lt(Call(X0, Z), M.ZERO)), N("s1", ["s0"]), A("s2", X, Y, ["s0", "s1"])),
    (A("s0_0", X0, Sum(X, ("int", -1))), A("s0", Y, Prod(Sum(X, ("int", -2)), X0), ["s0_0"])),
    (N("s1"),),
    (CA("s2", Sub(Z, Y), ("Lookup", X, ("str", "y")), Lt(Y, Z)), A("s0", X, ("int", 1), ["s2"])),
    (A("s1", Sub(Y, Z), M.ZERO),),
)
OPS = ("fuse", "daf", "rfuse")
MENU = tuple((op, j) for j in range(len(POOL)) for op in OPS)


# how each menu operation hands its two streams over (l = list, t = tuple, g = one-shot generator;
# disambiguation walks its streams more than once, so it only gets sequences)
BFS_CONTAINERS = {"fuse": "lg", "daf": "tl", "rfuse": "tg"}


def op_case(state, op):
    kind, j = op
    if kind == "fuse":
        return ("fuse/" + BFS_CONTAINERS[kind], state, POOL[j], "all")
    if kind == "daf":
        return ("daf/" + BFS_CONTAINERS[kind], state, POOL[j], "all")
    return ("fuse/" + BFS_CONTAINERS[kind], POOL[j], state, "all")


def show_history(hist):
    def one(op):
        kind, j = op
        return {"fuse": f"fuse(S,P{j})", "daf": f"disambiguate_and_fuse(S,P{j})",
                "rfuse": f"fuse(P{j},S)"}[kind]
    return "S=[]; " + "; ".join("S=" + one(op) for op in hist)


def apply_op(state, op):
    """Run one menu operation on the real code.  -> (successor spec, str-canon, fails)."""
    from pymbolic.imperative.transform import (
        disambiguate_and_fuse,
        fuse_statement_streams_with_unique_ids,
    )
    case = op_case(state, op)
    cop, a, b, filt = case
    base, kinds = M.split_op(cop)
    try:
        ra = M.wrap_stream(M.build_stream(a), kinds[0])
        rb = M.wrap_stream(M.build_stream(b), kinds[1])
        if base == "fuse":
            out, idmap = fuse_statement_streams_with_unique_ids(ra, rb)
            subst = None
        else:
            out, subst, idmap = disambiguate_and_fuse(ra, rb)
            subst = M.subst_to_spec(subst)
        spec = M.observe_stream(out)
        canon = str_canon(out)
    except RecursionError:
        raise
    except Exception as e:  # noqa: BLE001
        return None, None, [(f"raises:{base}:{type(e).__name__}",
                             f"{type(e).__name__}: {e}"[:300])]
    fails = M.check_transform(a, b, spec, dict(idmap), None if base == "fuse" else filt, subst)
    return spec, canon, fails


def str_canon(stmts):
    """The canonical state of Engine B: everything the utilities read from a statement."""
    return tuple((type(s).__name__, s.id, str(s), tuple(sorted(s.depends_on))) for s in stmts)


def bfs_items(tier):
    """BFS in the parent down to depth D - BFS_LOCAL_LEVELS with global duplicate detection; the
    workers replay each representative history and expand it (again with the oracle)."""
    depth = BFS_DEPTH[tier]
    split = depth - BFS_LOCAL_LEVELS
    seen = {(): ((), ())}
    frontier = [((), ())]
    for d in range(split + 1):
        nxt = []
        for hist, state in frontier:
            yield ("hist", hist, BFS_LOCAL_LEVELS if d == split else 1)
            if d == split:
                continue
            for op in MENU:
                spec, canon, fails = apply_op(state, op)
                if fails or spec is None:
                    continue
                if canon not in seen:
                    seen[canon] = ((*hist, op), spec)
                    nxt.append(((*hist, op), spec))
                elif seen[canon][1] != spec:
                    yield ("collide", seen[canon][0], (*hist, op))
        frontier = nxt

# }}}


class C20(Check):
    pid = "C20"
    level = "model_checking"
    rule = (
        "Engine B (bfs): explicit-state breadth-first exploration of operation histories on the "
        "real code. State = a statement stream, initially empty; menu = 18 operations "
        "(fuse(S,P_j), disambiguate_and_fuse(S,P_j), fuse(P_j,S) for a pool of 6 streams with id "
        "clashes, identifier clashes, generated-looking names s0_0 / x_0, forward dependencies, "
        "all three statement classes); depth 4 (quick) / 5 (thorough) operations. Canonical "
        "state = the stream as a tuple of (class, id, str(stmt), sorted depends_on); duplicates "
        "are detected globally down to depth D-2 and per subtree below. states = states whose "
        "18 outgoing transitions were all executed and checked, transitions = operations "
        "executed and checked by the oracle, histories = maximal operation sequences (ending at "
        "the depth bound or at a violation). Engine A: bounded-exhaustive inputs -- every "
        "statement of the rw grid; every ordered pair of streams of length <= 2 (thorough: 3) "
        "with every injective id assignment from a 3 (4) element pool, every acyclic dependency "
        "relation and every class layout; the same for one class layout with the two streams "
        "handed over as list / tuple / one-shot generator in all 9 combinations (fuse) resp. "
        "list / tuple (disambiguation); every ordered pair of statement bodies over every "
        "placement of 2 (3) identifiers in written name / lhs index / rhs / condition, with "
        "filters all / none / {x}, plus all two-statement streams over a reduced body set, plus "
        "every pair of positions (rhs / lhs index / condition, same or different statement) "
        "filled with 7 'typed twin' expressions (x+1, x+1.0, x+True, x*2, x*2.0, x+-1, x+-2) "
        "against a clashing and a non-clashing first stream, compared type-strictly; every "
        "labelled DAG on <= 4 (5) statements for the dot export, plus every 6 statement chain "
        "with <= 2 shortcut edges (thorough: every set of shortcut edges; also 7 statement "
        "chains with <= 1) in every listing order of the statements, each with ids picked by "
        "their hash so that all dependency sets iterate in chain order and in reverse chain "
        "order (run under the first hash seed only), and with every set of "
        "shortcut edges in natural and reversed order. Attribute look-ups q.r and q[p].r with r "
        "ranging over the identifier names occur in rhs, lhs index and condition of a further "
        "block of bodies; likewise calls q(r) whose function symbol ranges over the identifier "
        "names. Filters of the disamb family additionally "
        "answer in 4 non-bool styles (match object / None, count, numpy bool, name / empty "
        "string) x {all, none, {x}} over the reduced single-statement bodies. distinct_nontrivial counts "
        "distinct cases: statements whose reference read set is non-empty (rw), stream pairs "
        "with at least one id clash (fuse), pairs with at least one identifier clash "
        "(disamb), DAGs with at least one redundant (transitive) edge (dot), distinct canonical "
        "states reached (bfs).")
    assumptions = [
        "inputs are well-formed: ids distinct within a stream, dependencies refer to ids of the "
        "same stream, dependency relation acyclic; lhs is a variable or a subscript of a variable",
        "read-set clause is read as required <= reported <= permitted: required = variables in "
        "the rhs, in the index of a subscripted lhs and in the condition; permitted adds the "
        "written name (not settled by the statement); the written set must equal {assigned name}",
        "whether the function symbol of a call is an identifier is not settled by the statement: "
        "both conventions are accepted, but uniformly -- the convention is read off the plain "
        "assignment x <- f(y) and every position (lhs index, condition), statement class and "
        "the disambiguation must follow it; a name that is both a variable and a function "
        "symbol of the second stream may keep or follow the variable's renaming in function "
        "position",
        "the statement does not require ids that do not clash to keep their names, nor fix the "
        "form of fresh names; neither is demanded",
        "statements are observed field by field (class, id, lhs, rhs, condition via "
        "vf.spec.to_spec, depends_on); str(stmt) is used only inside the canonical state of "
        "Engine B, and the check reports a harness failure if two states with the same canonical "
        "form differ in any observed field",
        "the dot text is read line by line: '\"id\" [..];' is a node, 'a -> b' an edge from a "
        "statement to one it depends on",
        "PYTHONHASHSEED values listed in hash_seeds are the only set-iteration orders explored",
        "CPython small-set layout: ids with distinct hash & 31 < 8 iterate in that order "
        "(asserted at run time on every pair before use)",
        "a stream may be any iterable for fuse_statement_streams_with_unique_ids (the unchanged "
        "function walks each stream exactly once); disambiguate_identifiers and "
        "disambiguate_and_fuse walk their streams several times, so only re-iterable sequences "
        "(list, tuple) are demanded there",
        "attribute names of look-ups are not identifiers of a stream",
        "a caller's should_disambiguate_name answer is interpreted by truthiness (as the "
        "unchanged code does and as re.match / dict.get style predicates require)",
    ]
    hash_seeds = {"quick": [0, 1, 2], "thorough": [0, 1, 2, 3, 4, 5, 6, 7]}
    chunk = 8

    _cache: dict = {}

    # {{{ families

    def _fuse_streams(self, tier):
        key = ("fuse", tier)
        if key not in self._cache:
            self._cache[key] = fuse_streams(tier)
        return self._cache[key]

    def _container_streams(self, tier):
        key = ("containers", tier)
        if key not in self._cache:
            self._cache[key] = container_streams(tier)
        return self._cache[key]

    def _disamb_lists(self, tier):
        key = ("disamb", tier)
        if key not in self._cache:
            self._cache[key] = disamb_lists(tier)
        return self._cache[key]

    def families(self, tier):
        def rw_chunks():
            buf = []
            for it in rw_items(tier):
                buf.append(it[1])
                if len(buf) == 64:
                    yield ("stmts", tuple(buf))
                    buf = []
            if buf:
                yield ("stmts", tuple(buf))

        def dot_ranges():
            for n in range(1, DOT_MAX_NODES[tier] + 1):
                total = 1 << (n * (n - 1))
                for lo in range(0, total, DOT_RANGE):
                    yield ("range", n, lo, min(total, lo + DOT_RANGE))

        # the every-listing-order part chooses its ids by their hash (ranked_names), so what it
        # explores does not depend on the hash seed: it runs under the first seed only
        first_seed = str(os.environ.get("PYTHONHASHSEED", "0")) == str(self.hash_seeds[tier][0])

        def chain_items():
            for k in DOT_CHAIN_NODES[tier]:
                shortcuts = [(i, j) for i in range(k) for j in range(i + 2, k)]
                for r in range(DOT_CHAIN_FREE_ORDER[tier, k] + 1 if first_seed else 0):
                    for extra in itertools.combinations(shortcuts, r):
                        yield ("chainorders", k, extra)
                total = 1 << len(shortcuts)
                for lo in range(0, total, 512):
                    yield ("chainsubsets", k, lo, min(total, lo + 512))

        return [
            ("bfs", lambda: bfs_items(tier)),
            ("fuse", lambda: (("row", i) for i in range(len(self._fuse_streams(tier))))),
            ("fuse-containers", lambda: (("crow", i)
                                         for i in range(len(self._container_streams(tier))))),
            ("disamb", lambda: (("drow", blk, i)
                                for blk, (la, _, _) in enumerate(self._disamb_lists(tier))
                                for i in range(len(la)))),
            ("rw", rw_chunks),
            ("dot", dot_ranges),
            ("dot-chains", chain_items),
        ]

    # }}}

    def describe(self, family, item):
        if item and item[0] == "case":
            return {"family": family, "case": M.show_case(item[1:])}
        if item and item[0] == "hist":
            return {"family": family, "history": show_history(item[1])}
        if item and item[0] == "stmt":
            return {"family": family, "statement": M.show_stmt(item[1])}
        return {"family": family, "item": item}

    # {{{ dispatch

    def check_item(self, family, item, tier):
        r = Res()
        tag = item[0]
        if tag == "row":
            streams = self._fuse_streams(tier)
            a = streams[item[1]]
            for ib, b in enumerate(streams):
                self.do_case(r, ("fuse", a, b, "all"), key=("f", item[1], ib))
                self.do_case(r, ("daf", a, b, "all"), key=("fd", item[1], ib))
            r.sample = ("case", "fuse", a, streams[(item[1] * 7 + 3) % len(streams)], "all")
        elif tag == "crow":
            streams = self._container_streams(tier)
            a = streams[item[1]]
            for ib, b in enumerate(streams):
                for kinds in FUSE_CONTAINERS:
                    self.do_case(r, ("fuse/" + kinds, a, b, "all"), key=("c", item[1], ib, kinds))
                for kinds in DISAMB_CONTAINERS:
                    self.do_case(r, ("daf/" + kinds, a, b, "all"), key=("cd", item[1], ib, kinds))
                    self.do_case(r, ("disamb/" + kinds, a, b, "all"),
                                 key=("cs", item[1], ib, kinds))
            r.sample = ("case", "fuse/tg", a, streams[(item[1] * 5 + 2) % len(streams)], "all")
        elif tag == "drow":
            la, lb, filters = self._disamb_lists(tier)[item[1]]
            a = la[item[2]]
            for ib, b in enumerate(lb):
                for filt in filters:
                    self.do_case(r, ("disamb", a, b, filt), key=("d", *item[1:], ib, filt))
                    self.do_case(r, ("daf", a, b, filt), key=("dd", *item[1:], ib, filt))
            r.sample = ("case", "disamb", a, lb[(item[2] * 5 + 1) % len(lb)], "only:x")
        elif tag == "case":
            self.do_case(r, tuple(item[1:]))
        elif tag == "stmts":
            for s in item[1]:
                self.do_stmt(r, s)
            r.sample = ("stmt", item[1][len(item[1]) // 2])
        elif tag == "stmt":
            self.do_stmt(r, item[1])
        elif tag == "range":
            _, n, lo, hi = item
            for mask in range(lo, hi):
                self.do_dag(r, n, mask)
        elif tag == "dag":
            self.do_dag(r, item[1], item[2])
        elif tag == "dotstream":
            self.do_dot_stream(r, item[1], None)
        elif tag == "chainorders":
            _, k, extra = item
            names = ranked_names(k)
            for nm in (names, names[::-1]):
                for order in itertools.permutations(range(k)):
                    self.do_dot_stream(r, chain_stream(k, extra, order, nm), "explicit")
        elif tag == "chainsubsets":
            _, k, lo, hi = item
            shortcuts = [(i, j) for i in range(k) for j in range(i + 2, k)]
            for mask in range(lo, hi):
                extra = tuple(sc for b, sc in enumerate(shortcuts) if mask >> b & 1)
                for order in (tuple(range(k)), tuple(reversed(range(k)))):
                    self.do_dot_stream(r, chain_stream(k, extra, order), "explicit")
        elif tag == "hist":
            self.do_history(r, item[1], item[2], tier)
        elif tag == "collide":
            s1 = self.replay_prefix(r, tuple(tuple(op) for op in item[1]))
            s2 = self.replay_prefix(r, tuple(tuple(op) for op in item[2]))
            if s1 != s2:
                r.fail("harness-canon-collision", "harness:canon-collision",
                       f"{show_history(item[1])} and {show_history(item[2])} have the same "
                       f"canonical form but differ in an observed field")
        else:
            raise ValueError(f"unknown item {item!r}")
        return r

    # }}}

    # {{{ Engine A pieces

    def do_case(self, r, case, key=None):
        """*key*: compact identity of the case inside its family (cases of a family are pairwise
        distinct by construction)."""
        op, a, b, filt = case
        r.evals += 1
        fails = M.case_fails(case)
        if M.split_op(op)[0] == "fuse":
            if {s[1] for s in a} & {s[1] for s in b}:
                r.keys.append(key or ("fuse", a, b))
        else:
            if M.stream_idents(a) & M.stream_idents(b):
                r.keys.append(key or (op, a, b, filt))
        self.report(r, case, fails, witness=("case", *case))

    def report(self, r, case, fails, witness, prefix=""):
        done = set()
        for kind, _detail in fails:
            if kind in done:
                continue
            done.add(kind)
            m = M.shrink_case(case, kind)
            d = next((dd for k, dd in M.case_fails(m) if k == kind), "")
            r.fail(kind, f"{kind}|{M.show_case(m)}",
                   f"{prefix}in {M.show_case(case)}: minimal failing case {M.show_case(m)}: {d}",
                   witness=witness)

    def do_stmt(self, r, s):
        r.evals += 1
        _w, req, _perm = M.rw_reference(s)
        if req:
            r.keys.append(("rw", M.show_stmt(s)))
        fails = M.rw_fails(s)
        done = set()
        for kind, _detail in fails:
            if kind in done:
                continue
            done.add(kind)
            m = M.shrink_stmt(s, kind)
            d = next((dd for k, dd in M.rw_fails(m) if k == kind), "")
            r.fail(kind, f"{kind}|{M.show_stmt(m)}",
                   f"in {M.show_stmt(s)}: minimal failing statement: {d}", witness=("stmt", m))

    def do_dag(self, r, n, mask):
        edges = M.dag_from_mask(n, mask)
        adj = [0] * n
        for i, j in edges:
            adj[i] |= 1 << j
        if not M.mask_is_acyclic(n, adj):
            return
        stream = tuple(
            (A(f"n{i}", Var("x"), ("int", i), [f"n{j}" for j in range(n) if adj[i] >> j & 1])
             if i % 2 == 0 else
             N(f"n{i}", [f"n{j}" for j in range(n) if adj[i] >> j & 1]))
            for i in range(n))
        self.do_dot_stream(r, stream, ("dag", n, mask))

    def do_dot_stream(self, r, stream, witness, prefix=""):
        r.evals += 1
        ids = [s[1] for s in stream]
        deps = {s[1]: set(s[5]) for s in stream}
        red = M.transitive_reduction(ids, deps)
        if witness == "explicit":
            witness = ("dotstream", stream)
        if witness is not None and sum(len(v) for v in deps.values()) > len(red):
            r.keys.append(("dot", show_deps(stream)))
        fails = M.dot_fails(stream)
        done = set()
        for kind, _detail in fails:
            if kind in done:
                continue
            done.add(kind)
            m = shrink_dot(stream, kind)
            d = next((dd for k, dd in M.dot_fails(m) if k == kind), "")
            r.fail(kind, f"{kind}|{dag_shape(m)}",
                   f"{prefix}in dot({show_deps(stream)}): minimal failing graph "
                   f"dot({show_deps(m)}): {d}",
                   witness=witness if witness is not None else ("dotstream", stream))

    # }}}

    # {{{ Engine B

    def do_history(self, r, hist, levels, tier):
        hist = tuple(tuple(op) for op in hist)
        if levels == 0:
            # replay of a recorded violating history: the last operation is the checked one
            state = self.replay_prefix(r, hist[:-1])
            if state is None:
                return
            self.step(r, state, hist[:-1], hist[-1])
            return
        state = self.replay_prefix(r, hist)
        if state is None:
            return
        local_seen = {}
        deepest = hist
        level = [(hist, state)]
        for lv in range(levels):
            nxt = []
            for h, st in level:
                self.check_state(r, h, st)
                r.count("states")
                last = lv == levels - 1
                for op in MENU:
                    spec, canon, fails = self.step(r, st, h, op)
                    if fails or len(h) + 1 >= BFS_DEPTH[tier]:
                        r.count("histories")
                    deepest = (*h, op)
                    if fails or spec is None:
                        continue
                    r.keys.append(("state", canon))
                    if canon in local_seen:
                        if local_seen[canon] != spec:
                            r.fail("harness-canon-collision", "harness:canon-collision",
                                   f"two states with canonical form {canon} differ in an "
                                   f"observed field")
                        continue
                    local_seen[canon] = spec
                    if not last:
                        nxt.append(((*h, op), spec))
            level = nxt
        r.sample = ("hist", deepest, 0)

    def replay_prefix(self, r, hist):
        state = ()
        for i, op in enumerate(hist):
            spec, _canon, _fails = apply_op(state, op)
            if spec is None:
                r.fail("harness-replay", "harness:history-does-not-replay",
                       f"operation {i} of {show_history(hist)} raised")
                return None
            state = spec
        return state

    def step(self, r, state, hist, op):
        r.evals += 1
        r.count("transitions")
        spec, canon, fails = apply_op(state, op)
        if fails:
            h = (*hist, op)
            self.report(r, op_case(state, op), fails, witness=("hist", h, 0),
                        prefix=f"history {show_history(h)}: ")
        return spec, canon, fails

    def check_state(self, r, hist, state):
        if not M.well_formed(state):
            r.fail("state:ill-formed", f"state:ill-formed|{show_history(hist)}",
                   f"history {show_history(hist)} reaches {M.show_stream(state)}: duplicate id, "
                   f"dangling or cyclic dependency", witness=("hist", hist, 1))
            return
        self.do_dot_stream(r, state, None, prefix=f"history {show_history(hist)}: ")

    # }}}


def chain_stream(k, extra, order, names=None):
    """Statements c0..c(k-1) (or *names*); c(i) depends on c(i+1) (a chain) and, for (i, j) in
    *extra*, on c(j); listed in the given *order*."""
    if names is None:
        names = [f"c{i}" for i in range(k)]
    deps = {i: ({i + 1} if i + 1 < k else set()) for i in range(k)}
    for i, j in extra:
        deps[i].add(j)
    return tuple(N(names[i], [names[j] for j in sorted(deps[i])]) for i in order)


_RANKED: dict = {}


def ranked_names(k):
    """k ids whose sets iterate in list order under the current PYTHONHASHSEED: the id at
    position r has hash & 31 == r, so in CPython's small hash tables (8 or 32 slots, no
    collisions) it sits in slot r.  Used forwards and backwards this makes the iteration order
    of every dependency set an explored dimension instead of an accident of the hash seed.
    Verified on all pairs and on the whole set before use."""
    if k not in _RANKED:
        assert k <= 8
        found = {}
        i = 0
        while len(found) < k:
            nm = f"c{i}"
            r = hash(nm) & 31
            if r < k and r not in found:
                found[r] = nm
            i += 1
        names = [found[r] for r in range(k)]
        assert list(set(names)) == names, "set iteration order is not by low hash bits"
        for a, b in itertools.combinations(names, 2):
            assert list({b, a}) == [a, b] and list(frozenset([b, a])) == [a, b]
        _RANKED[k] = names
    return _RANKED[k]


def dag_shape(stream):
    """Order- and label-independent fingerprint of a dependency DAG: for every node its depth
    (longest path to a sink) with the depths of the nodes it depends on."""
    deps = {s[1]: s[5] for s in stream}
    memo = {}

    def depth(n):
        if n not in memo:
            memo[n] = 1 + max((depth(d) for d in deps.get(n, ())), default=-1)
        return memo[n]
    parts = sorted(f"{depth(n)}>{''.join(str(x) for x in sorted(depth(d) for d in deps[n]))}"
                   for n in deps)
    return f"dag[{len(deps)} nodes: " + " ".join(parts) + "]"


def show_deps(stream):
    return "; ".join(f"{s[1]}<-{{{','.join(s[5])}}}" for s in stream)


def shrink_dot(stream, kind):
    def still(c):
        return any(k == kind for k, _ in M.dot_fails(c))

    progress = True
    while progress:
        progress = False
        for i in range(len(stream)):
            cand = M._drop_stmt(stream, i)
            if cand and still(cand):
                stream, progress = cand, True
                break
        if progress:
            continue
        for i, s in enumerate(stream):
            for d in s[5]:
                cand = (*stream[:i], (*s[:5], tuple(x for x in s[5] if x != d)), *stream[i + 1:])
                if still(cand):
                    stream, progress = cand, True
                    break
            if progress:
                break
    # canonical ids and bodies
    imap = {s[1]: f"n{i}" for i, s in enumerate(stream)}
    canon = tuple(N(imap[s[1]], [imap[d] for d in s[5]]) for s in stream)
    return canon if still(canon) else stream


CHECK = C20()

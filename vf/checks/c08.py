"""C08 -- substitution commutes with evaluation.

Engine A: trees over the evaluable alphabet whose leaves include variables, subscripts and a
look-up, x every substitution map with 1-2 keys (keys given as names, Variables, Subscript or
Lookup nodes; values mentioning other keys, swaps included) x entry forms x plain/cached, over the
environment box.
"""
from __future__ import annotations

import itertools
from fractions import Fraction

from vf import gen, refsem
from vf.checks.c02 import EVAL_CTORS, has_lib_equal_twins, unhashable_below_node
from vf.envs import base_env
from vf.localise import localise
from vf.run import Check, Res
from vf.spec import (
    C, Look, Prod, Sub, Sum, V, build, build_shared, node_fields, show, sort_maps, spec_children, rebuild,
    to_spec, variables_of, walk)

X, Y = V("x"), V("y")
A0 = Sub(V("arr"), C(0))
AX = Sub(V("arr"), X)
OA = Look(V("obj"), "a")
OX = Look(V("obj"), "x")        # attribute named like a substituted variable

FILL = dict(gen.DEFAULT_FILL)
FILL["e"] = [X, AX, Y, OA, OX, C(2), A0]
FILL["b"] = FILL["e"]

BOX = (-1, 2, Fraction(1, 2))

KEYS = [("name", "x"), ("var", "x"), ("name", "y"), ("var", "y"), ("node", A0), ("node", AX),
        ("node", OA)]
# replacements include falsy ones: the constants 0 / False and a product with a zero factor
VALUES = [Y, X, Sum(X, C(1)), C(2), Prod(Y, A0), OA, AX, C(0), C(False), Prod(C(0), Y)]
KEYS_Q = [("name", "x"), ("var", "y"), ("node", AX), ("node", OA)]
VALUES_Q = [Y, X, Sum(X, C(1)), Prod(Y, A0), C(0), Prod(C(0), Y)]
PAIR_VALUES_Q = [Y, X]


def key_target(k):
    if k[0] in ("name", "var"):
        return V(k[1])
    return k[1]


def maps(keys, values, pair_values=None):
    """All substitution maps with one or two keys (no two keys denoting the same target)."""
    for k in keys:
        for v in values:
            if key_target(k) != v:
                yield ((k, v),)
    for k1, k2 in itertools.combinations(keys, 2):
        if key_target(k1) == key_target(k2):
            continue
        for v1, v2 in itertools.product(pair_values or values, repeat=2):
            if key_target(k1) == v1 and key_target(k2) == v2:
                continue
            yield ((k1, v1), (k2, v2))


def ref_subst(t, sigma):
    """Independent simultaneous substitution on specs, outermost match first, inserted values
    are not substituted again."""
    table = {key_target(k): v for k, v in sigma}

    def rec(s):
        if s in table:
            return table[s]
        ch = spec_children(s)
        if not ch:
            return s
        return rebuild(s, [rec(c) if isinstance(c, tuple) and c and isinstance(c[0], str)
                           and c[0] not in ("str",) else c for c in ch])
    return rec(t)


def contains_key(s, targets):
    return any(c in targets for c in walk(s))


def run_subst(form, expr, sigma):
    from pymbolic.mapper.substitutor import (
        CachedSubstitutionMapper, SubstitutionMapper, make_subst_func, substitute)
    d = {}
    kw = {}
    for (kind, key), v in sigma:
        val = build(v)
        if kind == "name":
            d[key] = val
            kw[key] = val
        elif kind == "var":
            d[build(V(key))] = val
        else:
            d[build(key)] = val
    # the inputs are built; from here on the library works on well-formed modern nodes and has no
    # reason to emit a DeprecationWarning of its own -- a caller running with -W error would get
    # an exception instead of a result
    import warnings
    with warnings.catch_warnings():
        warnings.simplefilter("error", DeprecationWarning)
        if form == "dict":
            return substitute(expr, d)
        if form == "kw":
            # keyword form only exists for name keys; the others go into the dict
            rest = {k: v for k, v in d.items() if not (isinstance(k, str))}
            return substitute(expr, rest, **kw)
        if form == "plain":
            return SubstitutionMapper(make_subst_func(d))(expr)
        if form == "cached":
            return CachedSubstitutionMapper(make_subst_func(d))(expr)
        if form == "plain-entry":
            return substitute(expr, d, mapper_cls=SubstitutionMapper)
    raise ValueError(form)


FORMS = ("plain", "cached", "dict", "kw", "plain-entry")


def identity_violation(orig, new, ospec, targets):
    """First maximal key-free subtree of *orig* that is not the identical object in *new*."""
    import pymbolic.primitives as p
    if not contains_key(ospec, targets):
        if orig is not new and not isinstance(orig, (list, int, float, complex, str)) \
                and orig is not None and type(orig).__name__ != "ndarray":
            return show(ospec)
        return None
    if ospec in targets:
        return None
    if isinstance(orig, p.Expression):
        if type(new) is not type(orig):
            return None         # structure changed above: judged by the value clause
        from vf.localise import PAYLOAD
        of, nf = node_fields(orig), node_fields(new)
        subs = ospec[1:]
        payload = PAYLOAD.get(ospec[0], ())
        for i, (o, n, s) in enumerate(zip(of, nf, subs)):
            if not (isinstance(s, tuple) and s and isinstance(s[0], str)) or s[0] in (
                    "str", "none", "type"):
                continue
            if i in payload and s[0] == "map":
                # the keyword mapping is rebuilt with its node: judge the values
                smap = dict(s[1:])
                for k_ in o:
                    if k_ in n and k_ in smap:
                        v = identity_violation(o[k_], n[k_], smap[k_], targets)
                        if v:
                            return v
                continue
            if i in payload and s[0] == "tuple":
                # the children / parameters tuple is rebuilt with its node: judge the members
                if isinstance(n, tuple) and len(n) == len(o):
                    for oo, nn, ss in zip(o, n, s[1:]):
                        if isinstance(ss, tuple) and ss and ss[0] not in ("str", "none"):
                            v = identity_violation(oo, nn, ss, targets)
                            if v:
                                return v
                continue
            v = identity_violation(o, n, s, targets)
            if v:
                return v
        return None
    if isinstance(orig, tuple) and isinstance(new, tuple) and len(orig) == len(new):
        for o, n, s in zip(orig, new, ospec[1:]):
            v = identity_violation(o, n, s, targets)
            if v:
                return v
    if hasattr(orig, "items") and hasattr(new, "items"):
        smap = dict(ospec[1:])
        for k in orig:
            if k in new and k in smap:
                v = identity_violation(orig[k], new[k], smap[k], targets)
                if v:
                    return v
    return None


def check(spec, sigma, r=None, forms=FORMS):
    """-> (kind, detail) or (None, '')"""
    if unhashable_below_node(spec) or any(c[0] in ("list", "array") for c in walk(spec)):
        return None, ""
    try:
        expr_plain = build(spec)
        # the memoizing forms get an input in which equal subtrees are one object: a memo hit
        # returns the first of several equal twins, which is equal but not identical
        expr_shared = build_shared(spec)
    except Exception:  # noqa: BLE001
        return None, ""
    targets = {key_target(k) for k, _ in sigma}
    want = ref_subst(spec, sigma)
    swant = sort_maps(want)
    only_vars = all(k[0] in ("name", "var") for k, _ in sigma)
    names = sorted(set(variables_of(spec)) | {n for _, v in sigma for n in variables_of(v)}
                   | {k[1] for k, _ in sigma if k[0] != "node"})
    special = base_env()
    free = [n for n in names if n not in special]
    twins = has_lib_equal_twins(spec) or has_lib_equal_twins(want)
    results = {}
    for form in forms:
        if form in ("cached", "dict", "kw") and twins:
            continue
        expr = expr_plain if form in ("plain", "plain-entry") else expr_shared
        try:
            res = run_subst(form, expr, sigma)
        except RecursionError:
            raise
        except Exception as e:  # noqa: BLE001
            return f"{form}:raises:{type(e).__name__}", f"{type(e).__name__}: {e}"
        results[form] = res
        rs = to_spec(res)
        rs_eval = to_spec(res, ordered=True)    # keyword arguments in the order the node holds them
        if r is not None:
            r.evals += 1
        # value clause: structurally equal to the reference substitution => equal values; the
        # reference substitution itself is validated against the rebinding formulation below
        boxes = itertools.product(BOX, repeat=len(free))
        if rs == swant and form != "plain":
            boxes = ()
        elif rs == swant:
            boxes = [tuple(BOX[(i + j) % len(BOX)] for i in range(len(free))) for j in range(2)]
        for vals in boxes:
            env = base_env()
            env.update(zip(free, vals))
            got = refsem.outcome(refsem.evaluate, rs_eval, dict(env))
            ref = refsem.outcome(refsem.evaluate, want, dict(env))
            if refsem.is_skip(ref) or (ref[0] == "err" and ref[1] == "TypeError"):
                continue        # too big / an environment that is ill-typed for this tree
            if only_vars:
                # the statement's own formulation: original tree, replaced names rebound
                env2 = dict(env)
                bad = False
                for k, v in sigma:
                    o = refsem.outcome(refsem.evaluate, v, dict(env))
                    if o[0] != "ok":
                        bad = True
                        break
                    env2[k[1]] = o[1]
                if not bad:
                    ref2 = refsem.outcome(refsem.evaluate, spec, env2)
                    if ref2[0] == "ok" and not refsem.outcomes_equal(ref, ref2):
                        return ("harness-oracle", f"reference substitution {show(want)} and "
                                f"rebinding disagree: {ref} vs {ref2}")
                    if ref2[0] == "ok":
                        ref = ref2
            if not refsem.outcomes_equal(ref, got):
                shown = {k: v for k, v in env.items() if k in free}
                return (f"{form}:value", f"result {show(rs)} at {shown}: expected "
                        f"{refsem.show_outcome(ref)} got {refsem.show_outcome(got)}")
        # identity clause
        v = identity_violation(expr, res, spec, targets)
        if v:
            return (f"{form}:identity", f"subtree {v} contains nothing to replace but came back as "
                    f"a different object (result {show(rs)})")
    base = results.get("plain")
    for form, res in results.items():
        if base is not None and to_spec(res) != to_spec(base):
            return (f"{form}:differs-from-plain", f"{show(to_spec(res))} vs plain "
                    f"{show(to_spec(base))}")
    return None, ""


def show_sigma(sigma):
    return "{" + ", ".join(f"{k[0]}:{k[1] if k[0] != 'node' else show(k[1])} -> {show(v)}"
                           for k, v in sigma) + "}"


class C08(Check):
    pid = "C08"
    level = "exploration"
    rule = ("bounded-exhaustive: every evaluable constructor shape with every combination of the "
            "leaves {x, y, arr[0], arr[x], obj.a, obj.x, 2} (depth2) and every (parent, position, child) "
            "nesting, x every substitution map with 1-2 keys over {x, y as name / Variable, arr[0], "
            "arr[x], obj.a as nodes} and values {y, x, x+1, 2, y*arr[0], obj.a, arr[x]} (swaps and "
            "values mentioning other keys included; quick: 4 keys x 4 values) x 5 entry forms, on "
            "the box {-1, 2, 1/2}^vars; plus all length-2 histories of substitute() calls (4 trees x 4 "
            "keyword forms) that share ONE caller dict, which must come back unchanged. Non-trivial = the tree contains at least one key; distinct "
            "= distinct (tree, map) pairs.")
    assumptions = [
        "for maps with only variable keys the oracle is the statement's own formulation (original "
        "tree evaluated with the replaced names rebound); with subscript/look-up keys it is an "
        "independent simultaneous substitution on specs (outermost match first)",
        "one map never gives the same target twice (as name and as Variable), except in the "
        "special maps, where the expression-keyed entry is the one that counts",
        "lists/arrays are not substituted into (memoizing mapper needs hashable input)",
        "environments in which the reference evaluation raises TypeError are ill-typed for the tree "
        "(~ of a Fraction) and say nothing",
        "during the substitution itself DeprecationWarnings are errors (as under python -W error): "
        "the inputs are modern, hashable nodes, so any such warning comes from the library's own "
        "rebuilding of nodes",
    ]
    chunk = 4

    def families(self, tier):
        leaves = [X, Y, A0, AX, OA, OX, C(2)]
        sigmas = self.sigmas(tier)
        ctors2 = [c for c in EVAL_CTORS if len(c.slots) <= 2] if tier == "quick" else EVAL_CTORS

        def d2():
            for s in gen.depth2(ctors2, [X, Y, AX, OX] if tier == "quick" else leaves):
                yield ("ts", s)

        def n2():
            for _, s in gen.nest2(EVAL_CTORS, EVAL_CTORS, FILL):
                yield ("ts", s)

        def twins():
            for t in gen.twin_trees():
                yield ("ts", t)
            for t in gen.twin_trees(gen.TYPED_TWINS, X, Y):
                yield ("ts", t)

        self._sigmas = sigmas
        return [("depth2", d2), ("nest2", n2), ("twins", twins), ("special-maps", self.gen_special),
                ("shared-dict", self.gen_shared_dict)]

    # -- histories of calls that share one assignment dict ---------------------------------------
    HTREES = [Sum(X, Y), Prod(X, AX), ("Call", V("f"), ("tuple", Y, OX)), Sum(OA, X)]
    HCALLS = [(), (("x", Y),), (("y", Sum(X, C(1))),), (("x", C(2)), ("y", X))]

    def gen_shared_dict(self):
        dicts = [(), (("name", "x"), C(3)), ((("name", "y"), X),)]
        for d in ((), ((("name", "x"), C(3)),), ((("name", "y"), X),)):
            for hist in itertools.product(range(len(self.HTREES) * len(self.HCALLS)), repeat=2):
                yield ("shared", d, hist)
        del dicts

    def check_shared(self, r, d0, hist):
        from pymbolic.mapper.substitutor import substitute
        shared = {key: build(v) for (_, key), v in d0}
        snapshot = dict(shared)
        for step, op in enumerate(hist):
            ti, ci = divmod(op, len(self.HCALLS))
            spec = self.HTREES[ti]
            kw = {k: build(v) for k, v in self.HCALLS[ci]}
            r.evals += 1
            got = substitute(build(spec), shared, **kw)
            sigma = tuple([*d0, *[(("name", k), v) for k, v in self.HCALLS[ci]
                                  if k not in dict((kk[1], 0) for kk, _ in d0)]])
            # keyword assignments override the dict's
            merged = {kk[1]: v for kk, v in d0}
            merged.update(dict(self.HCALLS[ci]))
            want = ref_subst(spec, tuple((("name", k), v) for k, v in merged.items()))
            del sigma
            if sort_maps(to_spec(got)) != sort_maps(want):
                return ("shared-dict:result", step,
                        f"call {step} substitute({show(spec)}, d, **{ {k: show(v) for k, v in self.HCALLS[ci]} }) "
                        f"returned {show(to_spec(got))}, expected {show(want)}")
            if shared != snapshot or list(shared) != list(snapshot):
                return ("shared-dict:caller-dict-mutated", step,
                        f"after call {step} the caller's dict is {sorted(shared)} "
                        f"(was {sorted(snapshot)})")
        return None

    def gen_special(self):
        """maps whose keys interact: a name key whose value is the aggregate of a node key (the
        rebuilt node must not be looked up again), string keys that spell the printed form of a
        look-up / subscript, an expression key and a keyword for the same variable"""
        obj, a = V("obj"), V("a")
        oa = ("Lookup", obj, ("str", "a"))
        a0, ax = ("Subscript", a, C(0)), ("Subscript", a, X)
        chains = [
            (("Sum", ("tuple", ("Lookup", X, ("str", "a")), C(1))),
             ((("var", "x"), obj), (("node", oa), C(7)))),
            (("Sum", ("tuple", ("Subscript", X, C(0)), ("Product", ("tuple", C(100), X)))),
             ((("name", "x"), a), (("node", a0), C(7)))),
            (("Sum", ("tuple", ("Subscript", a, Y), ax)),
             ((("var", "y"), X), (("node", ax), C(7)))),
            (("Call", V("f"), ("tuple", ("Lookup", ("Lookup", X, ("str", "a")), ("str", "b")))),
             ((("name", "x"), obj), (("node", oa), V("obj2")))),
            (("Sum", ("tuple", ("Lookup", X, ("str", "a")), ("Lookup", Y, ("str", "a")))),
             ((("var", "x"), Y), (("var", "y"), obj), (("node", oa), C(7)))),
        ]
        strings = [
            (("Sum", ("tuple", oa, V("obj.a"), a0, V("a[0]"))),
             ((("name", "obj.a"), C(2)), (("name", "a[0]"), C(3)))),
            (("Product", ("tuple", ax, V("a[x]"), ("Lookup", V("obj"), ("str", "x")), V("obj.x"))),
             ((("name", "a[x]"), C(2)), (("name", "obj.x"), C(3)), (("name", "x"), C(1)))),
        ]
        both = [
            (("Sum", ("tuple", ("Product", ("tuple", C(10), X)), Y)),
             ((("name", "x"), C(7)), (("var", "x"), Y), (("name", "y"), C(3)))),
            (("Sum", ("tuple", ("Product", ("tuple", C(10), X)), Y)),
             ((("name", "x"), Sum(Y, C(1))), (("var", "x"), C(5)))),
        ]
        for spec, sigma in [*chains, *strings, *both]:
            yield ("one", spec, sigma)

    def sigmas(self, tier):
        if tier == "quick":
            return list(maps(KEYS_Q, VALUES_Q, PAIR_VALUES_Q))
        return list(maps(KEYS, VALUES))

    def check_item(self, family, item, tier):
        r = Res()
        if item[0] == "shared":
            d0 = tuple((tuple(k), v) for k, v in item[1])
            f = self.check_shared(r, d0, tuple(item[2]))
            r.keys.append(item)
            r.count("histories")
            if f:
                hist = tuple(item[2])[:f[1] + 1]
                calls = ";".join(f"{show(self.HTREES[op // len(self.HCALLS)])}"
                                 f"{[k for k, _ in self.HCALLS[op % len(self.HCALLS)]]}"
                                 for op in hist)
                r.fail(f[0], f"{f[0]}|{calls}", f[2], witness=("shared", item[1], hist))
            return r
        spec = item[1]
        if item[0] == "one":                      # replay of a single (tree, map) pair
            sigmas = [tuple((tuple(k) if k[0] != "node" else ("node", k[1]), v) for k, v in item[2])]
        else:
            sigmas = getattr(self, "_sigmas", None) or self.sigmas(tier)
        for sigma in sigmas:
            targets = {key_target(k) for k, _ in sigma}
            if contains_key(spec, targets):
                r.keys.append((spec, sigma))
            k, detail = check(spec, sigma, r)
            if k:
                locs = localise(spec, lambda s: check(s, sigma)[0])
                if not locs:
                    locs = [(k, f"{k}|{show(spec)}", spec)]
                for kk, sig, m in locs:
                    d = check(m, sigma)[1]
                    # the map is part of the signature only where it matters
                    msig = show_sigma(minimal_sigma(m, sigma, kk))
                    r.fail(kk, f"{sig}|{msig}",
                           f"in {show(spec)} with {show_sigma(sigma)}: minimal failing tree "
                           f"{show(m)}: {d}", witness=("one", m, sigma))
        return r


def minimal_sigma(spec, sigma, kind):
    """Drop map entries that are not needed for the failure."""
    cur = list(sigma)
    for entry in list(cur):
        trial = tuple(e for e in cur if e != entry)
        if check(spec, trial)[0] == kind:
            cur = list(trial)
    return tuple(cur)


CHECK = C08()

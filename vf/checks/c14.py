"""C14 -- generated C code computes what the evaluator computes.

Engine A: every tree of the C-expressible fragment (integer part and floating part) is mapped by
CCodeMapper, wrapped into a C function together with its hoisted CSE assignments, compiled with
gcc and run on every in-range environment of the box; oracle = vf.refsem.
Engine B: all histories (up to a depth bound) of {map expression i on mapper 0 or on its copy,
copy(), copy_with_mapped_cses()} -- the original stays in use next to its copy; after every transition the name list is checked
(unique names, assigned before use, one assignment per distinct wrapped child), and the programs of
all maximal histories are compiled and run.
"""
from __future__ import annotations

import itertools
import re

from vf import gen, refsem
from vf.c14_harness import CProgram
from vf.gen import Ctor
from vf.localise import localise
from vf.run import Check, Res
from vf.spec import CSE, C, S, T, V, build, show, variables_of, walk

INT_BOX = (0, 1, 2, 3, 5)
FLT_BOX = (0.5, 1.0, 2.5, 4.0)
LIMIT = 2 ** 40
BATCH = 80
HIST_DEPTH = {"quick": 3, "thorough": 4}
COMPILE_DEPTH = 3       # the programs of all histories of this length are compiled and run

POWK = [Ctor(f"Pow{k}", "Power", ("e",), lambda ch, k=k: ("Power", ch[0], C(k))) for k in range(4)]
ABS = Ctor("Abs", "Call", ("e",), lambda ch: ("Call", V("abs"), T(ch[0])))
INT_CTORS = gen.ctors(names=(
    "Sum2", "Sum3", "Product2", "Product3", "FloorDiv", "Remainder", "Power", "LeftShift",
    "RightShift", "BitwiseNot", "BitwiseOr2", "BitwiseXor2", "BitwiseAnd2", "Cmp<", "Cmp<=",
    "Cmp>", "Cmp>=", "Cmp==", "Cmp!=", "LogicalNot", "LogicalOr2", "LogicalAnd2", "If", "Min2",
    "Max2", "CSE", "CSEp")) + POWK + [ABS]
INT_REDUCED = [c for c in INT_CTORS if c.name in (
    "Sum2", "Product2", "FloorDiv", "Remainder", "Pow2", "LeftShift", "BitwiseNot", "BitwiseAnd2",
    "BitwiseOr2", "Cmp<", "Cmp==", "LogicalNot", "LogicalAnd2", "If", "CSEp")]
POWNEG = [Ctor(f"Pow{k}", "Power", ("e",), lambda ch, k=k: ("Power", ch[0], C(k)))
          for k in (-1, -2)] + [Ctor("Pow-1.0", "Power", ("e",), lambda ch: ("Power", ch[0], C(-1.0)))]
FLT_CTORS = gen.ctors(names=("Sum2", "Sum3", "Product2", "Product3", "Quotient", "Power",
                             "Cmp<", "Cmp>=", "If", "Min2", "Max2", "CSE")) + POWK[1:] + POWNEG

FILL = dict(gen.DEFAULT_FILL)
FILL["e"] = [V("x"), V("y"), V("z"), C(2), C(3)]
FILL["b"] = FILL["e"]
FFILL = dict(gen.DEFAULT_FILL)
FFILL["e"] = [V("x"), V("y"), V("z"), C(2.5), C(0.5)]
FFILL["b"] = FFILL["e"]


class OutOfRange(Exception):
    pass


def c_int_typed(s):
    """Does the C expression for *s* have type int?  Integer literals are int; the variables are
    long long and pull arithmetic up to their type -- but a shift has the type of its LEFT operand,
    and comparisons / logical operators yield int."""
    t = s[0]
    if t in ("int", "bool"):
        return True
    if t in ("Variable", "float"):
        return False
    if t in ("LeftShift", "RightShift"):
        return c_int_typed(s[1])
    if t in ("Comparison", "LogicalNot", "LogicalAnd", "LogicalOr"):
        return True
    if t == "If":
        return c_int_typed(s[2]) and c_int_typed(s[3])
    if t == "CommonSubexpression":
        return c_int_typed(s[1])
    if t in ("Call", "Min", "Max"):
        return False                # harness macros / long long functions
    kids = [c for c in s[1:] if isinstance(c, tuple) and c and isinstance(c[0], str)]
    flat = []
    for c in kids:
        flat += list(c[1:]) if c[0] == "tuple" else [c]
    return bool(flat) and all(c_int_typed(c) for c in flat)


class CRef(refsem.Ref):
    """Reference evaluator that refuses environments outside the C-expressible range (negative
    operands of // % << >>, zero denominators, overflow, non-finite)."""

    def __init__(self, env, floating):
        super().__init__(env)
        self.floating = floating

    def ev(self, s):
        v = super().ev(s)
        if isinstance(v, bool):
            return v
        if isinstance(v, int) and abs(v) > LIMIT:
            raise OutOfRange()
        if isinstance(v, int) and abs(v) >= 2 ** 31 and c_int_typed(s):
            raise OutOfRange()      # this subtree has C type int (32 bit), not the variables' type
        if isinstance(v, float) and (v != v or abs(v) > 1e15):
            raise OutOfRange()
        if isinstance(v, complex):
            raise OutOfRange()
        return v

    def _nonneg(self, s):
        a, b = self.ev(s[1]), self.ev(s[2])
        if not (isinstance(a, int) and isinstance(b, int)) or a < 0 or b < 0:
            raise OutOfRange()
        return a, b

    def n_FloorDiv(self, s):
        a, b = self._nonneg(s)
        if b == 0:
            raise OutOfRange()
        return a // b

    def n_Remainder(self, s):
        a, b = self._nonneg(s)
        if b == 0:
            raise OutOfRange()
        return a % b

    def n_LeftShift(self, s):
        a, b = self._nonneg(s)
        if b > 30:
            raise OutOfRange()
        return a << b

    def n_RightShift(self, s):
        a, b = self._nonneg(s)
        if b > 30:
            raise OutOfRange()
        return a >> b

    def n_Quotient(self, s):
        a, b = self.ev(s[1]), self.ev(s[2])
        # in the integer fragment a true division needs a floating operand (int / int truncates
        # in C): an integer-valued float constant such as 2.0 is one
        if b == 0 or not (self.floating or isinstance(a, float) or isinstance(b, float)):
            raise OutOfRange()
        return a / b

    def n_Power(self, s):
        b, e = self.ev(s[1]), self.ev(s[2])
        if isinstance(e, bool) or isinstance(b, bool):
            raise OutOfRange()
        if not self.floating:
            if e > 12 or (e < 0 and (b == 0 or e < -4)):
                raise OutOfRange()
            # a negative constant exponent goes through pow(): a double (1 / b), also for an
            # integer base
        else:
            if b <= 0 and not (isinstance(e, int) or float(e).is_integer()):
                raise OutOfRange()
            if b == 0 and e < 0:
                raise OutOfRange()
            if abs(e) > 12:
                raise OutOfRange()
        return b ** e

    def n_Call(self, s):
        if s[1] == V("abs"):
            return abs(self.ev(s[2][1]))
        raise OutOfRange()

    def n_BitwiseNot(self, s):
        v = self.ev(s[1])
        if not isinstance(v, int) or isinstance(v, bool):
            raise OutOfRange()
        return ~v

    def _ints(self, s):
        vals = [self.ev(c) for c in s[1][1:]]
        if any(not isinstance(v, int) or isinstance(v, bool) for v in vals):
            raise OutOfRange()
        return vals

    def n_BitwiseOr(self, s):
        vals = self._ints(s)
        r = vals[0]
        for v in vals[1:]:
            r |= v
        return r

    def n_BitwiseXor(self, s):
        vals = self._ints(s)
        r = vals[0]
        for v in vals[1:]:
            r ^= v
        return r

    def n_BitwiseAnd(self, s):
        vals = self._ints(s)
        r = vals[0]
        for v in vals[1:]:
            r &= v
        return r


def ref_values(spec, floating):
    """[(vals(x,y,z), expected)] over the in-range environments of the box."""
    names = [n for n in variables_of(spec) if n in ("x", "y", "z")]
    box = FLT_BOX if floating else INT_BOX
    out = []
    for vals in itertools.product(box, repeat=len(names)):
        env = dict(zip(names, vals))
        try:
            v = CRef(env, floating)(spec)
        except (OutOfRange, ZeroDivisionError, OverflowError, ValueError, TypeError):
            continue
        full = tuple(env.get(n, box[0]) for n in ("x", "y", "z"))
        out.append((full, v))
    return out


def map_to_c(spec):
    from pymbolic.mapper.c_code import CCodeMapper
    from pymbolic.mapper.stringifier import PREC_NONE
    ccm = CCodeMapper()
    text = ccm(build(spec), PREC_NONE)
    return list(ccm.cse_name_list), text


def agree(expected, kind, got, floating):
    if isinstance(expected, bool):
        expected = int(expected)
    if floating or isinstance(expected, float) or kind == "d":
        e = float(expected)
        return abs(got - e) <= 1e-9 * max(1.0, abs(e))
    return kind == "i" and got == expected


def c_type(s):
    """'int' or 'double': the C type of the emitted text when every variable is a long long."""
    t = s[0]
    if t == "float":
        return "double"
    if t == "Power":
        e = s[2]
        if e[0] == "int" and e[1] == 0:
            return "int"
        if e[0] == "int" and e[1] in (1, 2):
            return c_type(s[1])
        return "double"                 # pow()
    if t in ("Sum", "Product", "Min", "Max"):
        return "double" if any(c_type(c) == "double" for c in s[1][1:]) else "int"
    if t == "If":
        return "double" if "double" in (c_type(s[2]), c_type(s[3])) else "int"
    if t == "CommonSubexpression":
        return c_type(s[1])
    if t == "Quotient":
        return "double"
    if t == "Call":
        return "int"                    # abs()
    return "int"


INT_ONLY = ("FloorDiv", "Remainder", "LeftShift", "RightShift", "BitwiseNot", "BitwiseOr",
            "BitwiseXor", "BitwiseAnd")


def c_well_typed(s):
    """Operands of // % << >> & | ^ ~ and of abs() must be integer-typed in C."""
    for c in walk(s):
        if c[0] in INT_ONLY:
            kids = c[1][1:] if c[1][0] == "tuple" else c[1:]
            if any(c_type(k) == "double" for k in kids):
                return False
        if c[0] == "Call" and c_type(c[2][1]) == "double":
            return False
    return True


def supported(spec, floating, mixed=False):
    if not floating and not c_well_typed(spec):
        return False
    tags = {c[0] for c in walk(spec)}
    ok = {"Variable", "int", "float", "str", "none", "tuple", "Sum", "Product", "Power",
          "Comparison", "If", "Min", "Max", "CommonSubexpression", "Call"}
    if floating or mixed:
        ok |= {"Quotient"}
    if not floating:
        ok |= {"FloorDiv", "Remainder", "LeftShift", "RightShift", "BitwiseNot", "BitwiseOr",
               "BitwiseXor", "BitwiseAnd", "LogicalNot", "LogicalOr", "LogicalAnd"}
    if not tags <= ok:
        return False
    for c in walk(spec):
        if c[0] == "Call" and c[1] != V("abs"):
            return False
        if c[0] in ("Min", "Max") and len(c[1]) != 3:
            return False
        if c[0] == "float" and not (floating or mixed):
            return False
    return True


def check_specs(specs, floating, r=None, mixed=False):
    """-> {index: (kind, detail)} for the failing specs of a batch."""
    fails = {}
    prog = CProgram("double" if floating else "long long")
    fi_of = {}
    expect = {}
    for i, spec in enumerate(specs):
        if not supported(spec, floating, mixed):
            continue
        try:
            assigns, text = map_to_c(spec)
        except RecursionError:
            raise
        except Exception as e:  # noqa: BLE001
            fails[i] = (f"mapper-raises:{type(e).__name__}", f"CCodeMapper raised {e!r}")
            continue
        rv = ref_values(spec, floating)
        if not rv:
            continue
        if r is not None:
            r.keys.append(spec)
        fi = prog.add_func(assigns, text)
        fi_of[fi] = (i, text, assigns)
        for vals, v in rv:
            prog.add_job(fi, vals)
            expect[(fi, vals)] = v
    if not prog.funcs:
        return fails
    st, res = prog.run()
    if st != "ok":
        # find the offending functions one by one, run the rest together
        good = set()
        for fi in fi_of:
            st1, res1 = prog.run(only={fi})
            if st1 == "ok":
                good.add(fi)
            else:
                i, text, assigns = fi_of[fi]
                fails[i] = (f"c-{st1}", f"generated C '{text}' with {assigns}: "
                            + str(res1)[-300:].replace("\n", " | "))
        st, res = prog.run(only=good) if good else ("ok", [])
        if st != "ok":
            for fi in good:
                fails.setdefault(fi_of[fi][0], ("c-" + st, str(res)[-300:]))
            return fails
    for (fi, vals), kind, got in res:
        if r is not None:
            r.evals += 1
        i, text, assigns = fi_of[fi]
        if i in fails:
            continue
        e = expect[(fi, vals)]
        if not agree(e, kind, got, floating):
            fails[i] = ("value", f"C text '{text}' with hoisted {assigns} at (x,y,z)={vals}: "
                        f"expected {e!r}, C computed {got!r}")
    return fails


# {{{ callee forms: a function given by name, as a struct member, as an array element

CALLEE_C = r"""
#include <stdio.h>
static long long f(long long a) { return a + 1; }
static long long g(long long a, long long b) { return 10 * a + b; }
static long long triple(long long a) { return 3 * a; }
static long long mix(long long a, long long b) { return a - 7 * b; }
struct S { long long (*f)(long long); long long (*g)(long long, long long); };
static struct S s = { triple, mix };
static struct S ss[2] = { { f, g }, { triple, mix } };
static long long (*fs[2])(long long) = { triple, f };
"""


def check_callees(r=None):
    """The callee of a Call is an expression of its own: a name, a member of a struct (look-up), an
    element of an array of function pointers (subscript).  In the environment the struct member f
    is another function than the global f.  Compiled with gcc and run; oracle = vf.refsem."""
    import os
    import shutil
    import subprocess
    import tempfile
    import types

    from pymbolic.mapper.c_code import CCodeMapper
    from pymbolic.mapper.stringifier import PREC_NONE
    fvar, gvar, svar = V("f"), V("g"), V("s")
    sf, sg = ("Lookup", svar, S("f")), ("Lookup", svar, S("g"))
    fs0, fs1 = ("Subscript", V("fs"), C(0)), ("Subscript", V("fs"), C(1))
    ss1f = ("Lookup", ("Subscript", V("ss"), C(1)), S("f"))
    trees = [("Call", fvar, T(X)), ("Call", sf, T(X)), ("Call", fs0, T(X)), ("Call", fs1, T(X)),
             ("Call", sg, T(X, Y)), ("Call", gvar, T(X, Y)), ("Call", ss1f, T(X)),
             ("Sum", T(("Call", sf, T(X)), ("Call", fvar, T(X)))),
             ("Product", T(C(2), ("Call", sf, T(("Call", fvar, T(Y)))))),
             ("Call", fvar, T(("Call", sg, T(X, ("Call", fs0, T(Y)))))),
             ("If", ("Comparison", ("Call", sf, T(X)), S("<"), ("Call", fvar, T(Y))),
              ("Call", sg, T(X, Y)), ("Call", gvar, T(X, Y)))]

    def pf(a):
        return a + 1

    def pg(a, b):
        return 10 * a + b
    s_obj = types.SimpleNamespace(f=lambda a: 3 * a, g=lambda a, b: a - 7 * b)
    ss_obj = [types.SimpleNamespace(f=pf, g=pg), s_obj]
    points = [(2, 5), (0, 3), (7, 1)]
    cases = []
    for t in trees:
        try:
            text = CCodeMapper()(build(t), PREC_NONE)
        except RecursionError:
            raise
        except Exception as ex:  # noqa: BLE001
            yield ("callee-map-raises", f"callee-map-raises|{show(t)}", f"{show(t)}: {ex!r}")
            continue
        cases.append((t, text))
    lines = [CALLEE_C, "int main(void) {",
             "  const long long pts[][2] = {" + ", ".join("{%d, %d}" % p_ for p_ in points) + "};",
             "  for (int i = 0; i < %d; ++i) { long long x = pts[i][0], y = pts[i][1];"
             % len(points)]
    for k, (_t, text) in enumerate(cases):
        lines.append(f'    printf("%d %d %lld\\n", {k}, i, (long long)({text}));')
    lines += ["  }", "  return 0;", "}"]
    d = tempfile.mkdtemp(prefix="vf-c14-callee-")
    try:
        src = os.path.join(d, "c.c")
        with open(src, "w") as fh:
            fh.write("\n".join(lines) + "\n")
        exe = os.path.join(d, "c")
        cp = subprocess.run(["gcc", "-O0", "-w", "-std=gnu11", "-o", exe, src],
                            capture_output=True, text=True, timeout=300)
        if cp.returncode != 0:
            yield ("callee-compile", "callee-compile", "gcc rejected the generated texts "
                   + str([t for _, t in cases]) + ": " + cp.stderr[-500:])
            return
        out = subprocess.run([exe], capture_output=True, text=True, timeout=60).stdout
    finally:
        shutil.rmtree(d, ignore_errors=True)
    for ln in out.splitlines():
        k, i, val = ln.split()
        t, text = cases[int(k)]
        vx, vy = points[int(i)]
        env = {"x": vx, "y": vy, "f": pf, "g": pg, "s": s_obj, "ss": ss_obj,
               "fs": [s_obj.f, pf]}
        want = refsem.evaluate(t, env)
        if r is not None:
            r.evals += 1
        if int(val) != want:
            yield ("callee-value", f"callee-value|{show(t)}",
                   f"{show(t)} -> '{text}': at (x, y) = ({vx}, {vy}) expected {want}, C computed "
                   f"{val}")
    if r is not None:
        r.keys.extend(show(t) for t, _ in cases)

# }}}


# {{{ complex constants (C++: std::complex)

CX_CONSTS = (1 + 2j, 2 + 0j, complex(0.5, 0.0), complex(0.5, -0.0), 1j, complex(-1.5, 0.0),
             complex(3.0, -1.0))
CX_POINTS = (-4.0, 2.5)


def cx_trees():
    import pymbolic.primitives as p
    x = p.Variable("x")
    for c in CX_CONSTS:
        yield c, [c, p.Sum((x, c)), p.Product((c, x)), p.Power(x, c), p.Power(c, x),
                  p.Quotient(x, c), p.Sum((p.Product((c, c)), x)), p.Power(p.Sum((x, 1.0)), c)]


def check_complex(r=None):
    """A complex constant keeps complex arithmetic in the generated code, also when its imaginary
    part is zero (branch cuts: pow(-4.0, 0.5) is NaN, pow(-4.0, complex(0.5, 0)) is 2i).  The
    generated texts are compiled as C++ and run; oracle = Python's complex arithmetic."""
    import cmath
    import os
    import subprocess
    import tempfile

    from pymbolic.mapper.c_code import CCodeMapper
    from pymbolic.mapper.stringifier import PREC_NONE
    cases = []
    for c, trees in cx_trees():
        for e in trees:
            try:
                text = CCodeMapper()(e, PREC_NONE)
            except RecursionError:
                raise
            except Exception as ex:  # noqa: BLE001
                yield ("cx-map-raises", f"cx-map-raises|{c!r}|{type(e).__name__}",
                       f"mapping {e!r} raised {ex!r}")
                continue
            cases.append((c, e, text))
    lines = ["#include <complex>", "#include <cstdio>", "#include <cmath>", "using namespace std;",
             "int main() {", "  const double xs[] = {" + ", ".join(map(repr, CX_POINTS)) + "};",
             "  for (int i = 0; i < %d; ++i) { double x = xs[i];" % len(CX_POINTS)]
    for k, (_c, _e, text) in enumerate(cases):
        lines.append(f"    {{ std::complex<double> r = ({text}); "
                     f'printf("%d %d %.17g %.17g\\n", {k}, i, r.real(), r.imag()); }}')
    lines += ["  }", "  return 0;", "}"]
    d = tempfile.mkdtemp(prefix="vf-c14-cx-")
    try:
        src = os.path.join(d, "cx.cpp")
        with open(src, "w") as fh:
            fh.write("\n".join(lines) + "\n")
        exe = os.path.join(d, "cx")
        cp = subprocess.run(["g++", "-O0", "-std=gnu++14", "-o", exe, src], capture_output=True,
                            text=True, timeout=300)
        if cp.returncode != 0:
            yield ("cx-compile", "cx-compile", "g++ rejected the generated texts: "
                   + cp.stderr[-600:])
            return
        out = subprocess.run([exe], capture_output=True, text=True, timeout=60).stdout
    finally:
        import shutil
        shutil.rmtree(d, ignore_errors=True)
    from pymbolic.mapper.evaluator import evaluate
    for ln in out.splitlines():
        k, i, re_, im_ = ln.split()
        c, e, text = cases[int(k)]
        xv = CX_POINTS[int(i)]
        try:
            want = complex(evaluate(e, {"x": xv}))
        except (ZeroDivisionError, OverflowError, ValueError):
            continue
        got = complex(float(re_), float(im_))
        if r is not None:
            r.evals += 1
        ok = (cmath.isnan(want) and cmath.isnan(got)) or abs(got - want) <= 1e-9 * max(1.0, abs(want))
        if not ok:
            yield ("cx-value", f"cx-value|{type(e).__name__}|{c!r}",
                   f"{e!r} -> '{text}': at x={xv} the evaluator gives {want!r}, the C++ code {got!r}")
    if r is not None:
        r.keys.extend((repr(c), type(e).__name__) for c, e, _ in cases)

# }}}


# {{{ Engine B: CSE naming histories

X, Y, Z = V("x"), V("y"), V("z")
POOL = [
    CSE(("Sum", T(X, C(1)))),
    ("Sum", T(CSE(("Sum", T(X, C(1)))), Y)),
    CSE(("Product", T(Y, C(2))), "p"),
    CSE(("Product", T(X, C(3))), "p"),
    CSE(("Product", T(CSE(("Sum", T(X, C(1)))), C(2))), "q"),
    CSE(("Sum", T(X, C(1))), "p"),
    ("Sum", T(CSE(("Sum", T(X, C(2)))), CSE(("Sum", T(X, C(2)))))),
    ("Sum", T(CSE(("Sum", T(Z, C(5)))), CSE(("Product", T(Y, C(2))), "p"))),
    # a prefix that looks like the numbered name of another prefix's second wrapper
    ("Sum", T(CSE(("Product", T(Y, C(2))), "p"), CSE(("Product", T(X, C(3))), "p"),
              CSE(("Product", T(Z, C(4))), "p_2"), CSE(("Sum", T(Z, C(6))), "p_1"))),
]
# expressions CCodeMapper cannot render (a None leaf): the call must fail every time and leave the
# mapper's tables consistent
BAD = [
    CSE(("Sum", T(X, ("none",))), "b"),
    ("Sum", T(CSE(("Sum", T(X, C(1)))), CSE(("Product", T(Y, ("none",)))))),
]
N_MAPPERS = 2
OPS = ([("map", m, i) for m in range(N_MAPPERS) for i in range(len(POOL))]
       + [("mapbad", m, i) for m in range(N_MAPPERS) for i in range(len(BAD))]
       + [("copy", 0), ("copy_mapped", 0), ("copy_list", "empty"), ("copy_list", "first")])
EXT = ("_cse_ext", "42")
_IDENT = re.compile(r"[A-Za-z_][A-Za-z_0-9]*")


def wrapped_children(spec):
    return {c[1] for c in walk(spec) if c[0] == "CommonSubexpression"}


def run_history(hist):
    """Replay *hist* on fresh CCodeMappers.  Mapper 0 exists from the start; ("copy", 0) and
    ("copy_mapped", 0) make (or replace) mapper 1 as a copy of mapper 0; both stay in use.
    -> (violation or None, outputs, state)

    outputs: [(pool index, returned text, name list snapshot)] for the map operations."""
    from pymbolic.mapper.c_code import CCodeMapper
    from pymbolic.mapper.stringifier import PREC_NONE
    mappers = [CCodeMapper(), None]
    seen = [set(), None]            # distinct wrapped children mapped in each mapper's lineage
    ext = 0
    ext_names = [set(), set()]      # per mapper: names that came in through copy_with_mapped_cses
    outputs = []
    for step, op in enumerate(hist):
        if op[0] == "map":
            mi = op[1]
            if mappers[mi] is None:
                return ("invalid", step, "mapper does not exist yet"), outputs, None
            spec = POOL[op[2]]
            try:
                text = mappers[mi](build(spec), PREC_NONE)
            except RecursionError:
                raise
            except Exception as e:  # noqa: BLE001
                return ((f"map-raises:{type(e).__name__}", step,
                         f"mapper {mi}: mapping {show(spec)} raised {e!r} (name list "
                         f"{mappers[mi].cse_name_list})"), outputs, mappers[mi])
            if seen[mi] is not None:
                seen[mi] |= wrapped_children(spec)
            outputs.append((op[2], text, list(mappers[mi].cse_name_list)))
            last_text = text
        elif op[0] == "mapbad":
            mi = op[1]
            if mappers[mi] is None:
                return ("invalid", step, "mapper does not exist yet"), outputs, None
            spec = BAD[op[2]]
            try:
                last_text = mappers[mi](build(spec), PREC_NONE)
            except RecursionError:
                raise
            except Exception:  # noqa: BLE001
                last_text = None
            if last_text is not None:
                return (("bad-expression-accepted", step,
                         f"mapper {mi}: {show(spec)} has a leaf without a C rendering, but the "
                         f"call returned '{last_text}' (name list {mappers[mi].cse_name_list})"),
                        outputs, mappers[mi])
            # wrappers whose child was rendered completely before the failure are assigned
            done = {n_t[1] for n_t in mappers[mi].cse_name_list}
            if seen[mi] is not None:
                for ch in wrapped_children(spec):
                    if not any(c == ("none",) for c in walk(ch)):
                        try:
                            if CCodeMapper()(build(ch), PREC_NONE) in done:
                                seen[mi] |= {ch}
                        except Exception:  # noqa: BLE001
                            pass
        elif op[0] == "copy_list":
            # an explicit name list: the copy starts from THAT list, and only knows the wrappers
            # whose names are in it
            keep = [] if op[1] == "empty" else list(mappers[0].cse_name_list[:1])
            mappers[1] = mappers[0].copy(keep)
            ext_names[1] = set()
            seen[1] = set() if not keep else None     # None: which children survive is not modelled
        elif op[0] == "copy":
            mappers[1] = mappers[0].copy()
            ext_names[1] = set(ext_names[0])
            seen[1] = set(seen[0]) if seen[0] is not None else None
        else:
            # the mapped name is of the very shape the generator would hand out next (alternating
            # with a name of another shape), so that a registry out of step with the list shows
            taken = {n for n, _ in mappers[0].cse_name_list}
            k = 0
            while f"_cse{k}" in taken:
                k += 1
            mapped = f"_cse{k}" if ext % 2 == 0 else f"{EXT[0]}{ext}"
            ext_names[1] = ext_names[0] | {mapped}
            mappers[1] = mappers[0].copy_with_mapped_cses([(mapped, EXT[1])])
            seen[1] = set(seen[0]) if seen[0] is not None else None
            ext += 1
        for mi, m in enumerate(mappers):
            if m is None:
                continue
            names = [n for n, _ in m.cse_name_list]
            own = [(n, t) for n, t in m.cse_name_list if n not in ext_names[mi]]
            own_names = names
            if len(set(own_names)) != len(own_names):
                dup = sorted({n for n in own_names if own_names.count(n) > 1})
                return (("duplicate-name", step,
                         f"mapper {mi}: names {dup} assigned more than once: {m.cse_name_list}"),
                        outputs, m)
            assigned = set()
            for n, t in m.cse_name_list:
                for ident in _IDENT.findall(t):
                    if ident.startswith("_cse") and ident not in assigned:
                        return (("use-before-assignment", step,
                                 f"mapper {mi}: {ident} used in '{n} = {t}' before its "
                                 f"assignment: {m.cse_name_list}"), outputs, m)
                assigned.add(n)
            if op[0] == "map" and op[1] == mi:
                for ident in _IDENT.findall(last_text):
                    if ident.startswith("_cse") and ident not in set(names):
                        return (("unassigned-name", step,
                                 f"mapper {mi}: {ident} in returned text '{last_text}' is never "
                                 "assigned"), outputs, m)
            if seen[mi] is not None and len(own) != len(seen[mi]):
                return (("assignment-count", step,
                         f"mapper {mi}: {len(seen[mi])} distinct wrapped children mapped so far "
                         f"but {len(own)} assignments: {m.cse_name_list}"), outputs, m)
    state = tuple(tuple(m.cse_name_list) if m is not None else None for m in mappers)
    return None, outputs, state


def show_hist(hist):
    return ",".join(op[0] + "".join(f".{x}" for x in op[1:]) for op in hist)

# }}}


class C14(Check):
    pid = "C14"
    level = "model_checking"
    rule = ("Engine A: every constructor shape of the C-expressible integer fragment (sums, "
            "products, // %, powers 0..3 and pow(), shifts, bitwise, comparisons, logical, "
            "conditional, min/max, abs, CSE with/without prefix) with every leaf combination, every "
            "(parent, position, child) nesting, three-level chains over 15 shapes, (grandparent, "
            "position) x binary parent with both operands composite over 6 / 11 shapes, and the "
            "floating fragment (quotient, powers, non-integer constants) -- each compiled by gcc "
            "and run on every in-range environment of {0,1,2,3,5}^vars ({0.5,1,2.5,4}^vars); 7 "
            "complex constants (zero imaginary parts included) in 8 operand roles, compiled as C++ "
            "and run at a negative and a positive point; 11 calls whose callee is a name, a struct "
            "member or an array element (the member f differs from the global f), compiled and run; "
            "negative constant exponents (-1, -2, -1.0) in the floating fragment; integer variables "
            "divided by / multiplied with 8 float constants (integer-valued ones included). "
            "Engine B: every history up to the depth bound over {map one of 8 expressions with "
            "shared/fresh/nested/prefixed wrappers on the original mapper or on its copy, map one "
            "of 2 expressions with an unrenderable leaf (must fail every time and leave the tables "
            "consistent), copy(), copy_with_mapped_cses(), copy(<empty list>), copy(<first name "
            "only>)}; invariants of BOTH mappers after every transition, programs "
            "of all histories of length 3 compiled and run; the pool holds prefixes that look like "
            "another prefix's numbered names (p, p, p_2, p_1). Non-trivial = "
            "at least one in-range environment; distinct = distinct trees / histories.")
    assumptions = [
        "environments are restricted to the range the statement names: non-negative operands of "
        "// % << >>, non-zero denominators, |values| < 2^40, integer constants in the integer "
        "fragment and float constants in the floating one, min/max with two arguments (harness "
        "macros), abs() as the only call; a subtree without variables, and a shift whose left "
        "operand is one, has C type int: its value stays below 2^31; pow() yields a C double, so a power with an exponent "
        "other than 0/1/2 is not placed under the integer-only operators // % << >> & | ^ ~",
        "gcc -O0 -fwrapv -std=gnu11 as the C semantics; doubles compared with relative tolerance "
        "1e-9",
    ]
    chunk = 1
    item_timeout = 600      # an item is a batch of trees (gcc runs) or a sub-tree of histories

    def families(self, tier):
        def batches(tag, it):
            buf = []
            for s in it:
                buf.append(s)
                if len(buf) >= BATCH:
                    yield (tag, tuple(buf))
                    buf = []
            if buf:
                yield (tag, tuple(buf))

        ileaves = [V("x"), V("y"), C(2), C(0), C(-1), C(5)]
        fleaves = [V("x"), V("y"), C(2.5), C(0.5), C(-1.5)]
        fams = [
            ("int-depth2", lambda: batches("i", gen.depth2(INT_CTORS, ileaves, FILL))),
            ("int-nest2", lambda: batches("i", (s for _, s in
                                                gen.nest2(INT_CTORS, INT_CTORS, FILL)))),
            ("flt-depth2", lambda: batches("f", gen.depth2(FLT_CTORS, fleaves, FFILL))),
            ("flt-nest2", lambda: batches("f", (s for _, s in
                                                gen.nest2(FLT_CTORS, FLT_CTORS, FFILL)))),
            ("int-negsums", lambda: batches("i", self.gen_negsums())),
            ("int-float-constants", lambda: batches("m", self.gen_mixed())),
            ("int-bushy", lambda: batches("i", self.gen_bushy(tier))),
            ("int-hash-twins", lambda: batches("i", (
                s for s in gen.twin_trees([(C(-1), C(-2)), (C(0), C(5)), (C(1), C(2))])
                if s[0] != "tuple"))),
            ("complex-constants", lambda: iter([("cx", 0)])),
            ("callee-forms", lambda: iter([("callee", 0)])),
            ("histories", lambda: (("h", (op,)) for op in OPS)),
        ]
        if tier == "thorough":
            fams.append(("int-nest3", lambda: batches("i", (
                s for _, s in gen.nest3(INT_REDUCED, INT_REDUCED, INT_REDUCED, FILL)))))
        return fams

    BUSHY_Q = ("Sum2", "Product2", "FloorDiv", "Remainder", "If", "BitwiseAnd2")
    BUSHY_T = ("Sum2", "Product2", "FloorDiv", "Remainder", "If", "BitwiseAnd2", "LeftShift",
               "Cmp<", "LogicalAnd2", "Min2", "CSE")

    def gen_bushy(self, tier):
        """(grandparent, position) x binary parent whose BOTH operands are composite: the text of
        the middle node begins and ends with a parenthesis that does not enclose it as a whole."""
        names = self.BUSHY_Q if tier == "quick" else self.BUSHY_T
        cs = [c for c in INT_CTORS if c.name in names]
        binary = [c for c in cs if c.slots in (("e", "e"), ("b", "b"))]
        kids = [c(*gen.fill_slots(c, FILL, i)) for i, c in enumerate(cs)]
        for gp in cs:
            for pos in range(len(gp.slots)):
                for par in binary:
                    for k1 in kids:
                        for k2 in kids:
                            ch = gen.fill_slots(gp, FILL, 2)
                            ch[pos] = par(k1, k2)
                            yield gp(*ch)

    def gen_mixed(self):
        """integer variables with a float constant as the ONLY floating operand of a division (or of
        a product / sum that is then divided): integer-valued floats (2.0) must stay floats"""
        for c in (C(2.0), C(4.0), C(1.0), C(3.0), C(0.5), C(2.5), C(-2.0), C(1e3)):
            num = (X, ("Sum", T(X, C(1))), ("Product", T(X, Y)), C(3), ("Product", T(X, c)))
            for n in num:
                yield ("Quotient", n, c)
                yield ("Quotient", c, ("Sum", T(n, C(1))))
                yield ("Product", T(("Quotient", n, c), C(3)))
                yield ("Sum", T(("Quotient", ("Product", T(n, c)), C(2)), Y))
                yield ("Quotient", ("Sum", T(n, c)), C(4))
                yield ("If", ("Comparison", ("Quotient", n, c), S("<"), Y), X, Y)
        # negative constant exponents with integer-typed bases: 4 ** -1 is 0.25
        for e in (C(-1), C(-2), C(-1.0)):
            for b in (X, ("Sum", T(X, Y)), C(5), ("Product", T(X, C(2)))):
                yield ("Power", b, e)
                yield ("Product", T(Y, ("Power", b, e)))
                yield ("Sum", T(("Power", b, e), Y))
                yield ("CommonSubexpression", ("Power", b, e), ("none",), S("pymbolic_eval"))

    def gen_negsums(self):
        """Sums whose terms are (partly or all) products with a leading -1 -- the printer turns
        them into subtractions -- under every parent and position."""
        neg = [("Product", T(C(-1), X)), ("Product", T(C(-1), Y, Z)),
               ("Product", T(C(-1), ("Sum", T(X, C(2)))))]
        terms = [*neg, X, C(3)]
        sums = [("Sum", T(a, b)) for a in terms for b in terms
                if (a in neg or b in neg)]
        sums += [("Sum", T(neg[0], neg[1], neg[0])), ("Sum", T(X, neg[0], neg[1]))]
        for s in sums:
            yield s
            for pc in INT_CTORS:
                for pos in range(len(pc.slots)):
                    ch = gen.fill_slots(pc, FILL, 1)
                    ch[pos] = s
                    yield pc(*ch)

    def check_item(self, family, item, tier):
        r = Res()
        mode = item[0]
        if mode == "h":
            return self.check_histories(r, tuple(tuple(op) for op in item[1]), tier)
        if mode == "callee":
            for k, sig, detail in check_callees(r):
                r.fail(k, sig, detail)
            return r
        if mode == "cx":
            for k, sig, detail in check_complex(r):
                r.fail(k, sig, detail)
            return r
        floating = mode == "f"
        mixed = mode == "m"
        specs = item[1]
        fails = check_specs(specs, floating, r, mixed)
        for i, (k, _detail) in sorted(fails.items()):
            spec = specs[i]

            def one(s):
                try:
                    f = check_specs((s,), floating, None, mixed)
                except refsem.UnknownVariable:
                    return None         # the localiser's placeholder names are not C variables
                return f[0][0] if f else None
            locs = localise(spec, one)
            if not locs:
                locs = [(k, f"{k}|{show(spec)}", spec)]
            for kk, sig, m in locs:
                f = check_specs((m,), floating, None, mixed)
                d = f[0][1] if f else ""
                r.fail(kk, sig, f"in {show(spec)}: minimal failing tree {show(m)}: {d}",
                       witness=(mode, (m,)))
        return r

    def check_histories(self, r, prefix, tier):
        depth = HIST_DEPTH[tier]
        frontier = [prefix]
        maximal = []
        states = set()
        while frontier:
            nxt = []
            for hist in frontier:
                viol, outputs, m = run_history(hist)
                if viol is not None and viol[0] == "invalid":
                    continue
                r.count("transitions")
                r.count("histories")
                states.add(m if isinstance(m, tuple) else repr(m))
                if viol is not None:
                    kind, step, detail = viol
                    r.fail(kind, f"{kind}|{show_hist(hist[:step + 1])}",
                           f"history {show_hist(hist)}: {detail}", witness=("h", hist[:step + 1]))
                    continue
                r.keys.append(("h", hist))
                if len(hist) < depth:
                    nxt.extend(hist + (op,) for op in OPS)
                if len(hist) == min(depth, COMPILE_DEPTH):
                    maximal.append((hist, outputs))
            frontier = nxt
        r.count("states", len(states))
        r.count("max_depth", depth)
        # compile and run the programs of the maximal histories
        prog = CProgram("long long")
        expect = {}
        info = {}
        for hist, outputs in maximal:
            for pi, text, names in outputs:
                spec = POOL[pi]
                rv = ref_values(spec, False)
                fi = prog.add_func(names, text)
                info[fi] = (hist, pi, text, names)
                for vals, v in rv[:8]:
                    prog.add_job(fi, vals)
                    expect[(fi, vals)] = v
                if len(prog.funcs) >= 400:
                    self._run_hist_prog(r, prog, expect, info)
                    prog, expect, info = CProgram("long long"), {}, {}
        if prog.funcs:
            self._run_hist_prog(r, prog, expect, info)
        return r

    def _run_hist_prog(self, r, prog, expect, info):
        st, res = prog.run()
        if st != "ok":
            for fi in info:
                st1, res1 = prog.run(only={fi})
                if st1 != "ok":
                    hist, pi, text, names = info[fi]
                    r.fail(f"c-{st1}", f"c-{st1}|{show_hist(hist)}",
                           f"history {show_hist(hist)}: program for expression {pi} '{text}' with "
                           f"{names}: {str(res1)[-300:]}", witness=("h", hist))
                    return
            return
        bad = set()
        for (fi, vals), kind, got in res:
            r.evals += 1
            if fi in bad:
                continue
            e = expect[(fi, vals)]
            if not agree(e, kind, got, False):
                bad.add(fi)
                hist, pi, text, names = info[fi]
                r.fail("history-value", f"history-value|{show_hist(hist)}",
                       f"history {show_hist(hist)}: expression {pi} -> '{text}' with {names} at "
                       f"{vals}: expected {e!r}, C computed {got!r}", witness=("h", hist))


CHECK = C14()

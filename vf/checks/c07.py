"""C07 -- the parser reads the syntax it shares with Python the way Python does.

Engine A over token strings: every ordered pair (and, thorough, triple) of binary operators with
every assignment of prefix operators, conditional mixes, parenthesisations, postfix forms, literal
forms, no-whitespace spellings, and token-level mutations (prefixes, deletions, duplications).

Oracle: CPython's own ``ast.parse`` (bracketing) -- compared in a neutral form with negation
normalised and sums/products flattened.  A table-driven reference parser is validated against
``ast.parse`` on every string; pymbolic's *known* deviations are expressed as named overrides of
that table, and a deviating string is attributed to the minimal set of overrides that predicts
pymbolic's result exactly.  Anything not predicted is a violation.
"""
from __future__ import annotations

import ast
import itertools

from vf.c07_model import (
    BIN, CMP, OVERRIDES, UN, ModelError, Unsupported, from_pm, from_py, model_parse,
    neutral_eval, table)
from vf.run import Check, Res

ALL_OV = tuple(sorted(OVERRIDES))
_TABLES = {}


def tbl(ov):
    ov = tuple(sorted(ov))
    if ov not in _TABLES:
        _TABLES[ov] = table(ov)
    return _TABLES[ov]


def join(mode, toks):
    if mode == "sp":
        return " ".join(toks)
    out = ""
    for t in toks:
        if out and (out[-1].isalnum() or out[-1] == "_") and (t[0].isalnum() or t[0] == "_"):
            out += " "
        out += t
    return out


def model_outcome(ov, toks):
    try:
        return model_parse(tbl(ov), toks)
    except ModelError as e:
        return ("model-error", str(e))
    except RecursionError:
        raise
    except Exception as e:  # noqa: BLE001
        return ("model-crash", type(e).__name__, str(e))


def minimal_overrides(toks, pred):
    cur = list(ALL_OV)
    for o in ALL_OV:
        trial = [x for x in cur if x != o]
        if model_outcome(trial, toks) == pred:
            cur = trial
    return cur


BOX = (-2, 1, 3)


def value_note(a, b):
    """Does the plain-Python value of two neutral trees differ somewhere on the box?"""
    names = sorted({x[1] for x in _walk(a) if x[0] == "v"} | {x[1] for x in _walk(b)
                                                               if x[0] == "v"})
    if any(n not in "abcd" for n in names):
        return ""
    for vals in itertools.product(BOX, repeat=len(names)):
        env = dict(zip(names, vals))
        try:
            va = neutral_eval(a, env)
        except Exception as e:  # noqa: BLE001
            va = type(e).__name__
        try:
            vb = neutral_eval(b, env)
        except Exception as e:  # noqa: BLE001
            vb = type(e).__name__
        if va != vb or type(va) is not type(vb) and isinstance(va, str) != isinstance(vb, str):
            return f"; value differs at {env}: python {va!r}, pymbolic {vb!r}"
    return "; same value on the box"


def _walk(t):
    if isinstance(t, tuple):
        if t and isinstance(t[0], str):
            yield t
        for c in t:
            yield from _walk(c)


class C07(Check):
    pid = "C07"
    level = "exploration"
    rule = ("bounded-exhaustive over token strings of the shared grammar: all ordered pairs of the "
            "20 binary operators x all assignments of {none,-,+,~,not} to the 3 operand positions; "
            "binary/conditional and conditional/conditional mixes; both parenthesisations of every "
            "pair; postfix forms (call with keyword argument, subscript, attribute) under every "
            "operator; literal forms; 37 identifiers that begin with a keyword or literal spelling, "
            "differ in case only or carry digits / underscores, in 17 contexts; every ordered pair of "
            "keyword arguments (argument order is part of the tree); no-whitespace spellings; (thorough) all ordered triples with "
            "at most one prefix operator; token-level mutations (every proper prefix, every "
            "single-token deletion and duplication); importer instance histories: one long-lived "
            "ASTToPymbolic instance imports windows of 60 strings one after the other, every parse "
            "tree dropped after use, against a fresh instance per string, with a user subclass overriding "
            "map_Name run on each string in between (it must give the stock result under its own names "
            "and leave the stock importer as it was). Non-trivial = CPython accepts the string "
            "(bracketing oracle applies); distinct = distinct strings.")
    assumptions = [
        "CPython's ast.parse is the reference for the shared grammar; strings it rejects only "
        "have to be parsed completely or be rejected with the parser's own error classes",
        "known deviations are the named table overrides in vf/c07_model.py; a string counts as "
        "explained only if the reference parser with those overrides predicts pymbolic's tree "
        "exactly",
        "NotImplementedError from the AST importer (logical and/or, unary plus, comparison "
        "chains) is reported per refused node kind and listed as a known finding",
    ]
    chunk = 200

    # {{{ families

    def families(self, tier):
        fams = [
            ("pairs", self.gen_pairs),
            ("ternary", self.gen_ternary),
            ("parens", self.gen_parens),
            ("postfix", self.gen_postfix),
            ("literals", self.gen_literals),
            ("identifiers", self.gen_identifiers),
            ("nospace", self.gen_nospace),
        ]
        fams.append(("importer-instance", lambda: self.gen_importer_windows(tier)))
        if tier == "quick":
            fams.append(("mutations", lambda: self.gen_mutations(False)))
        else:
            fams.append(("triples", self.gen_triples))
            fams.append(("mutations", lambda: self.gen_mutations(True)))
        return fams

    UO = ((), ("-",), ("+",), ("~",), ("not",))

    WINDOW = 60

    def importer_strings(self, tier):
        gens = [self.gen_parens(), self.gen_postfix(), self.gen_literals(), self.gen_ternary()]
        if tier != "quick":
            gens.append(self.gen_pairs())
        return [join(m, tuple(t)) for m, t in itertools.chain(*gens)]

    def gen_importer_windows(self, tier):
        n = len(self.importer_strings(tier))
        for start in range(0, n, self.WINDOW):
            yield ("imphist", (tier, start))

    def gen_pairs(self):
        for o1, o2 in itertools.product(BIN, repeat=2):
            for u1, u2, u3 in itertools.product(self.UO, repeat=3):
                yield ("sp", (*u1, "a", o1, *u2, "b", o2, *u3, "c"))

    def gen_ternary(self):
        for o in BIN:
            for u in self.UO:
                yield ("sp", (*u, "a", o, "b", "if", "c", "else", "d"))
                yield ("sp", ("a", "if", *u, "b", o, "c", "else", "d"))
                yield ("sp", ("a", "if", "b", "else", *u, "c", o, "d"))
                yield ("sp", ("a", o, "(", "b", "if", "c", "else", "d", ")"))
        yield ("sp", tuple("a if b else c if d else e".split()))
        yield ("sp", tuple("a if b if c else d else e".split()))
        yield ("sp", tuple("a if ( b if c else d ) else e".split()))
        yield ("sp", tuple("( a if b else c ) if d else e".split()))
        yield ("sp", tuple("f ( a if b else c , d )".split()))
        yield ("sp", tuple("f ( a if b else c , k = d )".split()))
        yield ("sp", tuple("( a if b else c , d )".split()))
        yield ("sp", tuple("a if b else c , d".split()))
        yield ("sp", tuple("a , b if c else d".split()))
        yield ("sp", tuple("arr [ a if b else c , d ]".split()))

    def gen_parens(self):
        for o1, o2 in itertools.product(BIN, repeat=2):
            yield ("sp", ("(", "a", o1, "b", ")", o2, "c"))
            yield ("sp", ("a", o1, "(", "b", o2, "c", ")"))
            yield ("sp", ("(", "(", "a", o1, "b", ")", ")", o2, "c"))
        for u in UN:
            for o in BIN:
                yield ("sp", (u, "(", "a", o, "b", ")"))
                yield ("sp", ("(", u, "a", ")", o, "b"))
                yield ("sp", ("a", o, "(", u, "b", ")"))

    POSTFIX = (("f", "(", "a", ",", "k", "=", "b", ")"), ("f", "(", ")"), ("f", "(", "a", ")"),
               ("f", "(", "a", ",", "b", ")"), ("arr", "[", "c", "]"),
               ("arr", "[", "a", ",", "b", "]"), ("obj", ".", "d"),
               ("f", "(", "a", ",", "k", "=", "b", ")", "[", "c", "]", ".", "d"),
               ("f", "(", "a", ")", "(", "b", ")"), ("obj", ".", "d", ".", "e"),
               ("f", "(", "(", "a", ",", "b", ")", ",", "c", ")"),
               ("f", "(", "(", "a", ",", ")", ")"), ("f", "(", "a", ",", ")"),
               ("f", "(", "k", "=", "a", ",", "j", "=", "b", ")"))

    def gen_postfix(self):
        for pf in self.POSTFIX:
            yield ("sp", pf)
            for u in UN:
                yield ("sp", (u, *pf))
            for o in BIN:
                yield ("sp", (*pf, o, "x"))
                yield ("sp", ("x", o, *pf))
                yield ("sp", ("-", *pf, o, "x"))
                yield ("sp", ("f", "(", "a", o, "b", ",", "k", "=", "c", o, "d", ")"))
                yield ("sp", ("arr", "[", "a", o, "b", "]"))
                yield ("sp", ("(", "a", o, "b", ",", "c", ")"))
                yield ("sp", ("a", o, "b", ",", "c", o, "d"))
        for t in ("( )", "( a , )", "( a , b )", "( a , b , )", "( ( a , b ) , c )",
                  "( a , ( b , c ) )", "a , b", "a , b , c", "a ,", "( a )", "( ( a ) )",
                  "( a , b ) , c", "f ( a , ( b , c ) , k = ( d , e ) )",
                  # a comma after a tuple that its parenthesis has already closed
                  "( ( a , b ) , )", "( a , b ) ,", "( ( ) , )", "( ) ,", "( ( a , ) , )",
                  "( a , ) ,", "f ( ( a , b ) , )", "( ( a , b ) , ) + ( c , )",
                  "arr [ ( a , b ) , ]", "( ( a , b ) , ( c , d ) , )"):
            yield ("sp", tuple(t.split()))

    LITS = ("2", "10", "007", "2.5", "2.", ".5", "0.5", "1e3", "1E3", "1e-3", "2.5e+2", "1.e2",
            "True", "False", "0", "0.0", "1.0", "1", "1j", "2.5j",
            # exponent literals whose mantissa is not exact in binary, extreme exponents
            "1.1e5", "3e-1", "1.5e-1", "6.02e23", "5e-324", "1e22", "1e23", "1.7976931348623157e308",
            "2.2250738585072014e-308", "0.30000000000000004", "123456789.12345678", "1e-7",
            "9007199254740993.0", "1e400")

    # identifiers that begin with (or contain) a keyword or literal spelling, differ in case only,
    # carry digits / underscores, or look like an exponent or imaginary suffix
    NAMES = ("not_done", "or_mask", "and_", "if_", "else_x", "nota", "android", "iffy", "orb",
             "elsewhere", "not1", "notnot", "x_1", "_x", "__", "x1y", "B", "aB", "Ab", "NaN", "nan",
             "Truex", "True_", "False1", "inf", "e1", "E3", "j", "e", "x1e3", "if1", "else_",
             "is_x", "in_", "lambda_", "d_not", "a_or_b")

    def gen_identifiers(self):
        for n in self.NAMES:
            yield ("sp", (n,))
            yield ("sp", ("a", "+", n))
            yield ("sp", (n, "*", "a"))
            yield ("sp", ("-", n, "**", "2"))
            yield ("sp", ("not", n))
            yield ("sp", ("~", n))
            yield ("sp", (n, "if", n, "else", "a"))
            yield ("sp", ("a", "if", "b", "else", n))
            yield ("sp", ("f", "(", n, ",", "k", "=", n, ")"))
            yield ("sp", ("f", "(", "a", ",", n, "=", "b", ")"))      # as a keyword name
            yield ("sp", (n, "(", "a", ")"))
            yield ("sp", (n, ".", "d"))
            yield ("sp", ("obj", ".", n))
            yield ("sp", (n, "[", "0", "]"))
            yield ("sp", ("a", "<", n, "and", n, "<", "b"))
            yield ("ns", ("a", "+", n))
            yield ("ns", (n, "*", "a"))
        # every ordered pair of keyword arguments (their order is part of the call)
        for k1, k2 in itertools.permutations(("k", "j", "a", "z_"), 2):
            yield ("sp", ("f", "(", k1, "=", "a", ",", k2, "=", "b", ")"))
            yield ("sp", ("f", "(", "c", ",", k1, "=", "g", "(", "a", ")", ",", k2, "=", "b", ")"))

    def gen_literals(self):
        for lit in self.LITS:
            yield ("sp", (lit,))
            yield ("sp", ("a", "+", lit))
            yield ("sp", (lit, "*", "a"))
            yield ("sp", ("-", lit))
            yield ("sp", (lit, "**", "2"))
            yield ("sp", ("-", lit, "**", "2"))
            yield ("sp", ("a", "-", lit))
            yield ("sp", ("f", "(", lit, ",", "k", "=", lit, ")"))
            yield ("nosp", ("a", "+", lit))
            yield ("nosp", (lit, "*", "a"))
            yield ("nosp", ("a", "-", lit))
            yield ("nosp", ("-", lit, "**", "2"))

    def gen_nospace(self):
        for o1, o2 in itertools.product(BIN, repeat=2):
            yield ("nosp", ("a", o1, "b", o2, "c"))
            for u in ("-", "+", "~"):
                yield ("nosp", ("a", o1, u, "b", o2, "c"))
                yield ("nosp", (u, "a", o1, "b", o2, u, "c"))
        for o in BIN:
            yield ("nosp", ("a", o, "2"))
            yield ("nosp", ("2", o, "a"))
            yield ("nosp", ("2.5", o, "3"))

    def gen_triples(self):
        for o1, o2, o3 in itertools.product(BIN, repeat=3):
            yield ("sp", ("a", o1, "b", o2, "c", o3, "d"))
            for u in UN:
                yield ("sp", (u, "a", o1, "b", o2, "c", o3, "d"))
                yield ("sp", ("a", o1, u, "b", o2, "c", o3, "d"))
                yield ("sp", ("a", o1, "b", o2, u, "c", o3, "d"))
                yield ("sp", ("a", o1, "b", o2, "c", o3, u, "d"))

    def gen_mutations(self, full):
        seen = set()

        def skeletons():
            if full:
                yield from (t for _, t in self.gen_pairs())
            else:
                for o1, o2 in itertools.product(BIN, repeat=2):
                    yield ("a", o1, "b", o2, "c")
                    yield ("-", "a", o1, "not", "b", o2, "~", "c")
            for _, t in self.gen_ternary():
                yield t
            for pf in self.POSTFIX:
                yield pf
                yield (*pf, "+", "x")
            for _, t in self.gen_parens():
                if full or t[0] == "(":
                    yield t

        for sk in skeletons():
            muts = []
            for i in range(1, len(sk)):
                muts.append(sk[:i])
            for i in range(len(sk)):
                muts.append(sk[:i] + sk[i + 1:])
                muts.append(sk[:i + 1] + sk[i:])
            for m in muts:
                if m and m not in seen:
                    seen.add(m)
                    yield ("sp", m)

    # }}}

    def check_item(self, family, item, tier):
        r = Res()
        mode, toks = item[0], tuple(item[1])
        if mode == "imphist":
            strings = self.importer_strings(toks[0])[toks[1]:toks[1] + self.WINDOW]
            n, bad = importer_instance_history(strings, r)
            r.keys.append(("imphist", toks))
            if bad:
                r.fail("importer-instance-history", f"importer-instance-history|window {toks[1]}",
                       f"one ASTToPymbolic instance imported the {n} importable strings of this "
                       f"window one after the other (every parse tree dropped after use); for at "
                       f"least one of them its result differs from a fresh instance's, or a user "
                       f"subclass overriding map_Name (used in between) did not return the stock "
                       f"result with its own names, or the stock importer changed after that")
            return r
        s = join(mode, toks)
        for kind, sig, detail in analyse(s, toks, r):
            r.fail(kind, sig, detail)
        return r


def analyse(s, toks, r=None):
    from pytools.lex import InvalidTokenError, ParseError

    from pymbolic import parse
    from pymbolic.interop.ast import ASTToPymbolic
    fails = []

    # ---- CPython ---------------------------------------------------------------------------
    pyast = None
    ref = None
    try:
        pyast = ast.parse(s, mode="eval").body
    except (SyntaxError, ValueError, MemoryError):
        pyast = None
    if pyast is not None:
        try:
            ref = from_py(pyast)
        except Unsupported:
            ref = None
    if r is not None:
        r.evals += 1
        if ref is not None:
            r.keys.append(s)

    # ---- the reference parser must reproduce CPython (validates the model) -------------------
    if ref is not None:
        m0 = model_outcome((), toks)
        if m0 != ref and not _has_complex(ref):
            fails.append(("model-validation", f"model-validation|{s}",
                          f"reference parser with Python's table gives {m0!r}, ast.parse gives "
                          f"{ref!r} for {s!r} (defect of the harness model, not of pymbolic)"))

    # ---- pymbolic.parse ------------------------------------------------------------------------
    got = None
    try:
        tree = parse(s)
        got = from_pm(tree)
    except (ParseError, InvalidTokenError) as e:
        got = ("parse-error", type(e).__name__)
    except RecursionError:
        raise
    except Exception as e:  # noqa: BLE001
        ename = type(e).__name__
        mtoks = _shrink_exception(toks, ename)
        fails.append((f"wrong-exception:{ename}", f"wrong-exception:{ename}|{_skeleton(mtoks)}",
                      f"parse({s!r}) raised {ename}: {e} (neither a tree nor the parser's own "
                      f"parse error); minimal token string: {' '.join(mtoks)!r}"))
        got = None

    if ref is not None and got is not None and got != ref:
        pred = model_outcome(ALL_OV, toks)
        same = (got == pred) or (got[0] == "parse-error" and pred[0] == "model-error")
        if same:
            ovs = minimal_overrides(toks, pred)
            fails.append(("deviation", "deviation|" + "+".join(ovs),
                          f"parse({s!r}) = {got!r}; python: {ref!r}; explained by table "
                          f"overrides {ovs}"))
        else:
            fails.append(("unexplained", f"unexplained|{_skeleton(toks)}",
                          f"parse({s!r}) = {got!r}; python: {ref!r}; model with known overrides "
                          f"predicts {pred!r}" + (value_note(ref, got) if got[0] != "parse-error"
                                                  else "")))

    # ---- AST importer ------------------------------------------------------------------------------
    if ref is not None:
        for kind, nodekind, detail in importer_failures(pyast, r):
            fails.append((kind, f"{kind}|{nodekind}", f"in {s!r}: {detail}"))
    return fails


def _node_kind(n):
    if isinstance(n, (ast.BinOp, ast.UnaryOp, ast.BoolOp)):
        return f"{type(n).__name__}:{type(n.op).__name__}"
    if isinstance(n, ast.Compare):
        if len(n.ops) > 1:
            return "CompareChain"
        return f"Compare:{type(n.ops[0]).__name__}"
    if isinstance(n, ast.Constant):
        return f"Constant:{type(n.value).__name__}"
    return type(n).__name__


def _prefix_names(m):
    if isinstance(m, tuple):
        if len(m) == 2 and m[0] == "v" and isinstance(m[1], str):
            return ("v", "ns_" + m[1])
        return tuple(_prefix_names(c) for c in m)
    if isinstance(m, list):
        return [_prefix_names(c) for c in m]
    return m


_USER_IMPORTER = []


def user_importer_class():
    """A user's importer: the stock one with every name put into a namespace."""
    if not _USER_IMPORTER:
        import pymbolic.primitives as prim
        from pymbolic.interop.ast import ASTToPymbolic

        class PrefixingImporter(ASTToPymbolic):
            def map_Name(self, expr):
                return prim.Variable("ns_" + expr.id)

        _USER_IMPORTER.append(PrefixingImporter)
    return _USER_IMPORTER[0]


def importer_instance_history(strings, r=None):
    """-> (importable strings, number for which the long-lived instance disagrees with a fresh one
    or a user subclass of the importer, used in between, does not give the stock result with its
    own name handling applied)"""
    from pymbolic.interop.ast import ASTToPymbolic
    shared = ASTToPymbolic()
    user = user_importer_class()
    n = bad = 0
    for s in strings:
        try:
            node = ast.parse(s, mode="eval").body
            want = from_pm(ASTToPymbolic()(node))
        except RecursionError:
            raise
        except Exception:  # noqa: BLE001
            continue            # not importable (judged per string in the other families)
        del node
        n += 1
        try:
            got = from_pm(shared(ast.parse(s, mode="eval").body))
        except RecursionError:
            raise
        except Exception as e:  # noqa: BLE001
            got = ("raised", type(e).__name__)
        if r is not None:
            r.evals += 1
        if got != want:
            bad += 1
            continue
        # importer classes do not share state: a user subclass (alternately a fresh and ... the
        # stock importer before and after it) sees its own handlers, the stock one its own
        try:
            sub = from_pm(user()(ast.parse(s, mode="eval").body))
            again = from_pm(ASTToPymbolic()(ast.parse(s, mode="eval").body))
        except RecursionError:
            raise
        except Exception as e:  # noqa: BLE001
            sub = again = ("raised", type(e).__name__)
        if r is not None:
            r.evals += 2
        if sub != _prefix_names(want) or again != want:
            bad += 1
    return n, bad


def importer_outcome(node):
    from pymbolic.interop.ast import ASTToPymbolic
    try:
        ref = from_py(node)
    except Unsupported:
        return None
    try:
        imp = from_pm(ASTToPymbolic()(node))
    except NotImplementedError:
        return "refused"
    except RecursionError:
        raise
    except Exception as e:  # noqa: BLE001
        return (f"importer-exception:{type(e).__name__}", f"raised {type(e).__name__}: {e}")
    if imp != ref:
        return ("importer-shape", f"imported as {imp!r}, python means {ref!r}"
                + value_note(ref, imp))
    return None


def importer_failures(root, r=None):
    """Minimal failing sub-nodes of the importer (post-order: children before parents)."""
    out = []
    failing = set()

    def rec(n):
        bad_below = False
        for c in ast.iter_child_nodes(n):
            if isinstance(c, ast.expr):
                bad_below = rec(c) or bad_below
        if bad_below:
            failing.add(id(n))
            return True
        o = importer_outcome(n)
        if o == "refused":
            if r is not None:
                r.count("importer_refusals")
            out.append(("importer-refusal", _node_kind(n),
                        f"{ast.unparse(n)!r} is refused with NotImplementedError"))
            return True          # nothing above a refusal can be judged
        if o is not None:
            out.append((o[0], _node_kind(n), f"{ast.unparse(n)!r} {o[1]}"))
            return True
        return False
    rec(root)
    return out


def _raises(toks, ename):
    from pymbolic import parse
    try:
        parse(" ".join(toks))
    except RecursionError:
        raise
    except Exception as e:  # noqa: BLE001
        return type(e).__name__ == ename
    return False


def _shrink_exception(toks, ename):
    toks = tuple(toks)
    changed = True
    while changed and len(toks) > 1:
        changed = False
        for i in range(len(toks)):
            t2 = toks[:i] + toks[i + 1:]
            if t2 and _raises(t2, ename):
                toks = t2
                changed = True
                break
    return toks


def _has_complex(t):
    return any(x[0] == "c" and isinstance(x[1], complex) for x in _walk(t))


def _skeleton(toks):
    """Token string with operands canonicalised (variables -> v, numbers kept)."""
    out = []
    for t in toks:
        if t in ("a", "b", "c", "d", "e", "x"):
            out.append("v")
        else:
            out.append(t)
    return " ".join(out)


CHECK = C07()

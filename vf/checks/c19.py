"""C19 -- exact-arithmetic helpers and number types compute what they claim.

Engine A over flat inputs.  Families:

  ipow          integer_power on ints, Fractions, 2x2 integer matrices, free-monoid words
  ipow-huge     exponents beyond 2**53 in finite monoids (residues mod p, 1j, finite-order
                matrices, a permutation)
  ipow-mutable  mutable elements with __imul__ (own matrix class, numpy.matrix, numpy.ndarray):
                arguments left alone, second call on the same object agrees
  fft-dtype     fft / ifft on every input dtype (bool, u/int8..64, float16..64, complex64/128) x
                complex_dtype omitted / complex64 / complex128: precision and dtype of the result
  poly-subst    symbolic coefficients on every support, every subset substituted by 0 / 2 with
                SubstitutionMapper, read back in an environment that exposes left-overs
  poly-container  Polynomial data handed over as tuple / list / generator / iterator / map /
                dict view / via general_polynomial(): same polynomial, alone and as an operand
  fft-history   every sequence of two (thorough: also three) fft calls over {complex64,
                complex128, python list, int input} x {sign +1,-1} at one length, from freshly
                initialised module state: results must not depend on earlier calls
  euclid-int    extended_euclidean / gcd / lcm (algorithm and IntegerTraits) on an integer box
  euclid-poly   extended_euclidean on all pairs of small polynomials (Z, Q and field-unit variants)
  fft           fft / ifft / sym_fft for every length on every unit vector + two dense vectors
  fft-sign      the same vectors with the integer signs 2, -2, 3, -3, 0 (fft and sym_fft)
  sortuniq      polynomial.__mul__'s like-term merge on every short raw term list
  poly-pair     + - * divmod // % and exact division / on every pair of small sparse polynomials (+ mappers on results)
  poly-unary    neg, **, scalars on both sides, *base, mappers, evaluator entry points
  poly-field    divmod with a rational unit (Fraction unit / exact field unit)
  quotient      primitives.quotient(p, q) through every evaluator entry point (+ big numerators)
  rational-ops  arithmetic of the Rational nodes built by quotient()

Oracles: repeated multiplication; Bezout identity + divisibility (+ math.gcd / math.lcm); the DFT
definition in complex floats (only place with a tolerance); exact Q[x] arithmetic (vf.c19_ref.QPoly);
Python's Fraction / true division.

A check item is a *bundle* (one input, many probes) or a single *probe*; failures are reported per
probe with a signature = probe name + failure kind + the greedily shrunk minimal input (or a class
label where every input of a class fails in the same way), and the witness is the single probe.
"""
from __future__ import annotations

import itertools
import math
from fractions import Fraction

from vf import c19_ref as ref
from vf.c19_ref import (
    BudgetExceeded, ModP, MutMat, Perm, QPoly, Word, dec, dec_terms, enc, enc_terms, show_terms)
from vf.envs import Mat
from vf.run import Check, Res

F = Fraction

# {{{ bounds (every bound is a named constant)

IPOW_INTS = tuple(range(-3, 4))
IPOW_FRACTIONS = (F(1, 2), F(-2, 3), F(3, 2), F(-1, 3))
IPOW_MATS = ((1, 1, 0, 1), (0, 1, 0, 0), (1, 1, 1, 0), (2, -1, 3, 0), (0, 1, -1, 0))
IPOW_WORDS = ("a", "ab", "aba")
IPOW_MAX_N = {"quick": 16, "thorough": 64}
IPOW_NEGATIVE_N = (-1, -2, -3)
# huge exponents, in finite monoids where the power stays computable and distinguishable
IPOW_HUGE_N = (*[2**53 + k for k in range(-2, 10)], 2**54 + 3, 2**54 + 5, 2**62 + 2**8 + 1,
               2**64 + 1, 2**100 + 2**50 + 1, 10**30 + 7)
IPOW_HUGE_ELEMS = (("P", 2, 1000003), ("P", 3, 1000003), ("P", 5, 97), ("P", 10, 2**61 - 1),
                   ("J",), ("M", 0, 1, -1, 0), ("M", 0, -1, 1, 1),
                   ("S", 1, 2, 0, 4, 5, 6, 3, 8, 9, 10, 11, 7))      # cycles 3,4,5: order 60
IPOW_MUTABLE_KINDS = ("mutmat", "npmatrix", "ndarray")
IPOW_MUTABLE_MAX_N = {"quick": 12, "thorough": 40}

EUCLID_INT_BOX = {"quick": 30, "thorough": 200}
EUCLID_POLY_DEG = 2
EUCLID_POLY_COEFFS = (-1, 0, 1, 2)
CALL_BUDGET = 4000           # Python-level calls after which a Euclid/divmod run counts as
#                              non-terminating (terminating runs inside the bounds need <= 308)

FFT_MAX_LEN = {"quick": 16, "thorough": 64}
FFT_TOL = 1e-9               # relative to max(1, ||x||_1); inputs are small (Gaussian) integers
FFT_TOL_SINGLE = 1e-5        # the same for complex64 transforms
# call histories in one process: every sequence of FFT_HIST_LEN calls over the alphabet
# {complex64, complex128, python list, int input} x {sign +1, -1} at one length
FFT_HIST_KINDS = ("c64", "c128", "list", "int")
FFT_HIST_LENGTHS = {"quick": (2, 3, 4, 6, 8, 12, 16),
                    "thorough": (2, 3, 4, 5, 6, 7, 8, 9, 10, 12, 15, 16, 17, 30, 64)}
FFT_HIST_LEN = 2
FFT_HIST3_LENGTHS = {"quick": (), "thorough": (4, 6, 12)}     # all sequences of three calls
# input dtype x complex_dtype option x transform: the precision the result must have
FFT_DTYPES = ("bool", "int8", "int16", "int32", "int64", "uint8", "uint16", "uint32", "uint64",
              "float16", "float32", "float64", "complex64", "complex128")
FFT_DTYPE_OPTIONS = (None, "complex64", "complex128")
FFT_DTYPE_FNS = ("fft+", "fft-", "ifft")
FFT_DTYPE_LENGTHS = {"quick": (1, 2, 3, 4, 6, 8, 12, 16),
                     "thorough": (*range(1, 33), 49, 64)}
# containers the (exponent, coefficient) pairs are handed to Polynomial(...) in
POLY_CONTAINERS = ("tuple", "list", "genexpr", "iter", "map", "dict-items", "general_polynomial")
POLY_CONTAINER_DEG = {"quick": 2, "thorough": 4}
# constant-rewriting mappers: every non-empty subset of a polynomial's distinct coefficient values
# is sent to each of these targets (0 = the term vanishes), everything else stays the same object
MAP_REWRITE_TARGETS = (0, 3)
# symbolic coefficients a_e on every support within 0..deg; every subset of them substituted
SUBST_DEG = {"quick": 3, "thorough": 5}
SUBST_VALUES = (0, 2)
# mappers with extra arguments c -> c*factor + addend, each argument passed positionally or by
# keyword: modes pp (both positional), pk (factor positional, addend keyword), kk (both keyword)
MAP_AFFINE_FACTORS = (0, 1, 2)
MAP_AFFINE_ADDENDS = (0, 1)
MAP_ARG_MODES = ("pp", "pk", "kk")
# fft / sym_fft with an integer sign other than +1 / -1 (z = exp(-2 pi i sign / n))
FFT_OTHER_SIGNS = (2, -2, 3, -3, 0)

SORTUNIQ_MAX_LEN = {"quick": 4, "thorough": 5}
SORTUNIQ_EXPS = (0, 1, 2)
SORTUNIQ_COEFFS = (-1, 1, 2)

POLY_SMALL_DEG = 2
POLY_SMALL_COEFFS = (-1, 0, 1, 2)
POLY_DEG = {"quick": 2, "thorough": 3}
POLY_COEFFS = {"quick": (-1, 0, 1, 2), "thorough": (-2, -1, 0, 1, 2)}
POLY_Q_DEG = 2
POLY_Q_COEFFS = {"quick": (F(-1), F(0), F(1, 2), F(2)),
                 "thorough": (F(-1), F(-1, 2), F(0), F(1, 2), F(2))}
POLY_UNARY_DEG = {"quick": 3, "thorough": 4}
POINTS = (-2, -1, 0, 1, 2, F(1, 2))
POW_MAX = 3
SCALARS = (-2, -1, 0, 1, 2)
SCALARS_Q = (F(-2), F(0), F(1), F(1, 2))
FIELD_DEG = {"quick": 1, "thorough": 2}

QUOT_BOX = 12
QUOT_BIG_P = (2**53 + 1, -(2**53 + 1), 2**60 + 1, 10**17 + 3)
QUOT_BIG_Q = (3, -3, 7, 2**53 + 1)
RATIONAL_P = (-2, -1, 0, 1, 2, 3)
RATIONAL_Q = (2, 3, -2)

# }}}

EVALS = [0]          # executions of code under test (read as a delta by check_item)


def _tick(n=1):
    EVALS[0] += n


# {{{ real-side constructors and readers

def X():
    from pymbolic import var
    return var("x")


_FIELD_UNIT = None


def field_unit():
    """An exact field element (Fraction) that tells pymbolic.traits it lives in a field."""
    global _FIELD_UNIT
    if _FIELD_UNIT is None:
        from pymbolic.traits import FieldTraits

        class FieldUnit(Fraction):
            def traits(self):
                return FieldTraits()

        _FIELD_UNIT = FieldUnit(1)
    return _FIELD_UNIT


def mk(terms, variant="Z"):
    """Build the real Polynomial in x.  variant: Z/Q = default unit 1; QU = unit Fraction(1);
    QF = unit with FieldTraits."""
    from pymbolic.polynomial import Polynomial
    if variant in ("Z", "Q"):
        return Polynomial(X(), tuple(terms))
    if variant == "QU":
        return Polynomial(X(), tuple(terms), unit=Fraction(1))
    assert variant == "QF"
    return Polynomial(X(), tuple(terms), unit=field_unit())


class NotExact(Exception):
    pass


def exact(c):
    if isinstance(c, bool) or not isinstance(c, (int, Fraction)):
        raise NotExact(f"{type(c).__name__} {c!r}")
    return Fraction(c)


def from_impl(obj, base=None):
    """Real result (Polynomial or exact scalar) -> QPoly; interprets Data by value (like terms are
    added), so only the denoted polynomial function matters."""
    from pymbolic.polynomial import Polynomial
    if isinstance(obj, Polynomial):
        if obj.base != (base if base is not None else X()):
            raise NotExact(f"base is {obj.base!r}")
        terms = []
        for e, c in obj.data:
            if isinstance(e, bool) or not isinstance(e, int) or e < 0:
                raise NotExact(f"exponent {e!r}")
            terms.append((e, exact(c)))
        return QPoly(terms)
    return QPoly.const(exact(obj))


def same_number(v, expected):
    """Exact equality of an exact result with an exact expectation."""
    return (not isinstance(v, bool)) and isinstance(v, (int, Fraction)) and v == expected


def excname(e):
    return type(e).__name__

# }}}


# {{{ probes.  Each returns a list of (kind, detail); [] = holds.

def _eval_points(obj, refpoly):
    """EvaluationMapper.map_polynomial (Horner) on *obj* at POINTS against the exact value."""
    from pymbolic.mapper.evaluator import EvaluationMapper
    for pt in POINTS:
        _tick()
        try:
            v = EvaluationMapper({"x": pt})(obj)
        except Exception as e:  # noqa: BLE001
            return ("evalmap-raises:" + excname(e), f"at x={pt}: {e!r}", pt)
        if not same_number(v, refpoly.value(pt)):
            return ("evalmap", f"at x={pt}: expected {refpoly.value(pt)} got {v!r}", pt)
    return None


def _result_vs_ref(res, refpoly, what):
    """-> [] or [(kind, detail)] for an operation result against its exact reference."""
    try:
        got = from_impl(res)
    except NotExact as e:
        return [("inexact", f"{what}: result not an exact polynomial in x: {e}")]
    if got != refpoly:
        return [("wrong", f"{what}: expected {refpoly} got {got} "
                 f"(Data {getattr(res, 'data', res)!r})")]
    from pymbolic.polynomial import Polynomial
    if isinstance(res, Polynomial):
        ev = _eval_points(res, refpoly)
        if ev is not None:
            # attribute to the evaluator if a fresh polynomial with that value fails as well
            nice = _dom_terms(refpoly, "Z" if refpoly.all_integral() else "Q")
            if probe_eval("plain", nice, ev[2]):
                return [("->eval", ("plain", nice, ev[2]))]
            return [(ev[0] + "-on-result", f"{what}: {ev[1]} (Data {res.data!r})")]
    return []


_ARITH = {
    "add": (lambda a, b: a + b),
    "sub": (lambda a, b: a - b),
    "mul": (lambda a, b: a * b),
}


def raw_product_terms(a, b):
    return [(e1 + e2, c1 * c2) for e1, c1 in a for e2, c2 in b]


def probe_arith(op, dom, a, b, out=None):
    _tick()
    pa, pb = mk(a, dom), mk(b, dom)
    expected = _ARITH[op](QPoly(a), QPoly(b))
    try:
        res = _ARITH[op](pa, pb)
    except Exception as e:  # noqa: BLE001
        if op == "mul" and probe_sortuniq(raw_product_terms(a, b)):
            return [("->sortuniq", (tuple(raw_product_terms(a, b)),))]
        return [("raises:" + excname(e), f"{op}: {e!r}")]
    fails = _result_vs_ref(res, expected, op)
    if fails and fails[0][0] == "wrong" and op == "mul" \
            and probe_sortuniq(raw_product_terms(a, b)):
        return [("->sortuniq", (tuple(raw_product_terms(a, b)),))]
    if out is not None and not fails:
        out.append((op, res, expected))
    return fails


def probe_sortuniq(terms):
    """polynomial._sort_uniq (the like-term merge of __mul__) on a raw term list."""
    from pymbolic.polynomial import _sort_uniq
    _tick()
    terms = list(terms)
    expected = list(QPoly(terms).terms())
    try:
        got = _sort_uniq([tuple(t) for t in terms])
    except Exception as e:  # noqa: BLE001
        return [("raises:" + excname(e), f"{e!r}; expected {show_terms(expected)}")]
    try:
        got_n = [(e, exact(c)) for e, c in got]
    except NotExact as e:
        return [("inexact", str(e))]
    if got_n != expected:
        return [("wrong", f"expected {show_terms(expected)} got {show_terms(got_n)}")]
    return []


def probe_divmod(dom, a, b, out=None):
    _tick()
    pa, pb = mk(a, dom), mk(b, dom)
    qa, qb = QPoly(a), QPoly(b)
    try:
        q, r = ref.run_with_call_budget(lambda: divmod(pa, pb), CALL_BUDGET)
    except ZeroDivisionError as e:
        if qb.is_zero():
            return []
        return [("raises:ZeroDivisionError", repr(e))]
    except BudgetExceeded:
        return [("diverges", f"divmod made more than {CALL_BUDGET} calls")]
    except Exception as e:  # noqa: BLE001
        return [("raises:" + excname(e), repr(e))]
    try:
        gq, gr = from_impl(q), from_impl(r)
    except NotExact as e:
        return [("inexact", f"quotient/remainder not exact polynomials: {e}")]
    if gq * qb + gr != qa:
        return [("identity", f"P != q*Q + r: q={gq} r={gr}")]
    if not qb.is_zero():
        qt, _rt = qa.divmod_field(qb)
        if qt.all_integral() and gr.deg >= qb.deg:
            return [("degree", f"exact quotient {qt} has integral coefficients but deg r = "
                     f"{gr.deg} >= deg Q = {qb.deg}: q={gq} r={gr}")]
    for nm, obj, g in (("q", q, gq), ("r", r, gr)):
        fails = _result_vs_ref(obj, g, "divmod." + nm)
        if fails:
            return fails
    if out is not None:
        out.append(("divmod.q", q, gq))
        out.append(("divmod.r", r, gr))
    try:
        fd, md = pa // pb, pa % pb
        if from_impl(fd) != gq or from_impl(md) != gr:
            return [("floordiv-mod", f"// -> {from_impl(fd)}, % -> {from_impl(md)}; divmod -> "
                     f"({gq}, {gr})")]
    except Exception as e:  # noqa: BLE001
        return [("floordiv-mod-raises:" + excname(e), repr(e))]
    return []


def probe_truediv(dom, a, b):
    """Exact division P / Q (the operator): either a quotient q with q*Q == P as polynomials, or a
    refusal (ValueError; ZeroDivisionError for the zero divisor).  A refusal is wrong when the
    division is exact in Q[x] with an integral quotient."""
    _tick()
    pa, pb = mk(a, dom), mk(b, dom)
    qa, qb = QPoly(a), QPoly(b)
    try:
        t = ref.run_with_call_budget(lambda: pa / pb, CALL_BUDGET)
    except (ValueError, ZeroDivisionError) as e:
        if isinstance(e, ZeroDivisionError) != qb.is_zero():
            return [("raises:" + excname(e), repr(e))]
        if not qb.is_zero():
            qt, rt = qa.divmod_field(qb)
            if rt.is_zero() and qt.all_integral():
                return [("refuses-exact", f"P == ({qt})*Q exactly, but P / Q raised {e!r}")]
        return []
    except BudgetExceeded:
        return [("diverges", f"P / Q made more than {CALL_BUDGET} calls")]
    except Exception as e:  # noqa: BLE001
        return [("raises:" + excname(e), repr(e))]
    try:
        gt = from_impl(t)
    except NotExact as e:
        return [("inexact", f"quotient not an exact polynomial: {e}")]
    if gt * qb != qa:
        return [("wrong", f"P / Q returned {gt}, but ({gt})*Q = {gt * qb} != P "
                 f"(remainder {qa - gt * qb} dropped)")]
    return _result_vs_ref(t, gt, "P/Q")


def _in_container(kind, a):
    """The real Polynomial in x, with its data handed over in the given kind of iterable."""
    from pymbolic.polynomial import Polynomial, general_polynomial
    a = tuple(a)
    if kind == "tuple":
        return Polynomial(X(), a)
    if kind == "list":
        return Polynomial(X(), list(a))
    if kind == "genexpr":
        return Polynomial(X(), ((e, c) for e, c in a))
    if kind == "iter":
        return Polynomial(X(), iter(list(a)))
    if kind == "map":
        return Polynomial(X(), map(lambda t: (t[0], t[1]), a))
    if kind == "dict-items":
        return Polynomial(X(), dict(a).items())
    assert kind == "general_polynomial"      # the library's own constructor (dense, generator)
    deg = max((e for e, _ in a), default=0)
    d = dict(a)
    return general_polynomial(X(), [d.get(i, 0) for i in range(deg + 1)], deg)


def probe_container(kind, a):
    """A polynomial whose data arrives in a list / one-shot iterable / view must denote the same
    polynomial as with a tuple -- on its own and as an operand of * + ** divmod."""
    _tick(5)
    qa = QPoly(a)
    one_plus_x = QPoly(((0, 1), (1, 1)))
    uses = (
        ("itself", lambda p: p, qa),
        ("P*P", lambda p: p * p, qa * qa),
        ("P+(1+x)", lambda p: p + mk(((0, 1), (1, 1))), qa + one_plus_x),
        ("P**2", lambda p: p ** 2, qa * qa),
        ("divmod(P,1+x).r", lambda p: divmod(p, mk(((0, 1), (1, 1))))[1],
         qa.divmod_field(one_plus_x)[1]),
    )
    for what, fn, expected in uses:
        try:
            res = fn(_in_container(kind, a))      # a fresh (possibly one-shot) container each time
        except Exception as e:  # noqa: BLE001
            return [("raises:" + excname(e), f"{what}: {e!r}")]
        fails = _result_vs_ref(res, expected, f"{what} with data in a {kind}")
        if fails:
            return [f if not f[0].startswith("->") else ("wrong", f"{what}: evaluator") for f in
                    fails]
    return []


def probe_neg(dom, a):
    _tick()
    try:
        res = -mk(a, dom)
    except Exception as e:  # noqa: BLE001
        return [("raises:" + excname(e), repr(e))]
    return _result_vs_ref(res, -QPoly(a), "neg")


def probe_pow(dom, a, n):
    _tick()
    qa = QPoly(a)
    try:
        res = mk(a, dom) ** n
    except Exception as e:  # noqa: BLE001
        res = e
    fails = ([("raises:" + excname(res), repr(res))] if isinstance(res, Exception)
             else _result_vs_ref(res, qa ** n, f"**{n}"))
    if fails and fails[0][0] in ("wrong", "raises:IndexError"):
        # the products square-and-multiply performs for n <= 3: x*x and x*(x*x)
        for u, v in ((qa, qa), (qa, qa * qa)):
            ut, vt = _dom_terms(u, dom), _dom_terms(v, dom)
            if probe_arith("mul", dom, ut, vt):
                return [("->mul", (dom, ut, vt))]
    return fails


def _dom_terms(qp, dom):
    if dom == "Z":
        return tuple((e, int(c)) for e, c in qp.terms())
    return qp.terms()


_SCALAR_OPS = {
    "add": (lambda p, s: p + s, lambda q, s: q + QPoly.const(s)),
    "radd": (lambda p, s: s + p, lambda q, s: QPoly.const(s) + q),
    "sub": (lambda p, s: p - s, lambda q, s: q - QPoly.const(s)),
    "rsub": (lambda p, s: s - p, lambda q, s: QPoly.const(s) - q),
    "mul": (lambda p, s: p * s, lambda q, s: q.scale(s)),
    "rmul": (lambda p, s: s * p, lambda q, s: q.scale(s)),
}


def probe_scalar(op, dom, a, s):
    _tick()
    qa = QPoly(a)
    pa = mk(a, dom)
    if op == "mulbase":
        try:
            res = pa * X()
        except Exception as e:  # noqa: BLE001
            return [("raises:" + excname(e), repr(e))]
        return _result_vs_ref(res, qa * QPoly(((1, 1),)), "P*x")
    if op == "truediv":
        # P / s is computed as (1/s) * P: exact only for a rational scalar
        if s == 0 or not isinstance(s, Fraction):
            return []
        try:
            res = pa / s
        except Exception as e:  # noqa: BLE001
            return [("raises:" + excname(e), repr(e))]
        return _result_vs_ref(res, qa.scale(1 / s), f"P / {s}")
    if op == "divmod":
        if s == 0:
            return []
        try:
            q, r = divmod(pa, s)
            gq, gr = from_impl(q), from_impl(r)
        except NotExact as e:
            return [("inexact", str(e))]
        except Exception as e:  # noqa: BLE001
            return [("raises:" + excname(e), repr(e))]
        if gq.scale(s) + gr != qa:
            return [("identity", f"P != q*{s} + r: q={gq} r={gr}")]
        return []
    real, model = _SCALAR_OPS[op]
    try:
        res = real(pa, s)
    except Exception as e:  # noqa: BLE001
        return [("raises:" + excname(e), repr(e))]
    return _result_vs_ref(res, model(qa, s), f"{op} {s}")


MAPPERS = ("identity", "double", "two2three", "rename")


def _mapper(name):
    from pymbolic import var
    from pymbolic.mapper import IdentityMapper

    if name == "identity":
        return IdentityMapper()
    if name == "double":
        class Double(IdentityMapper):
            def map_constant(self, expr):
                return 2 * expr
        return Double()
    if name == "two2three":
        class TwoToThree(IdentityMapper):
            def map_constant(self, expr):
                return 3 if expr == 2 else expr
        return TwoToThree()
    if name.startswith("affine:"):
        factor, addend, mode = _parse_affine(name)

        class Affine(IdentityMapper):
            def map_constant(self, expr, factor=1, addend=0):
                return expr * factor + addend

        if mode == "pp":
            return lambda obj: Affine()(obj, factor, addend)
        if mode == "pk":
            return lambda obj: Affine()(obj, factor, addend=addend)
        return lambda obj: Affine()(obj, factor=factor, addend=addend)
    if name.startswith("set:"):
        values, target = _parse_rewrite(name)

        class Rewrite(IdentityMapper):
            def map_constant(self, expr):
                return target if expr in values else expr
        return Rewrite()

    class Rename(IdentityMapper):
        def map_variable(self, expr):
            return var("y") if expr.name == "x" else expr
    return Rename()


def _parse_rewrite(name):
    """'set:-1,2>0' -> ({-1, 2}, 0)"""
    vals, target = name[4:].split(">")
    return {int(v) for v in vals.split(",")}, int(target)


def rewrite_names(a):
    """Every rewriting 'all coefficients with a value in Z become t' for the non-empty subsets Z
    of the distinct coefficient values of *a* and the targets MAP_REWRITE_TARGETS."""
    vals = sorted({c for _, c in a})
    for k in range(1, len(vals) + 1):
        for z in itertools.combinations(vals, k):
            for t in MAP_REWRITE_TARGETS:
                yield "set:" + ",".join(map(str, z)) + f">{t}"


def _parse_affine(name):
    """'affine:2,1:pk' -> (2, 1, 'pk')"""
    _, fa, mode = name.split(":")
    f, a = fa.split(",")
    return int(f), int(a), mode


def affine_names():
    for f in MAP_AFFINE_FACTORS:
        for a in MAP_AFFINE_ADDENDS:
            for mode in MAP_ARG_MODES:
                yield f"affine:{f},{a}:{mode}"


def _mapped_ref(name, qp):
    if name.startswith("affine:"):
        f, a, _ = _parse_affine(name)
        return QPoly((e, c * f + a) for e, c in qp.terms())
    if name.startswith("set:"):
        values, target = _parse_rewrite(name)
        return QPoly((e, target if c in values else c) for e, c in qp.terms())
    if name == "double":
        return qp.scale(2)
    if name == "two2three":
        return QPoly((e, 3 if c == 2 else c) for e, c in qp.terms())
    return qp


def check_mapped(name, obj, qp):
    """Apply the mapper to a real polynomial; the result must denote the rewritten polynomial."""
    from pymbolic import var
    _tick()
    try:
        res = _mapper(name)(obj)
    except Exception as e:  # noqa: BLE001
        return [("raises:" + excname(e), repr(e))]
    try:
        got = from_impl(res, base=var("y") if name == "rename" else None)
    except NotExact as e:
        return [("inexact", str(e))]
    if got != _mapped_ref(name, qp):
        return [("wrong", f"mapper {name} on {qp}: expected {_mapped_ref(name, qp)} got {got}")]
    return []


def probe_subst(support, zeroed, value):
    """Polynomial with symbolic coefficients a_e (e in support); SubstitutionMapper replaces the
    a_e with e in *zeroed* by *value*.  The result, read in an environment where every a_e is
    e + 5 (so a left-over a_e shows), must be the polynomial with those coefficients replaced."""
    from pymbolic import var
    from pymbolic.mapper.evaluator import EvaluationMapper
    from pymbolic.mapper.substitutor import SubstitutionMapper, make_subst_func
    from pymbolic.polynomial import Polynomial
    from pymbolic.primitives import Variable
    _tick()
    poly = Polynomial(X(), tuple((e, var(f"a{e}")) for e in support))
    env = {f"a{e}": e + 5 for e in support}
    expected = QPoly((e, value if e in zeroed else e + 5) for e in support)
    try:
        res = SubstitutionMapper(make_subst_func({f"a{e}": value for e in zeroed}))(poly)
    except Exception as e:  # noqa: BLE001
        return [("raises:" + excname(e), repr(e))]
    if not isinstance(res, Polynomial) or res.base != X():
        return [("inexact", f"result {res!r}")]
    terms = []
    for e, c in res.data:
        if isinstance(c, Variable) and c.name in env:
            terms.append((e, env[c.name]))
        elif isinstance(c, int) and not isinstance(c, bool):
            terms.append((e, c))
        else:
            return [("inexact", f"coefficient {c!r}")]
    if QPoly(terms) != expected:
        return [("wrong", f"a_e -> {value} for e in {list(zeroed)}: result Data {res.data!r} "
                 f"reads (a_e = e+5) as {QPoly(terms)}, expected {expected}")]
    for pt in POINTS:
        if not isinstance(pt, int):
            continue        # symbolic intermediate results: Fraction is not a pymbolic constant
        _tick()
        ctx = dict(env, x=pt)
        try:
            v = EvaluationMapper(ctx)(EvaluationMapper(ctx)(res))
        except Exception as e:  # noqa: BLE001
            return [("evaluate-raises:" + excname(e), f"at x={pt}: {e!r}")]
        if not same_number(v, expected.value(pt)):
            return [("evaluate", f"at x={pt}, a_e=e+5: expected {expected.value(pt)} got {v!r}")]
    return []


def probe_map(name, a):
    return check_mapped(name, mk(a, "Z"), QPoly(a))


ENTRIES = ("plain", "cached", "evaluate", "evaluate_kw")
FLOAT_ENTRIES = ("float", "evaluate_to_float")


def run_entry(entry, expr, ctx):
    from pymbolic.mapper import evaluator as ev
    if entry == "plain":
        return ev.EvaluationMapper(ctx)(expr)
    if entry == "cached":
        return ev.CachedEvaluationMapper(ctx)(expr)
    if entry == "evaluate":
        return ev.evaluate(expr, ctx)
    if entry == "evaluate_kw":
        return ev.evaluate_kw(expr, **ctx)
    if entry == "float":
        return ev.FloatEvaluationMapper(ctx)(expr)
    assert entry == "evaluate_to_float"
    return ev.evaluate_to_float(expr, ctx)


def probe_eval(entry, a, pt):
    _tick()
    try:
        v = run_entry(entry, mk(a, "Z"), {"x": pt})
    except TypeError as e:
        if "unhashable" in str(e):
            return [("unhashable", f"{entry}: {e!r}")]
        return [("raises:TypeError", repr(e))]
    except Exception as e:  # noqa: BLE001
        return [("raises:" + excname(e), repr(e))]
    expected = QPoly(a).value(pt)
    if not same_number(v, expected):
        return [("wrong", f"{entry} at x={pt}: expected {expected} got {v!r}")]
    return []


# -- Euclid on integers ----------------------------------------------------------------------

def probe_euclid_int(q, r):
    from pymbolic.algorithm import extended_euclidean, gcd, lcm
    from pymbolic.traits import IntegerTraits
    _tick(4)
    fails = []
    for name, fn in (("extended_euclidean", extended_euclidean),
                     ("IntegerTraits.gcd_extended", IntegerTraits.gcd_extended)):
        try:
            g, a, b = fn(q, r)
        except Exception as e:  # noqa: BLE001
            return [(f"{name}-raises:" + excname(e), repr(e))]
        if not all(isinstance(t, int) and not isinstance(t, bool) for t in (g, a, b)):
            return [(f"{name}-inexact", f"-> {(g, a, b)!r}")]
        if g != a * q + b * r:
            fails.append((f"{name}-bezout", f"-> {(g, a, b)}: {a}*{q} + {b}*{r} = {a*q + b*r}"))
        elif (g == 0 and (q or r)) or (g != 0 and (q % g or r % g)):
            fails.append((f"{name}-not-a-divisor", f"-> g = {g}"))
        elif abs(g) != math.gcd(q, r):
            fails.append((f"{name}-not-greatest", f"-> g = {g}, gcd = {math.gcd(q, r)}"))
        if fails:
            return fails
    for name, fn in (("gcd", gcd), ("IntegerTraits.gcd", IntegerTraits.gcd)):
        try:
            g2 = fn(q, r)
        except Exception as e:  # noqa: BLE001
            return [(f"{name}-raises:" + excname(e), repr(e))]
        if g2 != g or isinstance(g2, bool) or not isinstance(g2, int):
            return [(f"{name}-differs", f"{name} -> {g2!r}, extended_euclidean -> {g}")]
    for name, fn, must_be_int in (("lcm", lcm, True),
                                  ("IntegerTraits.lcm", IntegerTraits().lcm, False)):
        try:
            m = fn(q, r)
        except ZeroDivisionError:
            if g == 0:
                continue        # lcm(0, 0): the statement leaves it open (0 or an error)
            return [(f"{name}-raises:ZeroDivisionError", "")]
        except Exception as e:  # noqa: BLE001
            return [(f"{name}-raises:" + excname(e), repr(e))]
        if must_be_int and (isinstance(m, bool) or not isinstance(m, int)):
            return [(f"{name}-inexact", f"-> {m!r}")]
        if abs(m * g) != abs(q * r) or abs(m) != math.lcm(q, r):
            return [(f"{name}-inconsistent", f"{name} -> {m!r}, gcd -> {g}, |q*r| = {abs(q*r)}, "
                     f"lcm = {math.lcm(q, r)}")]
    return []


# -- Euclid on polynomials -------------------------------------------------------------------

def euclid_class(variant, qa, qb):
    """Can the remainder sequence be computed inside the coefficient ring the variant offers?
    Z/Q (unit 1, IntegerTraits): every quotient coefficient integral.  QF (field unit): pymbolic's
    quotient() only yields a number for a denominator of exactly 1."""
    a, b = (qb, qa) if qa.deg < qb.deg else (qa, qb)
    while not b.is_zero():
        qt, rt = a.divmod_field(b)
        if variant == "QF":
            if a.deg >= b.deg and b.lead != 1:
                return "unsupported"
        elif not qt.all_integral():
            return "unsupported"
        a, b = b, rt
    return "supported"


def probe_euclid_poly(variant, a, b):
    from pymbolic.algorithm import extended_euclidean
    _tick()
    pa, pb = mk(a, variant), mk(b, variant)
    qa, qb = QPoly(a), QPoly(b)
    cls = euclid_class(variant, qa, qb)
    try:
        g, s, t = ref.run_with_call_budget(lambda: extended_euclidean(pa, pb), CALL_BUDGET)
        gg, gs, gt = from_impl(g), from_impl(s), from_impl(t)
    except ZeroDivisionError as e:
        return [("raises:ZeroDivisionError", repr(e))]
    except BudgetExceeded:
        what = f"more than {CALL_BUDGET} calls"
        return [("diverges" if cls == "supported" else "unsupported-division:diverges", what)]
    except NotExact as e:
        return [("inexact" if cls == "supported" else "unsupported-division:symbolic", str(e))]
    except Exception as e:  # noqa: BLE001
        k = "raises:" + excname(e)
        return [(k if cls == "supported" else "unsupported-division:" + k, repr(e))]
    if gg != gs * qa + gt * qb:
        return [("bezout", f"g={gg} a={gs} b={gt}: a*q + b*r = {gs * qa + gt * qb}")]
    if not (gg.divides(qa) and gg.divides(qb)):
        return [("not-a-divisor", f"g={gg}")]
    return []


def probe_field_divmod(variant, a, b):
    """divmod of rational-coefficient polynomials whose unit says "field"."""
    _tick()
    pa, pb = mk(a, variant), mk(b, variant)
    qa, qb = QPoly(a), QPoly(b)
    supported = variant == "QF" and (qb.is_zero() or qa.deg < qb.deg or qb.lead == 1)
    lab = (lambda k: k) if supported else (lambda k: "unsupported-division:" + k)
    try:
        q, r = ref.run_with_call_budget(lambda: divmod(pa, pb), CALL_BUDGET)
        gq, gr = from_impl(q), from_impl(r)
    except ZeroDivisionError as e:
        if qb.is_zero():
            return []
        return [(lab("raises:ZeroDivisionError"), repr(e))]
    except BudgetExceeded:
        return [(lab("diverges"), f"more than {CALL_BUDGET} calls")]
    except NotExact as e:
        return [(lab("symbolic"), str(e))]
    except Exception as e:  # noqa: BLE001
        return [(lab("raises:" + excname(e)), repr(e))]
    if gq * qb + gr != qa:
        return [("identity", f"P != q*Q + r: q={gq} r={gr}")]
    if not qb.is_zero() and gr.deg >= qb.deg:
        return [(lab("degree"), f"deg r = {gr.deg} >= deg Q = {qb.deg} over a field")]
    return []


# -- integer_power ---------------------------------------------------------------------------

def dec_elem(x):
    if isinstance(x, (tuple, list)):
        if x[0] == "F":
            return Fraction(x[1], x[2])
        if x[0] == "M":
            return Mat(*x[1:])
        if x[0] == "W":
            return Word(x[1])
        raise ValueError(x)
    return x


def identity_of(x):
    if isinstance(x, Mat):
        return Mat(1, 0, 0, 1)
    if isinstance(x, Word):
        return Word("")
    if isinstance(x, Fraction):
        return Fraction(1)
    return 1


def probe_ipow(xe, n, onemode):
    from pymbolic.algorithm import integer_power
    _tick()
    x = dec_elem(xe)
    kw = {} if onemode == "default" else {"one": identity_of(x)}
    try:
        got = integer_power(x, n, **kw)
    except Exception as e:  # noqa: BLE001
        if n < 0:
            return []
        return [("raises:" + excname(e), repr(e))]
    if n < 0:
        return [("accepts-negative", f"returned {got!r}")]
    acc = kw.get("one", 1)
    for _ in range(n):
        acc = acc * x
    if type(got) is not type(acc) or not (got == acc):
        return [("wrong", f"expected {acc!r} got {got!r}")]
    return []


def dec_finite(xe):
    t = xe[0]
    if t == "P":
        return ModP(xe[1], xe[2])
    if t == "J":
        return 1j
    if t == "M":
        return Mat(*xe[1:])
    assert t == "S"
    return Perm(xe[1:])


def finite_identity(x):
    if isinstance(x, ModP):
        return ModP(1, x.p)
    if isinstance(x, Perm):
        return Perm(range(len(x.t)))
    if isinstance(x, Mat):
        return Mat(1, 0, 0, 1)
    return complex(1)


def probe_ipow_huge(xe, n, onemode):
    """integer_power with an exponent far beyond 2**53 in a finite monoid.  Oracle: pow(v, n, p)
    for residues; otherwise x**(n mod order) by repeated multiplication."""
    from pymbolic.algorithm import integer_power
    _tick()
    x = dec_finite(xe)
    ident = finite_identity(x)
    kw = {} if onemode == "default" else {"one": ident}
    try:
        got = integer_power(x, n, **kw)
    except Exception as e:  # noqa: BLE001
        return [("raises:" + excname(e), repr(e))]
    if isinstance(x, ModP):
        expected = ModP(pow(x.v, n, x.p), x.p)
    else:
        order, acc = 1, x
        while not (acc == ident):
            acc = acc * x
            order += 1
            assert order < 1000
        e = n % order or order
        expected = kw.get("one", 1)
        for _ in range(e):
            expected = expected * x
    if type(got) is not type(expected) or not (got == expected):
        return [("wrong", f"expected {expected!r} got {got!r}")]
    return []


def _mutable_elem(kind):
    """-> (element, copy function, equality, fresh identity function)"""
    import numpy as np
    if kind == "mutmat":
        return (MutMat([[1, 1], [1, 0]]), lambda m: m.copy(), lambda a, b: a == b,
                lambda: MutMat([[1, 0], [0, 1]]))
    if kind == "npmatrix":
        return (np.matrix([[2, 1], [1, 1]], dtype=object), lambda m: m.copy(),
                lambda a, b: type(a) is type(b) and a.shape == b.shape and bool((a == b).all()),
                lambda: np.matrix([[1, 0], [0, 1]], dtype=object))
    assert kind == "ndarray"
    return (np.array([2, -3, 5], dtype=object), lambda m: m.copy(),
            lambda a, b: type(a) is type(b) and a.shape == b.shape and bool((a == b).all()),
            lambda: np.array([1, 1, 1], dtype=object))


def probe_ipow_mutable(kind, n, onemode):
    """integer_power on a MUTABLE element that implements __imul__: the caller's objects must be
    left alone and a second call on the same object must give the same result."""
    from pymbolic.algorithm import integer_power
    _tick(2)
    x, copy, eq, fresh_one = _mutable_elem(kind)
    orig = copy(x)
    expected = 1 if onemode == "default" else fresh_one()
    for _ in range(n):
        expected = expected * orig
    fails = []
    one = fresh_one()
    results = []
    for call in (1, 2):
        kw = {}
        if onemode == "explicit":
            kw = {"one": fresh_one()}
        elif onemode == "one-reused":
            kw = {"one": one}
        try:
            results.append(integer_power(x, n, **kw))
        except Exception as e:  # noqa: BLE001
            return [("raises:" + excname(e), f"call {call}: {e!r}")]
        if not eq(x, orig):
            return [("argument-modified", f"after call {call}: x is {x!r}, was {orig!r}")]
        if onemode == "one-reused" and not eq(one, fresh_one()):
            fails.append(("one-modified", f"after call {call} with n={n} the caller's neutral "
                          f"element is {one!r}"))
            break
    if not fails:
        for call, got in enumerate(results, 1):
            ok = (got == expected) if isinstance(expected, int) and isinstance(got, int) \
                else (not isinstance(got, int) and not isinstance(expected, int)
                      and eq(got, expected))
            if not ok:
                fails.append(("wrong" if call == 1 else "second-call-differs",
                              f"call {call}: expected {expected!r} got {got!r}"))
                break
    return fails


# -- FFT -------------------------------------------------------------------------------------

def fft_vector(n, vid):
    if vid < n:
        return [1 if j == vid else 0 for j in range(n)]
    if vid == n:
        return [((j * j + 3 * j + 1) % 7) - 3 for j in range(n)]
    return [complex(((3 * j + 1) % 5) - 2, ((j * j) % 4) - 1) for j in range(n)]


_SYM = {}


def sym_transform(n, sign):
    key = (n, sign)
    if key not in _SYM:
        import numpy as np
        from pymbolic import var
        from pymbolic.algorithm import sym_fft
        xs = np.empty(n, dtype=object)
        for i in range(n):
            xs[i] = var(f"x{i}")
        _SYM[key] = sym_fft(xs, sign=sign)
    return _SYM[key]


def _close(got, expected, tol):
    if len(got) != len(expected):
        return f"length {len(got)} != {len(expected)}"
    for k, (g, e) in enumerate(zip(got, expected)):
        if not abs(complex(g) - complex(e)) <= tol:
            return f"component {k}: expected {e!r} got {g!r}"
    return None


def probe_fft(n, vid):
    import numpy as np
    from pymbolic.algorithm import fft, ifft
    from pymbolic.mapper.evaluator import EvaluationMapper
    x = fft_vector(n, vid)
    tol = FFT_TOL * max(1.0, sum(abs(v) for v in x))
    fails = []

    def attempt(label, fn, expected):
        _tick()
        try:
            got = fn()
        except Exception as e:  # noqa: BLE001
            fails.append((f"{label}-raises:" + excname(e), repr(e)))
            return None
        d = _close(list(got), expected, tol)
        if d:
            fails.append((label, d))
        return got

    c128 = np.complex128
    for sign in (1, -1):
        expected = ref.dft(x, sign)
        xa = np.array(x, dtype=c128)
        got = attempt(f"fft(sign={sign})", lambda: fft(xa, sign=sign, complex_dtype=c128),
                      expected)
        if got is not None:
            # second run goes through the memoized factor table and must agree bit for bit
            again = fft(np.array(x, dtype=c128), sign=sign, complex_dtype=c128)
            if not np.array_equal(np.asarray(got), np.asarray(again)):
                fails.append((f"fft(sign={sign})-not-reproducible", "two runs differ"))
        sym = None
        try:
            sym = sym_transform(n, sign)
        except Exception as e:  # noqa: BLE001
            fails.append((f"sym_fft(sign={sign})-raises:" + excname(e), repr(e)))
        if sym is not None:
            em = EvaluationMapper({f"x{i}": x[i] for i in range(n)})
            attempt(f"sym_fft(sign={sign})", lambda: [em(s) for s in sym], expected)  # noqa: B023
    if all(isinstance(v, int) for v in x):
        attempt("fft(int-input)", lambda: fft(np.array(x)), ref.dft(x, 1))
    inv = [v / n for v in ref.dft(x, -1)]
    attempt("ifft", lambda: ifft(np.array(x, dtype=c128), complex_dtype=c128), inv)
    attempt("ifft(fft)", lambda: ifft(fft(np.array(x, dtype=c128), complex_dtype=c128),
                                      complex_dtype=c128), [complex(v) for v in x])
    return fails


def probe_fft_sign(n, vid, sign):
    """fft and sym_fft with an integer sign other than +-1 against the documented definition."""
    import numpy as np
    from pymbolic.algorithm import fft
    from pymbolic.mapper.evaluator import EvaluationMapper
    x = fft_vector(n, vid)
    tol = FFT_TOL * max(1.0, sum(abs(v) for v in x))
    expected = ref.dft(x, sign)
    fails = []
    _tick(2)
    try:
        got = fft(np.array(x, dtype=np.complex128), sign=sign, complex_dtype=np.complex128)
        d = _close(list(got), expected, tol)
        if d:
            fails.append(("fft", d))
    except Exception as e:  # noqa: BLE001
        fails.append(("fft-raises:" + excname(e), repr(e)))
    try:
        sym = sym_transform(n, sign)
        em = EvaluationMapper({f"x{i}": x[i] for i in range(n)})
        d = _close([em(s) for s in sym], expected, tol)
        if d:
            fails.append(("sym_fft", d))
    except Exception as e:  # noqa: BLE001
        fails.append(("sym_fft-raises:" + excname(e), repr(e)))
    return fails


def probe_fft_dtype(n, dtype, option, fn):
    """fft / ifft on an input array of the given dtype, with complex_dtype given or left out.
    Precision demanded: that of complex_dtype when given; otherwise that of a complex input and
    double precision (the documented complex128 fallback) for every real / integer input, where
    the result must also BE complex128 (n >= 2; for n == 1 the input is returned)."""
    import numpy as np

    from pymbolic.algorithm import fft, ifft
    _tick()
    dt = np.dtype(dtype)
    if dt.kind == "c":
        vals = [complex(((3 * j + 1) % 5) - 2, ((j * j) % 4) - 1) for j in range(n)]
    elif dt.kind in "ub":
        vals = [((j * j + 3 * j + 1) % 7) % (2 if dt.kind == "b" else 7) for j in range(n)]
    else:
        vals = [((j * j + 3 * j + 1) % 7) - 3 for j in range(n)]
    x = np.array(vals, dtype=dt)
    kw = {} if option is None else {"complex_dtype": np.dtype(option)}
    sign = -1 if fn in ("fft-", "ifft") else 1
    expected = ref.dft(vals, sign)
    if fn == "ifft":
        expected = [v / n for v in expected]
    try:
        got = ifft(x, **kw) if fn == "ifft" else fft(x, sign=sign, **kw)
    except Exception as e:  # noqa: BLE001
        return [("raises:" + excname(e), repr(e))]
    working = option if option is not None else (dtype if dt.kind == "c" else "complex128")
    tol = (FFT_TOL_SINGLE if working == "complex64" else FFT_TOL) \
        * max(1.0, sum(abs(v) for v in vals))
    d = _close(list(got), expected, tol)
    if d:
        return [("imprecise", f"working precision {working}: {d}")]
    if option is None and n >= 2 and np.asarray(got).dtype != np.dtype(working):
        return [("result-dtype", f"result dtype {np.asarray(got).dtype}, expected {working}")]
    return []


def _hist_vector(n, kind):
    if kind == "int":
        return [((j * j + 3 * j + 1) % 7) - 3 for j in range(n)]
    return [complex(((3 * j + 1) % 5) - 2, ((j * j) % 4) - 1) for j in range(n)]


def _hist_call(algorithm, n, call):
    """One transform of the history; -> (result as list of complex, expected, tolerance)."""
    import numpy as np
    kind, sign = call
    x = _hist_vector(n, kind)
    tol = max(1.0, sum(abs(v) for v in x))
    if kind == "c64":
        got = algorithm.fft(np.array(x, dtype=np.complex64), sign=sign,
                            complex_dtype=np.complex64)
        tol *= FFT_TOL_SINGLE
    elif kind == "c128":
        got = algorithm.fft(np.array(x, dtype=np.complex128), sign=sign,
                            complex_dtype=np.complex128)
        tol *= FFT_TOL
    elif kind == "list":
        got = algorithm.fft(list(x), sign=sign, complex_dtype=np.complex128)
        tol *= FFT_TOL
    else:
        got = algorithm.fft(np.array(x), sign=sign)
        tol *= FFT_TOL
    return [complex(v) for v in got], ref.dft(x, sign), tol


def probe_fft_history(n, *calls):
    """A sequence of transforms of one length in ONE process, starting from freshly initialised
    module state (pymbolic.algorithm re-imported, so every module-level memo table is empty):
    every call must equal the DFT, and the last call must return bit for bit what the same call
    returns when it is the first one."""
    import importlib

    import pymbolic.algorithm as algorithm
    calls = [tuple(c) for c in calls]
    algorithm = importlib.reload(algorithm)
    _tick()
    try:
        alone, _, _ = _hist_call(algorithm, n, calls[-1])
    except Exception as e:  # noqa: BLE001
        return [("raises:" + excname(e), f"{calls[-1]} alone: {e!r}")]
    algorithm = importlib.reload(algorithm)
    got = None
    for i, call in enumerate(calls):
        _tick()
        try:
            got, expected, tol = _hist_call(algorithm, n, call)
        except Exception as e:  # noqa: BLE001
            return [("raises:" + excname(e), f"call {i} {call}: {e!r}")]
        d = _close(got, expected, tol)
        if d:
            return [("wrong-after-history" if i else "wrong",
                     f"call {i} {call} after {calls[:i]}: {d}")]
    if got != alone:
        k = next(i for i, (a, b) in enumerate(zip(got, alone)) if a != b)
        return [("history-dependent", f"{calls[-1]} after {calls[:-1]} differs from the same "
                 f"call made first: component {k}: {got[k]!r} vs {alone[k]!r}")]
    return []


# -- quotient node and Rational ---------------------------------------------------------------

def probe_quot(p, q):
    from pymbolic.primitives import quotient
    _tick()
    try:
        node = quotient(p, q)
    except Exception as e:  # noqa: BLE001
        return [("construct-raises:" + excname(e), repr(e))]
    expected = Fraction(p, q)
    fails = []
    for entry in ENTRIES + FLOAT_ENTRIES:
        _tick()
        try:
            v = run_entry(entry, node, {})
        except TypeError as e:
            fails.append((("unhashable:" if "unhashable" in str(e) else "raises:TypeError:")
                          + entry, repr(e)))
            continue
        except Exception as e:  # noqa: BLE001
            fails.append((f"raises:{excname(e)}:{entry}", repr(e)))
            continue
        if entry in FLOAT_ENTRIES:
            ok = isinstance(v, float) and v == p / q
        else:
            ok = same_number(v, expected) or (isinstance(v, float) and v == p / q)
        if not ok:
            big = max(abs(p), abs(q)) > 2**53
            fails.append((("wrong-big:" if big else "wrong:") + entry,
                          f"quotient({p}, {q}) = {node!r} evaluates to {v!r}, "
                          f"expected {p / q!r}"))
    return fails


_RAT_OPS = {
    "add": (lambda a, b: a + b), "sub": (lambda a, b: a - b), "mul": (lambda a, b: a * b),
    "div": (lambda a, b: a / b), "neg": (lambda a, b: -a), "pow2": (lambda a, b: a ** 2),
    "radd-int": (lambda a, b: 1 + a), "rmul-int": (lambda a, b: 3 * a),
}


def probe_ratop(op, p1, q1, p2, q2):
    from pymbolic.mapper.evaluator import EvaluationMapper
    from pymbolic.primitives import Expression, quotient
    _tick()
    a, b = quotient(p1, q1), quotient(p2, q2)
    fa, fb = Fraction(p1, q1), Fraction(p2, q2)
    if op == "div" and fb == 0:
        return []
    expected = _RAT_OPS[op](fa, fb)
    try:
        res = _RAT_OPS[op](a, b)
        v = EvaluationMapper()(res) if isinstance(res, Expression) else res
    except Exception as e:  # noqa: BLE001
        return [("raises:" + excname(e), f"{op} on quotient({p1},{q1}), quotient({p2},{q2}): {e!r}")]
    if not (same_number(v, expected) or (isinstance(v, float) and v == float(expected))):
        return [("wrong", f"{op} on {fa}, {fb}: expected {expected} got {v!r}")]
    return []

# }}}


# {{{ probe table: name -> (function, argument kinds for the shrinker, label-only kinds)

def _is_label(name, kind):
    return (kind.startswith("unsupported-division:") or kind.startswith("unhashable")
            or kind == "diverges" or kind.startswith("wrong-big:")
            or kind == "one-modified" or name in ("fft", "ratop", "fft-history", "fft-dtype", "fft-sign"))


PROBES = {
    "arith": (probe_arith, ("fixed", "fixed", "poly", "poly")),
    "sortuniq": (probe_sortuniq, ("terms",)),
    "divmod": (probe_divmod, ("fixed", "poly", "poly")),
    "truediv": (probe_truediv, ("fixed", "poly", "poly")),
    "neg": (probe_neg, ("fixed", "poly")),
    "pow": (probe_pow, ("fixed", "poly", "scalar")),
    "scalar": (probe_scalar, ("fixed", "fixed", "poly", "scalar")),
    "map": (probe_map, ("fixed", "poly")),
    "subst": (probe_subst, ("fixed", "fixed", "fixed")),
    "eval": (probe_eval, ("fixed", "poly", "scalar")),
    "euclid-int": (probe_euclid_int, ("scalar", "scalar")),
    "euclid-poly": (probe_euclid_poly, ("fixed", "poly", "poly")),
    "field-divmod": (probe_field_divmod, ("fixed", "poly", "poly")),
    "ipow": (probe_ipow, ("fixed", "scalar", "fixed")),
    "ipow-huge": (probe_ipow_huge, ("fixed", "fixed", "fixed")),
    "ipow-mutable": (probe_ipow_mutable, ("fixed", "scalar", "fixed")),
    "fft-history": (probe_fft_history, ("fixed",) * (1 + 3)),
    "fft-dtype": (probe_fft_dtype, ("fixed", "fixed", "fixed", "fixed")),
    "container": (probe_container, ("fixed", "poly")),
    "fft": (probe_fft, ("fixed", "fixed")),
    "fft-sign": (probe_fft_sign, ("fixed", "fixed", "fixed")),
    "quot": (probe_quot, ("scalar", "scalar")),
    "ratop": (probe_ratop, ("fixed", "fixed", "fixed", "fixed", "fixed")),
}
# label-only: which fixed arguments go into the signature
LABEL_ARGS = {"euclid-poly": (0,), "field-divmod": (0,), "eval": (0,), "quot": (), "divmod": (0,), "truediv": (0,),
              "fft": (0,), "ratop": (0,), "fft-history": (0,), "ipow-mutable": (0,),
              "fft-dtype": (1, 2, 3), "fft-sign": (0, 2)}


def _decode(name, args):
    kinds = PROBES[name][1]
    out = []
    for k, v in zip(kinds, args):
        if k in ("poly", "terms"):
            out.append(dec_terms(v))
        elif k == "scalar":
            out.append(dec(v))
        else:
            out.append(v)
    return out


def _encode(name, args):
    kinds = PROBES[name][1]
    out = []
    for k, v in zip(kinds, args):
        if k in ("poly", "terms"):
            out.append(enc_terms(v))
        elif k == "scalar":
            out.append(enc(v))
        else:
            out.append(v)
    return tuple(out)


def _render(name, args):
    kinds = PROBES[name][1]
    parts = []
    for k, v in zip(kinds, args):
        parts.append(show_terms(v) if k in ("poly", "terms") else str(v))
    return "|".join(parts)


_SHRUNK = {}


def run_probe(name, args, out=None):
    """args decoded.  -> list of (kind, detail)."""
    if out is not None:
        return PROBES[name][0](*args, out=out)
    return PROBES[name][0](*args)


def report(r, name, args, _depth=0, out=None):
    """Run one probe on decoded args and record its failures (shrunk, canonical) in r.
    ``out`` (arith/divmod only) collects (label, real result, exact value) of successful runs."""
    fails = run_probe(name, args, out)
    for kind, detail in fails:
        if kind.startswith("->") and _depth < 3:
            # delegated to the helper that is actually at fault
            report(r, {"->sortuniq": "sortuniq", "->mul": "arith", "->eval": "eval"}[kind],
                   list(("mul", *detail) if kind == "->mul" else detail), _depth + 1)
            continue
        if _is_label(name, kind):
            extra = "|".join(str(args[i]) for i in LABEL_ARGS.get(name, ()))
            sig = f"{name}|{kind}" + (f"|{extra}" if extra else "")
            r.fail(f"{name}:{kind}", sig, f"{_render(name, args)}: {detail}",
                   witness=("probe", name, *_encode(name, args)))
            continue
        margs = args
        counted = EVALS[0]       # work done for the signature is not counted as evaluations
        if name == "sortuniq":
            # the function starts with a stable sort by exponent: an input and its stably sorted
            # version are the same case
            args = [tuple(sorted(args[0], key=lambda t: t[0]))]
            margs = args
        big = any(isinstance(v, int) and abs(v) > 1000 for v in args)
        if not big:
            key = (name, kind, _encode(name, args))
            if key not in _SHRUNK:
                def still(trial, kind=kind):
                    try:
                        return any(k == kind for k, _ in run_probe(name, trial))
                    except Exception:  # noqa: BLE001
                        return False
                _SHRUNK[key] = ref.shrink(list(args), PROBES[name][1], still)
            margs = _SHRUNK[key]
        mdetail = detail
        if margs != args:
            md = [d for k, d in run_probe(name, margs) if k == kind]
            mdetail = f"minimal input {_render(name, margs)}: {md[0] if md else ''} " \
                      f"[found in {_render(name, args)}]"
        EVALS[0] = counted
        r.fail(f"{name}:{kind}", f"{name}|{kind}|{_render(name, margs)}", str(mdetail),
               witness=("probe", name, *_encode(name, margs)))

# }}}


# {{{ enumerators

def all_polys(deg, coeffs):
    """Every coefficient vector of length deg+1 -> sparse term tuple (zero polynomial included)."""
    for cs in itertools.product(coeffs, repeat=deg + 1):
        yield tuple((e, c) for e, c in enumerate(cs) if c != 0)


def is_small(p):
    return all(e <= POLY_SMALL_DEG and c in POLY_SMALL_COEFFS for e, c in p)

# }}}


class C19(Check):
    pid = "C19"
    level = "exploration"
    rule = ("bounded-exhaustive over flat inputs: integer_power for every element of four monoids "
            "(ints, Fractions, 2x2 integer matrices, free-monoid words) x every n up to the bound x "
            "default/explicit neutral element, and every negative n in [-3,-1]; 18 exponents between "
            "2**53-2 and 10**30+7 on 8 elements of finite monoids; three mutable element types x "
            "every n up to the bound x default/fresh/reused neutral element, each called twice; "
            "every sequence of 2 (thorough: also 3) fft calls over 4 input kinds x 2 signs at each "
            "history length, each from re-initialised module state; fft+/fft-/ifft on 14 input dtypes "
            "x 3 complex_dtype options at each dtype length; every small polynomial built from 7 "
            "kinds of data container; every subset of symbolic coefficients on every support "
            "substituted by 0 or 2; constant-rewriting mappers sending every non-empty subset of a "
            "polynomial's coefficient values to 0 or 3 (the rest stays the same object) and mappers c -> c*f + a whose two extra "
            "arguments are passed positionally / mixed / by keyword; fft and sym_fft with the signs "
            "2, -2, 3, -3, 0 on the same lengths and vectors; Euclid/gcd/lcm on "
            "the full integer box and on every ordered pair of polynomials of degree <= 2 over "
            "{-1,0,1,2}; fft/ifft/sym_fft for EVERY length up to the bound on every unit vector "
            "(the transform is linear) and two dense vectors, both signs; the like-term merge on "
            "every raw term list up to the length bound; + - * divmod // % and exact division / on every ordered pair "
            "of sparse polynomials up to the degree/coefficient bound (int and Fraction "
            "coefficients), unary minus, ** 0..3, scalars on both sides, four coefficient/base "
            "rewriting mappers and four evaluator entry points on every single polynomial and on "
            "every operation result of the small pairs; quotient(p, q) on the full box through six "
            "evaluator entry points. A case = one input of one family; all are non-trivial; "
            "distinct = distinct inputs.")
    assumptions = [
        "integer_power: the expected value is the left fold one*x*...*x (n factors) computed with "
        "the element's own '*', starting from the neutral element that was passed (or the int 1); "
        "the result must be equal to it and of the same type (an element of the monoid); any "
        "exception counts as 'refuses' for n < 0",
        "g is accepted as 'a greatest common divisor' up to a unit (sign): demanded are the Bezout "
        "identity g == a*q + b*r and g | q, g | r, which together imply that every common divisor "
        "divides g; lcm(0, 0) may be 0 or raise; lcm*gcd == |q*r| up to sign",
        "polynomial results are compared as polynomial functions (like terms of Data added, zero "
        "terms ignored): canonical form of Data is not demanded; equality of functions is decided "
        "by exact coefficient comparison in Q[x] and additionally observed through "
        "EvaluationMapper.map_polynomial at x in {-2,-1,0,1,2,1/2}",
        "divmod(P, Q): the identity P == q*Q + r is always demanded; deg r < deg Q is demanded when "
        "the exact quotient in Q[x] has integral coefficients (default unit 1 = IntegerTraits: "
        "coefficients are divided with divmod, so division stops at the first inexact step) and "
        "always for a field unit with a monic divisor; divmod by the zero polynomial may raise",
        "P / Q (exact division) may either return q with q*Q == P as polynomials or refuse with "
        "ValueError (ZeroDivisionError for Q == 0); a refusal is a failure when the division is "
        "exact with an integral quotient; P / scalar is computed as (1/scalar)*P and is therefore "
        "only demanded for Fraction scalars (for an int scalar the coefficients become floats)",
        "Fraction is not a pymbolic constant class (IdentityMapper rejects it and the checks never "
        "register constant classes), so mappers are applied to integer-coefficient polynomials only",
        "polynomial Euclid is demanded on every pair; pairs whose remainder sequence leaves the "
        "coefficient ring are reported under the class label unsupported-division (known finding)",
        "FFT comparisons (only place with a tolerance): |got - DFT| <= 1e-9 * max(1, ||x||_1) per "
        "component on (Gaussian-)integer input; the symbolic FFT is evaluated with pymbolic's plain "
        "EvaluationMapper",
        "huge exponents: expected value is pow(v, n, p) for residues and x**(n mod order) by "
        "repeated multiplication otherwise; mutable elements: x must compare equal to its copy "
        "after every call and both calls must return the fold computed from the copy",
        "fft on a real / integer / bool array without complex_dtype must work in and return "
        "complex128 (the fallback the code documents); with complex_dtype given, or for complex "
        "input, the result must be accurate to that type's precision (1e-5 / 1e-9 relative to "
        "max(1, ||x||_1)); for length 1 the input itself is returned and no dtype is demanded",
        "fft's sign may be any integer: the documented definition z = exp(-2 i pi sign / n) is "
        "demanded for sign in {2, -2, 3, -3, 0} as well; extra arguments of a mapper call must "
        "reach the coefficient rewriting whether they are passed positionally or by keyword",
        "a mapper that rewrites coefficients (also to 0, also only the leading ones) must return "
        "a polynomial denoting the rewritten polynomial; explicit zero coefficients in its Data are "
        "accepted; symbolic results are read with a_e = e + 5, so that a coefficient that should "
        "have been replaced shows in the value, and additionally through EvaluationMapper applied "
        "twice (it does not evaluate coefficients)",
        "Polynomial(base, data) accepts any iterable of (exponent, coefficient) pairs (it stores "
        "tuple(data); general_polynomial passes a generator): every container kind must yield "
        "the same polynomial function",
        "an fft history starts from importlib.reload(pymbolic.algorithm), i.e. with every "
        "module-level memo table of that module empty (stands for a fresh process); the last call "
        "must return bit for bit what the same call returns as the first call after a reload; "
        "complex64 transforms are compared with the DFT at 1e-5, all others at 1e-9",
        "non-termination is detected deterministically by a budget of 4000 Python-level calls "
        "(terminating runs inside the bounds need <= 308)",
        "quotient(p, q) must evaluate to Fraction(p, q) exactly or to the float p / q; the family "
        "rational-ops (arithmetic of the nodes quotient() returns) goes beyond the literal "
        "statement and is included under the property's title (number types compute what they "
        "claim)",
    ]
    chunk = 32

    # -- families -----------------------------------------------------------------------------
    def families(self, tier):
        return [
            ("ipow", lambda: self.gen_ipow(tier)),
            ("ipow-huge", self.gen_ipow_huge),
            ("ipow-mutable", lambda: self.gen_ipow_mutable(tier)),
            ("fft-history", lambda: self.gen_fft_history(tier)),
            ("fft-dtype", lambda: self.gen_fft_dtype(tier)),
            ("poly-container", lambda: self.gen_container(tier)),
            ("poly-subst", lambda: self.gen_subst(tier)),
            ("euclid-int", lambda: self.gen_euclid_int(tier)),
            ("euclid-poly", self.gen_euclid_poly),
            ("fft", lambda: self.gen_fft(tier)),
            ("fft-sign", lambda: self.gen_fft_sign(tier)),
            ("sortuniq", lambda: self.gen_sortuniq(tier)),
            ("poly-unary", lambda: self.gen_unary(tier)),
            ("poly-pair", lambda: self.gen_pairs(tier)),
            ("poly-field", lambda: self.gen_field(tier)),
            ("quotient", self.gen_quot),
            ("rational-ops", self.gen_ratops),
        ]

    def gen_ipow(self, tier):
        elems = ([*IPOW_INTS] + [("F", f.numerator, f.denominator) for f in IPOW_FRACTIONS]
                 + [("M", *m) for m in IPOW_MATS] + [("W", w) for w in IPOW_WORDS])
        for x in elems:
            for onemode in ("default", "explicit"):
                for n in (*IPOW_NEGATIVE_N, *range(IPOW_MAX_N[tier] + 1)):
                    yield ("probe", "ipow", x, n, onemode)

    def gen_euclid_int(self, tier):
        b = EUCLID_INT_BOX[tier]
        for q in range(-b, b + 1):
            yield ("euclid-row", q, -b, b)

    def gen_euclid_poly(self):
        polys_z = list(all_polys(EUCLID_POLY_DEG, EUCLID_POLY_COEFFS))
        polys_q = [tuple((e, F(c)) for e, c in p) for p in polys_z]
        for variant, polys in (("Z", polys_z), ("Q", polys_q), ("QF", polys_q)):
            for a in polys:
                for b in polys:
                    yield ("probe", "euclid-poly", variant, enc_terms(a), enc_terms(b))

    def gen_ipow_huge(self):
        for x in IPOW_HUGE_ELEMS:
            for onemode in ("default", "explicit"):
                for n in IPOW_HUGE_N:
                    yield ("probe", "ipow-huge", x, n, onemode)

    def gen_ipow_mutable(self, tier):
        for kind in IPOW_MUTABLE_KINDS:
            for onemode in ("default", "explicit", "one-reused"):
                for n in range(IPOW_MUTABLE_MAX_N[tier] + 1):
                    yield ("probe", "ipow-mutable", kind, n, onemode)

    def gen_fft_dtype(self, tier):
        for n in FFT_DTYPE_LENGTHS[tier]:
            for dtype in FFT_DTYPES:
                for option in FFT_DTYPE_OPTIONS:
                    for fn in FFT_DTYPE_FNS:
                        yield ("probe", "fft-dtype", n, dtype, option, fn)

    def gen_subst(self, tier):
        exps = range(SUBST_DEG[tier] + 1)
        for k in range(len(exps) + 1):
            for support in itertools.combinations(exps, k):
                for j in range(len(support) + 1):
                    for zeroed in itertools.combinations(support, j):
                        for value in SUBST_VALUES:
                            yield ("probe", "subst", support, zeroed, value)

    def gen_container(self, tier):
        for p in all_polys(POLY_CONTAINER_DEG[tier], POLY_COEFFS[tier]):
            for kind in POLY_CONTAINERS:
                yield ("probe", "container", kind, enc_terms(p))

    def gen_fft_history(self, tier):
        alphabet = [(k, s) for k in FFT_HIST_KINDS for s in (1, -1)]
        for n in FFT_HIST_LENGTHS[tier]:
            for seq in itertools.product(alphabet, repeat=FFT_HIST_LEN):
                yield ("probe", "fft-history", n, *seq)
        for n in FFT_HIST3_LENGTHS[tier]:
            for seq in itertools.product(alphabet, repeat=3):
                yield ("probe", "fft-history", n, *seq)

    def gen_fft_sign(self, tier):
        for n in range(1, FFT_MAX_LEN[tier] + 1):
            for vid in range(n + 2):
                for sign in FFT_OTHER_SIGNS:
                    yield ("probe", "fft-sign", n, vid, sign)

    def gen_fft(self, tier):
        for n in range(1, FFT_MAX_LEN[tier] + 1):
            for vid in range(n + 2):
                yield ("probe", "fft", n, vid)

    def gen_sortuniq(self, tier):
        entries = [(e, c) for e in SORTUNIQ_EXPS for c in SORTUNIQ_COEFFS]
        for ln in range(SORTUNIQ_MAX_LEN[tier] + 1):
            for terms in itertools.product(entries, repeat=ln):
                yield ("probe", "sortuniq", terms)

    def gen_unary(self, tier):
        for p in all_polys(POLY_UNARY_DEG[tier], POLY_COEFFS[tier]):
            yield ("unary", "Z", enc_terms(p))
        for p in all_polys(POLY_Q_DEG, POLY_Q_COEFFS[tier]):
            yield ("unary", "Q", enc_terms(p))

    def gen_pairs(self, tier):
        pz = list(all_polys(POLY_DEG[tier], POLY_COEFFS[tier]))
        for a in pz:
            for b in pz:
                yield ("pair", "Z", enc_terms(a), enc_terms(b))
        pq = list(all_polys(POLY_Q_DEG, POLY_Q_COEFFS[tier]))
        for a in pq:
            for b in pq:
                yield ("pair", "Q", enc_terms(a), enc_terms(b))

    def gen_field(self, tier):
        pq = list(all_polys(FIELD_DEG[tier], POLY_Q_COEFFS["quick"]))
        for variant in ("QU", "QF"):
            for a in pq:
                for b in pq:
                    yield ("probe", "field-divmod", variant, enc_terms(a), enc_terms(b))

    def gen_quot(self):
        for p in range(-QUOT_BOX, QUOT_BOX + 1):
            for q in range(-QUOT_BOX, QUOT_BOX + 1):
                if q:
                    yield ("probe", "quot", p, q)
        for p in QUOT_BIG_P:
            for q in QUOT_BIG_Q:
                yield ("probe", "quot", p, q)

    def gen_ratops(self):
        nodes = [(p, q) for p in RATIONAL_P for q in RATIONAL_Q]
        for op in _RAT_OPS:
            for (p1, q1) in nodes:
                for (p2, q2) in (nodes if op in ("add", "sub", "mul", "div") else nodes[:1]):
                    yield ("probe", "ratop", op, p1, q1, p2, q2)

    # -- the check ------------------------------------------------------------------------------
    def check_item(self, family, item, tier):
        r = Res()
        before = EVALS[0]
        mode = item[0]
        if mode == "probe":
            name = item[1]
            report(r, name, _decode(name, item[2:]))
        elif mode == "euclid-row":
            _, q, lo, hi = item
            for rr in range(lo, hi + 1):
                report(r, "euclid-int", [q, rr])
            r.count("integer_pairs", hi - lo + 1)
        elif mode == "unary":
            self.unary(r, item[1], dec_terms(item[2]))
        elif mode == "pair":
            self.pair(r, item[1], dec_terms(item[2]), dec_terms(item[3]))
        else:
            raise ValueError(f"unknown item {item!r}")
        r.evals = EVALS[0] - before
        r.keys.append((family, item))
        return r

    def unary(self, r, dom, a):
        report(r, "neg", [dom, a])
        for n in range(POW_MAX + 1):
            report(r, "pow", [dom, a, n])
        for s in (SCALARS if dom == "Z" else SCALARS_Q):
            for op in (*_SCALAR_OPS, "divmod", "truediv"):
                report(r, "scalar", [op, dom, a, s])
        report(r, "scalar", ["mulbase", dom, a, 0])
        if dom == "Z":
            for m in (*MAPPERS, *rewrite_names(a), *affine_names()):
                report(r, "map", [m, a])
            for entry in ENTRIES:
                for pt in POINTS:
                    report(r, "eval", [entry, a, pt])

    def pair(self, r, dom, a, b):
        results = []
        for op in _ARITH:
            report(r, "arith", [op, dom, a, b], out=results)
        report(r, "divmod", [dom, a, b], out=results)
        report(r, "truediv", [dom, a, b])
        if dom == "Z" and is_small(a) and is_small(b):
            # the same operation results once more after a mapper has rewritten them
            for what, obj, qp in results:
                from pymbolic.polynomial import Polynomial
                if not isinstance(obj, Polynomial):
                    continue
                for m in ("identity", "double"):
                    if check_mapped(m, obj, qp):
                        if probe_map(m, _dom_terms(qp, "Z")):
                            report(r, "map", [m, _dom_terms(qp, "Z")])
                        else:
                            r.fail(f"map-on-result:{m}", f"map-on-result|{m}|{what}|"
                                   f"{show_terms(a)}|{show_terms(b)}",
                                   f"mapper {m} on the {what} of the pair fails but not on a "
                                   "fresh polynomial with the same value")


CHECK = C19()

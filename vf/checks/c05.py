"""C05 -- memoization and mapper optimization are observationally transparent.

Engine B: for every cached / uncached mapper pair and every class produced by the mapper
optimizer, all call histories (expression i, argument tuple j) on ONE memoizing instance up to a
depth bound.  After every transition the last result is compared (strictly, constant types
included) with a FRESH non-memoizing counterpart applied to the same call, and the log of handler
invocations of the instance must not contain the same strict key twice.
"""
from __future__ import annotations

import itertools
from collections import Counter

from vf.explore import bfs, drop_repeats
from vf.run import Check, Res
from vf.spec import (
    CSE, C, Call, Pow, Prod, Quot, Sub, Sum, T, V, build, build_shared, show, sort_maps, to_spec)

BUDGET = {"quick": 26000, "thorough": 250000}     # transitions per mapper pair
MAX_DEPTH = 5


def depth_for(n_ops, budget):
    """Largest depth whose complete exploration stays within the transition budget."""
    best = 2
    for d in range(2, MAX_DEPTH + 1):
        states = 0
        term = 1
        for k in range(d):
            states += term
            term *= max(n_ops - k, 0)
        if states * n_ops <= budget:
            best = d
    return best

X, Y = V("x"), V("y")
POOL = [
    X,                                              # 0
    C(4), C(4.0), C(True),                          # 1 2 3  == but differently typed
    Sum(X, C(4)),                                   # 4
    Prod(Y, C(4.0)),                                # 5
    Sum(Prod(X, Y), Pow(Prod(X, Y), C(2))),         # 6  repeated equal-but-not-identical subtree
    T(C(4), C(4.0), C(True), X),                    # 7  typed twins side by side
    Sum(CSE(Sum(X, C(1))), Prod(CSE(Sum(X, C(1))), Y)),     # 8  same wrapper twice
    Call(V("f"), X, C(4)),                          # 9
    Quot(Sum(X, C(4)), Sub(V("arr"), Y)),           # 10 shares Sum(x, 4) with 4
    # 11: wrappers with equal children but different prefix / scope side by side
    T(CSE(Sum(X, C(1)), "p"), CSE(Sum(X, C(1))), CSE(Sum(X, C(1)), None, ("str", "pymbolic_expr"))),
    CSE(Sum(X, C(1)), "q"),                         # 12
    # 13: two user node classes over different bases asking for the same (unimplemented) handler
    Sum(("U:vf.usercls_gen.TaggedSum", T(X, C(4))), ("U:vf.usercls_gen.TaggedProduct", T(X, C(4)))),
    # 14: old-style (init-args) nodes that differ only in their extra argument, by values whose
    # hashes collide: the memo's hash probe cannot separate them, only == can
    T(("U:vf.usercls_gen.VarL", ("str", "x"), C(-1)), ("U:vf.usercls_gen.VarL", ("str", "x"), C(-2)),
      ("U:vf.usercls_gen.VarL", ("str", "y"), C(0)), ("U:vf.usercls_gen.VarL", ("str", "y"), C(2**61 - 1))),
    # 15: node types whose handlers are alias targets next to the node types of the aliases
    T(Quot(X, Y), ("Remainder", X, Y), ("FloorDiv", X, Y), ("LeftShift", X, C(2)),
      ("RightShift", X, C(2)), ("BitwiseOr", T(X, Y)), ("BitwiseXor", T(X, Y)),
      ("BitwiseAnd", T(X, Y)), ("LogicalOr", T(X, Y)), ("LogicalAnd", T(X, Y))),
    # 16: a node next to its own image under the renaming / substitution pairs (x -> y,
    # y -> x + 6.5): a rewritten node must not be taken for an already mapped one
    T(Prod(C(2), X), Prod(C(2), Y), Prod(C(2), Sum(X, C(6.5))), Pow(Y, C(2)), Pow(X, C(2))),
]
SHARED = {6}        # built with DAG sharing (the two Product(x, y) are one object)
POOL_Q = [0, 1, 2, 3, 4, 6, 7, 8, 11, 12, 13, 14, 16]
# extra arguments of a call: (positional tuple, keyword items)
ARGS = [((), ()), ((1,), ()), ((1.0,), ()), ((True,), ()), ((1, "a"), ()),
        ((), (("k", 1),)), ((), (("k", 2),)), ((1,), (("k", 1),)),
        # the same two keyword arguments written in either order: one key
        ((), (("k", 1), ("j", 2))), ((), (("j", 2), ("k", 1))),
        # a positional (name, value) pair next to the keyword argument it spells
        ((("k", 1),), ())]
ARGS_Q = [((), ()), ((1,), ()), ((1.0,), ()), ((), (("k", 1),)), ((), (("k", 2),)),
          ((), (("k", 1), ("j", 2))), ((), (("j", 2), ("k", 1))), ((("k", 1),), ())]


def pool_obj(i):
    return build_shared(POOL[i]) if i in SHARED else build(POOL[i])


def norm_result(o):
    if isinstance(o, (set, frozenset)):
        # the container type is part of the result: a caller may extend a set
        return (type(o).__name__, *sorted((norm_result(x) for x in o), key=repr))
    if isinstance(o, Counter):
        return ("counter", *sorted(((norm_result(k), v) for k, v in o.items()), key=repr))
    return sort_maps(to_spec(o))


def frozen(k):
    return tuple(sorted(k.items()))


def strict_key(expr):
    try:
        return sort_maps(to_spec(expr))
    except Exception:  # noqa: BLE001
        return ("?", repr(expr))


def instrument(cls):
    """Subclass that logs every handler invocation with its strict key."""
    ns = {}
    for name in dir(cls):
        if not name.startswith("map_"):
            continue
        orig = getattr(cls, name)
        if not callable(orig):
            continue

        def w(self, expr, *a, _orig=orig, _n=name, **k):
            self._vf_log.append((_n, strict_key(expr), tuple(norm_result(x) for x in a), frozen(k)))
            return _orig(self, expr, *a, **k)
        ns[name] = w
    return type("I_" + cls.__name__, (cls,), ns)


# {{{ mapper pairs: name -> (make cached instance, make fresh reference, takes extra args)

class _Ctx(dict):
    """a context whose look-ups are computed: y is not stored, it is supplied on demand, and
    every look-up of x goes through __getitem__"""

    def __missing__(self, key):
        if key == "y":
            return 4
        raise KeyError(key)

    def __getitem__(self, key):
        v = dict.__getitem__(self, key)
        return v + 0 if key == "x" else v


def _ctx():
    def f(a, b):
        return 2 * a + b
    return _Ctx({"x": 3, "f": f, "arr": {4: 5, 4.0: 5}})


def pairs():
    from pymbolic.mapper import (
        CachedCollector, CachedCombineMapper, CachedIdentityMapper, CachedWalkMapper, Collector,
        CombineMapper, IdentityMapper, WalkMapper)
    from pymbolic.mapper.dependency import CachedDependencyMapper, DependencyMapper
    from pymbolic.mapper.evaluator import CachedEvaluationMapper, EvaluationMapper
    from pymbolic.mapper.substitutor import (
        CachedSubstitutionMapper, SubstitutionMapper, make_subst_func)
    import pymbolic.primitives as p

    def rename(self, expr, *a, **k):
        return p.Variable(f"{expr.name}|{a!r}|{sorted(k.items())!r}")

    CRen = type("CRen", (CachedIdentityMapper,), {"map_variable": rename})
    PRen = type("PRen", (IdentityMapper,), {"map_variable": rename})

    def leaf(self, expr, *a, **k):
        return Counter({(norm_result(expr), tuple(norm_result(x) for x in a), frozen(k)): 1})

    def comb(self, values):
        out = Counter()
        for v in values:
            out = out + v
        return out

    CComb = type("CComb", (CachedCombineMapper,),
                 {"combine": comb, "map_constant": leaf, "map_variable": leaf})
    PComb = type("PComb", (CombineMapper,),
                 {"combine": comb, "map_constant": leaf, "map_variable": leaf})

    def collect_var(self, expr, *a, **k):
        return {(expr, a, frozen(k))}

    CColl = type("CColl", (CachedCollector,), {"map_variable": collect_var})
    PColl = type("PColl", (Collector,), {"map_variable": collect_var})

    from pymbolic.mapper import CSECachingMapperMixin

    # a walker whose handlers all return None, memoizing ONLY its wrappers through the mix-in
    class MixWalk(CSECachingMapperMixin, WalkMapper):
        def map_common_subexpression_uncached(self, expr, *a, **k):
            return WalkMapper.map_common_subexpression(self, expr, *a, **k)

    subst = {"x": p.Variable("y"), p.Variable("y"): p.Sum((p.Variable("x"), 6.5))}
    out = {
        "identity": (lambda: instrument(CachedIdentityMapper)(), lambda: IdentityMapper(), True),
        "renamer": (lambda: instrument(CRen)(), lambda: PRen(), True),
        "combine": (lambda: instrument(CComb)(), lambda: PComb(), True),
        "collector": (lambda: instrument(CColl)(), lambda: PColl(), True),
        "walk": (lambda: instrument(CachedWalkMapper)(), lambda: WalkMapper(), True),
        "cse-mixin-walk": (lambda: instrument(MixWalk)(), lambda: WalkMapper(), True),
        "evaluation": (lambda: instrument(CachedEvaluationMapper)(_ctx()),
                       lambda: EvaluationMapper(_ctx()), False),
        "substitution": (lambda: instrument(CachedSubstitutionMapper)(make_subst_func(subst)),
                         lambda: SubstitutionMapper(make_subst_func(subst)), False),
    }
    for tag, flags in (("default", {}), ("all-off", dict(composite_leaves=False)),
                       ("descend", dict(include_calls="_".join(("descend", "args")), include_cses=True))):
        out[f"dependency-{tag}"] = (
            lambda flags=flags: instrument(CachedDependencyMapper)(**flags),
            lambda flags=flags: DependencyMapper(**flags), False)
    return out


def namespace_failure(opts):
    """A class whose methods come from two modules that define the same global name with equal
    but distinct values (1 vs 1.0, two empty lists).  The optimizer either refuses (symbol
    disagreement) or produces a class that behaves like the unoptimized one -- result types and
    the list each method logs to included."""
    import importlib

    import vf.optmappers as om1
    import vf.optmappers2 as om2
    from pymbolic.mapper import optimize
    from pymbolic.mapper.optimize import optimize_mapper
    optimize._get_ast_for_file.cache_clear()
    expr = build(Sum(X, C(4), Prod(Y, C(2))))
    try:
        cls = optimize_mapper(**opts)(om2.OptUnitSub)
    except ValueError:
        return None                                 # refused: nothing is claimed
    except RecursionError:
        raise
    except Exception as e:  # noqa: BLE001
        return ("optimizer-raises", f"optimize_mapper({opts}) on a two-module class raised {e!r}")
    outs = []
    for c in (om2.OptUnitSub, cls):
        om1.LOG.clear()
        om2.LOG.clear()
        res = c()(expr)
        outs.append((sort_maps(to_spec(res)), [x[0] for x in om1.LOG], [x[0] for x in om2.LOG]))
    importlib.invalidate_caches()
    if outs[0] != outs[1]:
        return ("two-module-class", f"optimize_mapper({opts}): the unoptimized class gives "
                f"{outs[0]}, the optimized one {outs[1]}")
    return None


def wide_failure(name, n):
    """ONE call on an expression with more than *n* distinct nodes, every one of which occurs a
    second time later in the tree: (v0 + ... + v_n-1) / (v0 * ... * v_n-1) + (v0 + ... + v_n-1).
    Same result as the non-memoizing mapper, and no key computed twice."""
    import pymbolic.primitives as p
    make_c, make_p, _ = pairs()[name]
    vs = tuple(p.Variable(f"v{i}") for i in range(n))
    s1 = p.Sum(vs)
    expr = p.Sum((p.Quotient(s1, p.Product(vs)), p.Sum(vs)))
    m = make_c()
    m._vf_log = []
    import sys
    old = sys.getrecursionlimit()
    try:
        res = m(expr)
        want = make_p()(expr)
    finally:
        sys.setrecursionlimit(old)
    if norm_result(res) != norm_result(want):
        return ("result", f"{n} distinct operands: the memoizing mapper and a fresh non-memoizing "
                "one disagree")
    cnt = Counter(k[:2] for k in m._vf_log)
    dup = [k for k, v in cnt.items() if v > 1]
    if dup:
        return ("recomputed", f"{n} distinct operands, each occurring three times: {len(dup)} keys "
                f"were computed more than once, e.g. handler {dup[0][0]} for {show_res(dup[0][1])}")
    return None


DEP_PARAMS = ("include_subscripts", "include_lookups", "include_calls", "include_cses",
              "composite_leaves")        # the documented positional order of DependencyMapper
PARITY_EXPR = Sum(Sub(V("arr"), X), ("Lookup", V("obj"), ("str", "a")), Call(V("f"), Y),
                  CSE(Prod(X, Y)), Pow(V("z"), C(2)))


def parity_failure(vec):
    """The memoizing class is a drop-in replacement: the same POSITIONAL constructor arguments
    configure CachedDependencyMapper like DependencyMapper, and like the documented keywords."""
    from pymbolic.mapper.dependency import CachedDependencyMapper, DependencyMapper
    expr = build(PARITY_EXPR)
    by_kw = DependencyMapper(**dict(zip(DEP_PARAMS, vec)))(expr)
    plain = DependencyMapper(*vec)(expr)
    cached = CachedDependencyMapper(*vec)(build(PARITY_EXPR))
    n = {"keywords": norm_result(by_kw), "plain": norm_result(plain),
         "cached": norm_result(cached)}
    if len({repr(v) for v in n.values()}) != 1:
        return (f"positional arguments {vec!r}: DependencyMapper by keyword {show_res(n['keywords'])}, "
                f"positional {show_res(n['plain'])}, CachedDependencyMapper positional "
                f"{show_res(n['cached'])}")
    return None


# pairs that memoize only some handlers: the at-most-once clause applies to those
DUP_ONLY = {"cse-mixin-walk": "map_common_subexpression_uncached"}

OPT_NAMES = ("drop_args", "drop_kwargs", "inline_rec", "inline_cache", "inline_get_cache_key")


def opt_combos(kind):
    for bits in itertools.product((False, True), repeat=5):
        o = dict(zip(OPT_NAMES, bits))
        if kind in ("OptStock", "OptArgRenamer") and (o["drop_args"] or o["drop_kwargs"]):
            continue        # the mapper uses its arguments: dropping them is the caller's misuse
        if kind in ("OptStock", "OptArgRenamer") and o["inline_cache"]:
            continue        # the inlined cache key is argument-free: only for mappers whose
                            # get_cache_key is argument-free too (documented restriction)
        yield o


POISONS = {
    "fresh": None,
    "after-all-on": dict(drop_args=True, drop_kwargs=True, inline_rec=True, inline_cache=True,
                         inline_get_cache_key=True),
    "after-inline-rec": dict(inline_rec=True),
}


def optimized_pair(kind, opts, poison="fresh"):
    """The class optimize_mapper(**opts) makes from *kind* -- in a process where the optimizer
    has (deterministically) been used before with the *poison* options on another class."""
    import vf.optmappers as om
    from pymbolic.mapper import optimize
    from pymbolic.mapper.optimize import optimize_mapper
    optimize._get_ast_for_file.cache_clear()      # forget what earlier items of this worker did
    if POISONS[poison] is not None:
        optimize_mapper(**POISONS[poison])(om.OptRenamer)
    base = getattr(om, kind)
    ref = getattr(om, "Ref" + kind[3:])
    cls = optimize_mapper(**opts)(base)
    takes_args = kind in ("OptStock", "OptArgRenamer")
    return (lambda: instrument(cls)(), lambda: ref(), takes_args)

# }}}


class C05(Check):
    pid = "C05"
    level = "model_checking"
    rule = ("explicit-state BFS over call histories on ONE memoizing mapper instance: menu = "
            "(expression, extra-argument tuple) with expressions from a pool built for sharing "
            "(equal-but-not-identical subtrees, DAG sharing, 4 / 4.0 / True as leaves, in a tuple "
            "and at top level, one CSE wrapper twice, two user node classes over different bases "
            "that name the same unimplemented handler, old-style nodes differing in a hash-colliding "
            "extra argument, a node next to its own image under the rewriting pairs) and arguments from {(), (1,), (1.0,), "
            "(True,), (1,'a'), k=1, k=2, (1, k=1), (k=1, j=2), (j=2, k=1), (('k', 1),)}; all histories up to the largest depth whose complete exploration "
            "fits 15k (quick) / 250k (thorough) transitions per mapper pair (depth 3-5); pairs: identity, argument-dependent renamer, leaf-counting combine, collector, "
            "walk, evaluation, substitution, dependency x 3 flag settings, and every class the "
            "optimizer produces from 6 source classes (a renamer, a flattener, a None-returning walker, "
            "a mapper overriding handlers that are alias targets, "
            "two argument-keeping mappers) (32 + 32 + 32 + 32 + 4 + 4 option combinations), each "
            "in a fresh process state and after an earlier use of the optimizer with other "
            "options; a class whose methods come from two modules with equal-but-distinct globals of "
            "one name (refused, or same behaviour) under every option combination; wide: one call on a tree with 1100 (thorough 300 / 1100 / 2100) distinct operands "
            "that all occur three times, no key computed twice; constructor parity: every prefix of every positional flag vector gives "
            "CachedDependencyMapper, DependencyMapper and the documented keywords the same result. A "
            "state is a history with exact repeats removed; every transition replays its history "
            "on a fresh instance. Non-trivial = history of length >= 2; distinct = distinct "
            "(pair, history).")
    assumptions = [
        "the pool contains no two composite expressions that are == but differ in constant types "
        "(the memo key is the library's ==; the statement speaks of constants of different type)",
        "canon(history) = history with exact repeats removed: sound if repeating an earlier call "
        "leaves the memo unchanged, which is itself observed on every such transition (result "
        "compared, per-key computation count asserted to stay 1)",
        "optimizer options that drop arguments a mapper uses, or inline the argument-free cache "
        "into an argument-taking mapper, are the caller's documented responsibility and not "
        "explored",
    ]
    chunk = 1
    item_timeout = 900

    def families(self, tier):
        def stock():
            for name in pairs():
                yield ("pair", name)

        def optimized():
            for kind in ("OptRenamer", "OptFlattener", "OptWalker", "OptAliasTargets", "OptStock",
                         "OptArgRenamer"):
                for o in opt_combos(kind):
                    for poison in POISONS:
                        yield ("opt", kind, tuple(sorted(o.items())), poison)
        def parity():
            for vec in itertools.product((True, False), (True, False),
                                         (True, False, "descend_args"), (True, False),
                                         (None, True, False)):
                for n in range(1, 6):
                    yield ("parity", vec[:n])
        def wide():
            for name in pairs():
                if name in ("evaluation", "substitution", "cse-mixin-walk"):
                    continue
                for n in ((1100,) if tier == "quick" else (300, 1100, 2100)):
                    yield ("wide", name, n)
        def namespaces():
            for o in opt_combos("OptRenamer"):
                yield ("namespace", tuple(sorted(o.items())))
        return [("stock-pairs", stock), ("optimized", optimized), ("two-module-classes", namespaces),
                ("constructor-parity", parity), ("wide", wide)]

    def check_item(self, family, item, tier):
        r = Res()
        if item[0] == "replay":             # a recorded witness carries the tier it was found in
            tier, item = item[1], tuple(item[2])
        if item[0] == "namespace":
            r.evals += 1
            r.keys.append(item)
            f = namespace_failure(dict(item[1]))
            if f:
                on = "+".join(k for k, v in sorted(dict(item[1]).items()) if v) or "none"
                r.fail(f[0], f"{f[0]}|{on}", f[1])
            return r
        if item[0] == "wide":
            r.evals += 1
            r.keys.append(item)
            f = wide_failure(item[1], item[2])
            if f:
                r.fail(f[0], f"{f[0]}|{item[1]}|n={item[2]}", f[1])
            return r
        if item[0] == "parity":
            r.evals += 1
            r.keys.append(item)
            f = parity_failure(tuple(item[1]))
            if f:
                r.fail("constructor-parity", f"constructor-parity|{tuple(item[1])!r}", f)
            return r
        if item[0] == "pair":
            make_c, make_p, takes_args = pairs()[item[1]]
            label = item[1]
            pool = POOL_Q if tier == "quick" else list(range(len(POOL)))
        else:
            opts = dict(item[2])
            try:
                make_c, make_p, takes_args = optimized_pair(item[1], opts, item[3])
            except RecursionError:
                raise
            except Exception as e:  # noqa: BLE001
                r.evals += 1
                on = "+".join(k for k, v in sorted(opts.items()) if v) or "none"
                r.fail("optimizer-raises", f"optimizer-raises|{item[1]}|{on}",
                       f"optimize_mapper({opts}) on {item[1]} raised {type(e).__name__}: {e}")
                return r
            label = item[1] + "[" + ("+".join(k for k, v in sorted(opts.items()) if v)
                                     or "none") + "]" + item[3]
            pool = [0, 1, 2, 3, 4, 6, 7, 11, 13] if item[1] != "OptAliasTargets" else [0, 4, 6, 15]
        if item[0] == "opt" and item[1] == "OptArgRenamer":
            args = [((1,), ()), ((1.0,), ()), ((True,), ())] if tier == "thorough" \
                else [((1,), ()), ((1.0,), ())]
        elif label == "cse-mixin-walk":
            args = [((), ()), ((1,), ()), ((1.0,), ())]      # the mix-in takes no keywords
        elif takes_args:
            args = ARGS_Q if tier == "quick" else ARGS
        else:
            args = [((), ())]
        menu = [(i, j) for i in pool for j in range(len(args))]
        budget = BUDGET[tier] if item[0] == "pair" else BUDGET[tier] // 10
        depth = depth_for(len(menu), budget)

        def step(hist):
            m = make_c()
            m._vf_log = []
            res = None
            def guarded(fn, *a, **k):
                try:
                    return fn(*a, **k)
                except RecursionError:
                    raise
                except Exception as e:  # noqa: BLE001
                    return ("str", f"raised {type(e).__name__}")     # compared like a result
            for (i, j) in hist:
                res = guarded(m, pool_obj(i), *args[j][0], **dict(args[j][1]))
            i, j = hist[-1]
            want = guarded(make_p(), pool_obj(i), *args[j][0], **dict(args[j][1]))
            r.evals += 1
            got_n, want_n = norm_result(res), norm_result(want)
            if got_n != want_n:
                kind = "result"
                for (_i0, j0) in hist[:-1]:
                    if j0 != j and args[j0] == args[j] and args[j0][0] != ():
                        # an earlier call used arguments that are == but of another type
                        kind = "result:equal-args-shared"
                return ((kind, f"after {fmt(hist[:-1])} the call {fmt(hist[-1:])} returned "
                         f"{show_res(got_n)}, a fresh non-memoizing mapper returns "
                         f"{show_res(want_n)}"), None)
            cnt = Counter(m._vf_log)
            dup = [k for k, v in cnt.items() if v > 1
                   and (label not in DUP_ONLY or k[0] == DUP_ONLY[label])]
            if dup:
                k = dup[0]
                return (("recomputed", f"in history {fmt(hist)} handler {k[0]} ran {cnt[k]} times "
                         f"for the key ({show_res(k[1])}, args {k[2]})"), None)
            return None, got_n

        def fmt(h):
            return "[" + ", ".join(f"{show(POOL[i])}{fmt_args(args[j])}" for i, j in h) + "]"

        ex = bfs(menu, step, depth)
        r.count("states", ex.states)
        r.count("transitions", ex.transitions)
        r.count("histories", ex.transitions)
        r.count("max_depth", ex.max_depth)
        r.count("distinct_outcomes", len(ex.outcomes))
        r.keys.extend((label, i) for i in range(ex.states))
        for hist, kind, detail in ex.violations:
            canon_h = drop_repeats(hist)
            sig = f"{kind}|{label}|" + ";".join(
                f"{show(POOL[i])}@{fmt_args(args[j]) or '()'}" for i, j in canon_h)
            if kind == "result:equal-args-shared":
                sig = f"{kind}|{label}"       # one root cause per mapper pair
            if kind == "recomputed" and item[0] == "opt" and opts.get("inline_rec") \
                    and not opts.get("inline_cache"):
                # the inlined rec calls the handler directly, without consulting the memo
                kind = "recomputed:inline-rec-without-inline-cache"
                sig = f"{kind}|{item[1]}"
            r.fail(kind, sig, detail, witness=("replay", tier, item))
        return r


def fmt_args(a):
    pos, kw = a
    if not pos and not kw:
        return ""
    return "(" + ", ".join([*map(repr, pos), *[f"{k}={v!r}" for k, v in kw]]) + ")"


def show_res(n):
    try:
        return show(n) if isinstance(n, tuple) and n and isinstance(n[0], str) \
            and n[0] not in ("set", "counter") else repr(n)
    except Exception:  # noqa: BLE001
        return repr(n)


CHECK = C05()

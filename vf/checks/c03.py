"""C03 -- operator overloading builds trees that mean what the operators mean.

Engine A over operator programs: every (operator, left kind, right kind) with at least one
expression side, every two-operator program over a reduced kind set, unary operators, call /
subscript / attribute syntax, the comparison / logical constructor methods and the smart
constructors; each executed once on pymbolic operands and once on plain numbers.
Oracle: vf.refsem of the resulting tree == the plain value in every environment where the plain
computation is defined; equality in the free non-commutative ring for + - * programs; ordering
comparisons must raise TypeError.
"""
from __future__ import annotations

import itertools
import math
import operator
from fractions import Fraction

from vf import refsem
from vf.envs import base_env
from vf.exact import NCPoly
from vf.explore import bfs
from vf.run import Check, Res
from vf.spec import C, Call, FDiv, Pow, Prod, Quot, Rem, Sub, Sum, V, build, show, to_spec

X, Y = V("x"), V("y")
EXPR_KINDS = {
    "Var": X, "Var2": Y, "Sum": Sum(X, C(3)), "Sum2": Sum(Y, X), "Product": Prod(C(2), X),
    "Product2": Prod(X, Y), "Quotient": Quot(X, C(3)), "FloorDiv": FDiv(X, C(2)),
    "Remainder": Rem(X, C(3)), "Power": Pow(X, C(2)), "Call": Call(V("f"), X),
    "Subscript": Sub(V("arr"), X),
    "Cmp<": ("Comparison", X, ("str", "<"), Y), "Cmp>=": ("Comparison", X, ("str", ">="), Y),
    "Cmp==": ("Comparison", X, ("str", "=="), Y),
}
# composite operands that are falsy (their value is provably zero), and truthy ones that contain
# a falsy term: the zero / one short-cuts of the operators test truth values
FALSY_KINDS = {
    "FDiv0": FDiv(C(0), X), "Rem0": Rem(C(0), X), "Quot0": Quot(C(0), X), "Prod0": Prod(C(0), X),
    "Sum1Falsy": ("Sum", ("tuple", FDiv(C(0), X))),
    "SumWithFalsy": Sum(C(5), Prod(C(-1), FDiv(C(0), X))),
    "SumWithProd0": Sum(Y, Prod(C(0), X)),
    "ProdWithFalsySum": Prod(C(2), Sum(C(5), Rem(C(0), X))),
    "QuotOfProd0": Quot(Prod(C(0), X), C(2)),
}
EXPR_KINDS.update(FALSY_KINDS)
FLOAT_EXTREMES = {"1e200": 1e200, "1e-200": 1e-200, "0.1": 0.1, "3.0": 3.0, "1e308": 1e308,
                  "5e-324": 5e-324, "2**53": float(2**53)}
FX_POINTS = (1e-300, 1e300, 7.0, 1.0, -3.5, 1e-5)
NUM_KINDS = {"0": 0, "1": 1, "-1": -1, "2": 2, "0.0": 0.0, "1.0": 1.0, "2.5": 2.5, "True": True,
             "False": False}
REDUCED = ["Var", "Var2", "Sum", "Product2", "Quotient", "Power", "0", "1", "-1", "2", "2.5"]
NC_KINDS = ["Var", "Var2", "Sum2", "Product2", "0", "1", "-1", "2"]

def gpow(a, b):
    """** that refuses astronomically large results on plain numbers (uninterruptible C loop)."""
    if isinstance(a, (int, float, Fraction)) and isinstance(b, (int, float, Fraction)):
        refsem.guard_power(a, b)
        if isinstance(b, float) and abs(b) > 4096:
            raise refsem.TooBig()
    return a ** b


BINOPS = {"+": operator.add, "-": operator.sub, "*": operator.mul, "/": operator.truediv,
          "//": operator.floordiv, "%": operator.mod, "**": gpow, "<<": operator.lshift,
          ">>": operator.rshift, "&": operator.and_, "|": operator.or_, "^": operator.xor}
UNOPS = {"neg": operator.neg, "pos": operator.pos, "inv": operator.invert, "abs": abs}
ORDER = {"<": operator.lt, "<=": operator.le, ">": operator.gt, ">=": operator.ge}
BOX = (-2, -1, 0, 1, 2, 3, Fraction(1, 2), Fraction(-3, 2))
BOX_Q = (-2, 0, 1, 3, Fraction(1, 2), Fraction(-3, 2))
REDUCED_Q = ["Var", "Var2", "Sum", "Product2", "Quotient", "0", "1", "-1", "2.5"]
_TIER = ["thorough"]


def operand(kind, rational_ok=True):
    if kind == "Rational":
        from pymbolic.primitives import quotient
        return quotient(1, 2)
    if kind in EXPR_KINDS:
        return build(EXPR_KINDS[kind])
    return NUM_KINDS[kind]


def plain(kind, env):
    if kind == "Rational":
        return Fraction(1, 2)
    if kind in EXPR_KINDS:
        return refsem.evaluate(EXPR_KINDS[kind], env)
    return NUM_KINDS[kind]


def is_expr_kind(k):
    return k in EXPR_KINDS or k == "Rational"


def run_prog(prog, leaf):
    """prog: kind name | ('bin', op, l, r) | ('un', op, a) | ('meth', name, a, b?)"""
    if isinstance(prog, str):
        return leaf(prog)
    t = prog[0]
    if t == "bin":
        return BINOPS[prog[1]](run_prog(prog[2], leaf), run_prog(prog[3], leaf))
    if t == "un":
        return UNOPS[prog[1]](run_prog(prog[2], leaf))
    raise ValueError(prog)


def show_prog(prog):
    if isinstance(prog, str):
        return prog
    if prog[0] == "bin":
        return f"({show_prog(prog[2])} {prog[1]} {show_prog(prog[3])})"
    if prog[0] == "un":
        return f"{prog[1]}({show_prog(prog[2])})"
    return repr(prog)


def close(a, b):
    if isinstance(a, bool) or isinstance(b, bool):
        return a == b
    if isinstance(a, float) or isinstance(b, float):
        try:
            return math.isclose(a, b, rel_tol=1e-12, abs_tol=1e-12) or (a != a and b != b)
        except TypeError:
            return False
    return refsem.values_equal(a, b)


def has_truediv(prog):
    if isinstance(prog, str):
        return False
    return (prog[0] == "bin" and prog[1] == "/") or any(has_truediv(p_) for p_ in prog[2:])


def envs(exact_only=False):
    """exact_only: every value a Fraction, so that '/' stays exact on both sides (x / 1 -> x
    turns Python's int / int float result back into an int, which is a rounding matter only)."""
    box = BOX_Q if _TIER[0] == "quick" else BOX
    if exact_only:
        box = tuple(Fraction(v) for v in box)
    for vx, vy in itertools.product(box, repeat=2):
        e = base_env()
        e["x"], e["y"], e["abs"] = vx, vy, abs
        yield e


def nc_env():
    e = base_env()
    e["x"], e["y"], e["abs"] = NCPoly.gen("x"), NCPoly.gen("y"), abs
    return e


def derationalise(s):
    """A Rational node denotes the quotient of its two fields."""
    if isinstance(s, tuple):
        if s and s[0] == "U:pymbolic.rational.Rational":
            return ("Quotient", derationalise(s[1]), derationalise(s[2]))
        return tuple(derationalise(c) for c in s)
    return s


def has_opaque(s):
    if isinstance(s, tuple):
        if s and s[0] == "opaque":
            return True
        return any(has_opaque(c) for c in s)
    return False


def sig_prog(prog, top=True):
    """Rendering for signatures: a sub-program whose pymbolic result is a plain number is shown
    as that number (x // (2 - 1) and x // (y ** 0) are the same case as x // 1)."""
    if isinstance(prog, str):
        return prog
    if prog[0] in ("bin", "un") and not top:
        try:
            v = run_prog(prog, operand)
            if isinstance(v, (int, float, bool)):
                return repr(v)
        except Exception:  # noqa: BLE001
            pass
    if prog[0] == "bin":
        return f"({sig_prog(prog[2], False)} {prog[1]} {sig_prog(prog[3], False)})"
    if prog[0] == "un":
        return f"{prog[1]}({sig_prog(prog[2], False)})"
    return repr(prog)


def check_prog(prog, r=None, nc=False):
    """-> (kind, detail) or None"""
    try:
        tree = run_prog(prog, operand)
    except (TypeError, AssertionError, ZeroDivisionError, OverflowError, ValueError,
            refsem.TooBig):
        if r is not None:
            r.count("refused")
        return None         # construction refused (or a number-only sub-program is undefined)
    except RecursionError:
        raise
    except Exception as e:  # noqa: BLE001
        return (f"construct-raises:{type(e).__name__}", f"{show_prog(prog)} raised {e!r}")
    try:
        tspec = to_spec(tree)
    except Exception as e:  # noqa: BLE001
        return ("unreadable-result", f"{show_prog(prog)} -> {tree!r}: {e!r}")
    tspec = derationalise(tspec)
    if has_opaque(tspec):
        return None
    any_defined = False
    for env in ([nc_env()] if nc else envs(has_truediv(prog))):
        try:
            want = run_prog(prog, lambda k: plain(k, env))
        except (ZeroDivisionError, OverflowError, ValueError, TypeError, refsem.TooBig):
            continue
        if isinstance(want, complex):
            continue
        any_defined = True
        got = refsem.outcome(refsem.evaluate, tspec, dict(env))
        if r is not None:
            r.evals += 1
        if refsem.is_skip(got):
            continue
        ok = got[0] == "ok" and (got[1] == want if nc else close(got[1], want))
        if not ok:
            shown = {k: env[k] for k in ("x", "y")}
            return ("value" + (":noncommutative" if nc else ""),
                    f"{show_prog(prog)} built {show(tspec)}; at {shown} the plain computation "
                    f"gives {want!r}, the tree evaluates to {refsem.show_outcome(got)}")
    if r is not None and any_defined:
        r.keys.append(prog)
    return None


# {{{ histories of constant-class (un)registration

class MyFrac(Fraction):
    """a number class of the user's, derived from one that may get registered (closed under
    negation, which x - h relies on)"""

    def __neg__(self):
        return MyFrac(-self.numerator, self.denominator)


REG_CLASSES = {"Fraction": Fraction, "MyFrac": MyFrac}
REG_USES = {"x*h": lambda x, h: x * h, "h+x": lambda x, h: h + x, "x-h": lambda x, h: x - h,
            "h/x": lambda x, h: h / x}
REG_MENU = [*[(a, c) for c in REG_CLASSES for a in ("register", "unregister")],
            *[("use", u, c) for c in REG_CLASSES for u in REG_USES]]


def show_reg(op):
    return f"{op[0]}({op[1]})" if op[0] != "use" else f"{op[1]} with h={op[2]}(1,2)"


def run_reg_history(hist):
    """Replay a history of register_constant_class / unregister_constant_class / operator uses;
    the model is the list of registered classes; the global table is restored afterwards."""
    import pymbolic.primitives as p
    saved = p.VALID_CONSTANT_CLASSES
    model = []
    x = p.Variable("x")
    try:
        for n, op in enumerate(hist):
            if op[0] == "register":
                p.register_constant_class(REG_CLASSES[op[1]])
                model.append(op[1])
            elif op[0] == "unregister":
                if op[1] not in model:
                    return None, "n/a"              # not enabled in this state
                p.unregister_constant_class(REG_CLASSES[op[1]])
                model.remove(op[1])
            else:
                h = REG_CLASSES[op[2]](1, 2)
                is_const = any(isinstance(h, REG_CLASSES[c]) for c in model)
                where = f"after {' ; '.join(show_reg(o) for o in hist[:n]) or 'nothing'}"
                if bool(p.is_constant(h)) != is_const:
                    return ("registration:is-constant", f"{where}: is_constant({h!r}) is "
                            f"{p.is_constant(h)}, registered classes are {model}"), None
                try:
                    tree = REG_USES[op[1]](x, h)
                except (TypeError, AssertionError):
                    if is_const:
                        return ("registration:refused", f"{where}: {op[1]} with h = {h!r} raised "
                                f"TypeError although {model} are registered"), None
                    continue
                if not is_const:
                    return ("registration:accepted", f"{where}: {op[1]} with h = {h!r} built "
                            f"{tree!r} although only {model} are registered"), None
                from pymbolic.mapper.evaluator import evaluate
                for vx in (Fraction(3), Fraction(-2, 3)):
                    want = REG_USES[op[1]](vx, Fraction(1, 2))
                    got = evaluate(tree, {"x": vx})
                    if got != want:
                        return ("registration:value", f"{where}: {op[1]} built {tree!r}, which "
                                f"evaluates to {got!r} at x={vx}, plain value {want!r}"), None
        return None, tuple(model)
    finally:
        p.VALID_CONSTANT_CLASSES = saved

# }}}


def check_prog_floats(prog, r=None):
    """The operator-built tree against the plain float computation in the written order, at
    points of extreme magnitude, compared EXACTLY (bit for bit, inf and nan included)."""
    import math
    leafv = dict(NUM_KINDS, **FLOAT_EXTREMES)
    try:
        tree = run_prog(prog, lambda k: leafv[k] if k in leafv else operand(k))
    except (TypeError, AssertionError, ZeroDivisionError, OverflowError):
        return None
    tspec = to_spec(tree)
    any_point = False
    for vx in FX_POINTS:
        try:
            want = run_prog(prog, lambda k: leafv[k] if k in leafv else vx)
        except (ZeroDivisionError, OverflowError):
            continue
        env = base_env()
        env["x"] = vx
        got = refsem.outcome(refsem.evaluate, tspec, env)
        if r is not None:
            r.evals += 1
        any_point = True
        same = got[0] == "ok" and isinstance(got[1], float) and (
            (math.isnan(want) and math.isnan(got[1]))
            or (got[1] == want and math.copysign(1, got[1]) == math.copysign(1, want)))
        if not same:
            return ("float-value", f"{show_prog(prog)} built {show(tspec)}; at x={vx!r} the plain "
                    f"computation gives {want!r}, the tree evaluates to "
                    f"{refsem.show_outcome(got)}")
    if r is not None and any_point:
        r.keys.append(prog)
    return None


def subprograms(prog):
    if isinstance(prog, str):
        return
    for p_ in prog[2:]:
        if not isinstance(p_, str):
            yield from subprograms(p_)
            yield p_


class C03(Check):
    pid = "C03"
    level = "exploration"
    rule = ("operator programs executed on pymbolic operands and on plain numbers: every "
            "(operator, left kind, right kind) with at least one expression side over 13 "
            "expression kinds (variable, sums, products, quotient, floor division, remainder, "
            "power, call, subscript, exact rational) and 9 numeric kinds (0 1 -1 2 0.0 1.0 2.5 "
            "True False) for the 12 binary operators; unary - + ~ abs; every two-operator program "
            "(l op1 m) op2 r and l op1 (m op2 r) over 11 kinds (quick: 9 kinds and + - * / ** // %; "
            "thorough: all 12x12 operator pairs); + - * programs over free non-commutative generators; "
            "ordering comparisons in both orders; call / subscript / attribute / comparison / "
            "logical constructor methods, one- and three-element tuple subscripts, three-argument pow in "
            "both operand roles (to be refused or to mean modular exponentiation); flattened_sum / flattened_product / linear_combination / "
            "quotient on all operand lists of length <= 3 (the caller's list must come back untouched and "
            "a second call with it, a tuple or an iterator must build the same tree); two-operator "
            "programs around 9 falsy or falsy-containing composite operands (0 // x, 0 % x, 0 / x, "
            "0 * x, 5 - 0 // x ...); all histories up to depth 3 (thorough 4) of register / "
            "unregister_constant_class and operator uses for two number classes (Fraction and a "
            "subclass) against a list model; three-level programs l +/- ((-k) op r), l +/- (r op (-k)), "
            "((-k) op r) +/- l over 5 (thorough 9) operand kinds; products / sums / quotients of a variable with two float "
            "constants of extreme magnitude (1e200, 1e-200, 1e308, 5e-324, 0.1, 3.0) in left-associated "
            "chains, compared "
            "bit for bit at 6 points. Each over the box {-2..3, 1/2, -3/2}^2 (quick: 6 values). "
            "Non-trivial = the plain computation is defined in at least one environment; distinct "
            "= distinct programs.")
    assumptions = [
        "a construction that raises TypeError / AssertionError yields no tree and is counted as "
        "refused, not as a violation",
        "float-valued results are compared with relative tolerance 1e-12 (splicing a sum into a "
        "sum changes the association of a float addition); everything else exactly",
        "results that are not expression trees (Rational objects) are judged in C19",
        "a right-nested a * (b * x) / a + (b + x) is spliced into one n-ary node and thereby "
        "re-associated (by design); a literal zero factor is simplified away (sign of zero, inf * 0 "
        "are not represented): the bit-exact float family uses left-associated chains and no zeros",
    ]
    chunk = 50

    def families(self, tier):
        kinds = [*EXPR_KINDS, "Rational", *NUM_KINDS]
        reduced = REDUCED_Q if tier == "quick" else REDUCED

        def single():
            for op in BINOPS:
                for l, r in itertools.product(kinds, repeat=2):
                    if is_expr_kind(l) or is_expr_kind(r):
                        yield ("prog", ("bin", op, l, r))
            for op in UNOPS:
                for k in kinds:
                    if is_expr_kind(k):
                        yield ("prog", ("un", op, k))
                        for op2 in BINOPS:
                            yield ("prog", ("bin", op2, ("un", op, k), "Var2"))
                            yield ("prog", ("bin", op2, "Var2", ("un", op, k)))

        def double():
            ops = list(BINOPS) if tier == "thorough" else ["+", "-", "*", "/", "**", "//", "%"]
            for o1, o2 in itertools.product(ops, repeat=2):
                for l, m, r in itertools.product(reduced, repeat=3):
                    if not (is_expr_kind(l) or is_expr_kind(m) or is_expr_kind(r)):
                        continue
                    yield ("prog", ("bin", o2, ("bin", o1, l, m), r))
                    yield ("prog", ("bin", o1, l, ("bin", o2, m, r)))

        def falsy():
            ops = ["+", "-", "*", "**", "//"] if tier == "quick" else \
                ["+", "-", "*", "/", "**", "//", "%"]
            side = ["Var2", "2", "1"] if tier == "quick" else ["Var2", "Sum", "2", "1", "0", "-1"]
            for o1, o2 in itertools.product(ops, repeat=2):
                for fk in FALSY_KINDS:
                    for l, r in itertools.product(side, repeat=2):
                        yield ("prog", ("bin", o2, ("bin", o1, l, fk), r))
                        yield ("prog", ("bin", o2, ("bin", o1, fk, l), r))
                        yield ("prog", ("bin", o1, l, ("bin", o2, fk, r)))
                        yield ("prog", ("bin", o1, l, ("bin", o2, r, fk)))
            # the shape the operators themselves build: constant - falsy, then used as an operand
            for o1, o2 in itertools.product(["-", "+"], ops):
                for fk in ("FDiv0", "Rem0", "Quot0", "Prod0"):
                    for c, s in itertools.product(["2", "1", "0"], ["Var2", "2"]):
                        yield ("prog", ("bin", o2, s, ("bin", o1, c, fk)))
                        yield ("prog", ("bin", o2, ("bin", o1, c, fk), s))

        def floatx():
            # successive float factors / terms of extreme magnitude: the tree has to keep the
            # association the operators were applied in (1e200 * 1e200 overflows, 0.1 * 3 rounds)
            fk = list(FLOAT_EXTREMES)
            for o in ("*", "+"):
                for a, b in itertools.product(fk, repeat=2):
                    # left-associated chains only: a * (b * x) is spliced into ONE n-ary node
                    # (a, b, x), i.e. re-associated by design
                    yield ("fx", ("bin", o, ("bin", o, "Var", a), b))
                    yield ("fx", ("bin", o, ("bin", o, a, "Var"), b))
                    yield ("fx", ("bin", o, ("bin", o, ("bin", o, "Var", a), b), a))
            for a, b in itertools.product(fk, repeat=2):
                yield ("fx", ("bin", "/", ("bin", "*", "Var", a), b))
                yield ("fx", ("bin", "*", ("bin", "/", "Var", a), b))
                yield ("fx", ("bin", "-", ("bin", "+", "Var", a), b))

        def negated():
            # a unary minus (or ~, abs) on a composite operand one level below another operator:
            # where a sign is distributed, hoisted or absorbed
            ks = ["Var", "Sum", "Sum2", "Product2", "2"] if tier == "quick" else \
                ["Var", "Sum", "Sum2", "Product", "Product2", "Quotient", "Power", "2", "-1"]
            for o1 in ("+", "-"):
                for o2 in ("*", "/", "**", "+", "-"):
                    for l, k, r_ in itertools.product(ks, repeat=3):
                        if not (is_expr_kind(l) or is_expr_kind(k) or is_expr_kind(r_)):
                            continue
                        n = ("un", "neg", k)
                        yield ("prog", ("bin", o1, l, ("bin", o2, n, r_)))
                        yield ("prog", ("bin", o1, l, ("bin", o2, r_, n)))
                        yield ("prog", ("bin", o1, ("bin", o2, n, r_), l))

        def registration():
            for depth_first in REG_MENU:
                yield ("reg", depth_first)

        def noncomm():
            for o1, o2 in itertools.product("+-*", repeat=2):
                for l, m, r in itertools.product(NC_KINDS, repeat=3):
                    if not (is_expr_kind(l) or is_expr_kind(m) or is_expr_kind(r)):
                        continue
                    yield ("nc", ("bin", o2, ("bin", o1, l, m), r))
                    yield ("nc", ("bin", o1, l, ("bin", o2, m, r)))
            for o in "+-*":
                for l, r in itertools.product(NC_KINDS, repeat=2):
                    if is_expr_kind(l) or is_expr_kind(r):
                        yield ("nc", ("bin", o, l, r))

        def order():
            for op in ORDER:
                for l, r in itertools.product(kinds, repeat=2):
                    if is_expr_kind(l) or is_expr_kind(r):
                        yield ("order", op, l, r)

        def methods():
            for k in kinds:
                if not is_expr_kind(k) or k == "Rational":
                    continue
                for other in kinds:
                    if other == "Rational":
                        continue
                    for m in ("eq", "ne", "lt", "le", "gt", "ge", "and_", "or_", "call1", "callkw",
                              "index", "index2", "index1t", "index3", "pow3", "rpow3"):
                        yield ("meth", m, k, other)
                for m in ("not_", "not_not", "not_x3", "attr", "a.name", "a.two", "call0"):
                    yield ("meth", m, k, "0")

        def smart():
            ks = ["Var", "Var2", "Sum", "Sum2", "Product", "Product2", "0", "1", "2", "-1"]
            for n in (1, 2, 3):
                for combo in itertools.product(ks, repeat=n):
                    for fn in ("flattened_sum", "flattened_product"):
                        yield ("smart", fn, combo)
                        yield ("smart-nc", fn, combo)
            for a, b, c, d in itertools.product(["0", "1", "2", "Var2"], ["Var", "Sum", "0"],
                                                ["0", "-1", "Var"], ["Var2", "Product", "1"]):
                yield ("smart", "linear_combination", (a, b, c, d))
            for l, r in itertools.product(kinds, repeat=2):
                if r != "Rational" and l != "Rational":
                    yield ("smart", "quotient", (l, r))
        return [("single", single), ("double", double), ("falsy-operands", falsy),
                ("float-extremes", floatx), ("negated-operands", negated),
                ("constant-class-registration", registration), ("noncommutative", noncomm),
                ("ordering", order), ("methods", methods), ("smart-constructors", smart)]

    def check_item(self, family, item, tier):
        r = Res()
        _TIER[0] = tier
        mode = item[0]
        if mode in ("prog", "nc"):
            prog = item[1]
            nc = mode == "nc"
            f = check_prog(prog, r, nc)
            if f:
                # attribute the failure to the smallest failing sub-program
                culprit = prog
                for sp in subprograms(prog):
                    f2 = check_prog(sp, None, nc)
                    if f2 and f2[0] == f[0]:
                        culprit, f = sp, f2
                        break
                r.fail(f[0], f"{f[0]}|{sig_prog(culprit)}", f"in {show_prog(prog)}: {f[1]}",
                       witness=(mode, culprit))
            return r
        if mode == "fx":
            prog = item[1]
            f = check_prog_floats(prog, r)
            if f:
                r.fail(f[0], f"{f[0]}|{sig_prog(prog)}", f[1], witness=("fx", prog))
            return r
        if mode == "reg":
            depth = 3 if tier == "quick" else 4
            first = tuple(item[1])

            def step(hist):
                r.evals += 1
                return run_reg_history(hist)
            # one item per first operation: the histories starting with it
            viol, _ = run_reg_history((first,))
            viols = [((first,), *viol)] if viol else []
            if not viol:
                ex = bfs(REG_MENU, step, depth, canon=lambda h: h, root=(first,))
                r.count("states", ex.states)
                r.count("transitions", ex.transitions)
                r.count("histories", ex.transitions)
                r.count("max_depth", ex.max_depth)
                viols = ex.violations
            r.keys.append(item)
            for hist, k, detail in viols:
                r.fail(k, f"{k}|{' ; '.join(show_reg(o) for o in hist)}", detail,
                       witness=("reghist", hist))
            return r
        if mode == "reghist":
            viol, _ = run_reg_history(tuple(tuple(o) for o in item[1]))
            if viol:
                r.fail(viol[0], f"{viol[0]}|{' ; '.join(show_reg(tuple(o)) for o in item[1])}",
                       viol[1])
            return r
        if mode == "order":
            _, op, l, r_ = item
            r.evals += 1
            r.keys.append(item)
            try:
                res = ORDER[op](operand(l), operand(r_))
                r.fail("ordering-not-refused", f"ordering-not-refused|{l} {op} {r_}",
                       f"{l} {op} {r_} returned {res!r} instead of raising TypeError")
            except TypeError:
                pass
            except RecursionError:
                raise
            except Exception as e:  # noqa: BLE001
                r.fail("ordering-wrong-exception", f"ordering-wrong-exception|{l} {op} {r_}",
                       f"{l} {op} {r_} raised {type(e).__name__}: {e} instead of TypeError")
            return r
        if mode == "meth":
            return self.check_method(r, *item[1:])
        return self.check_smart(r, mode, item[1], tuple(item[2]))

    def check_method(self, r, m, k, other):
        cmpname = {"eq": "==", "ne": "!=", "lt": "<", "le": "<=", "gt": ">", "ge": ">="}
        e = operand(k)
        o = operand(other)
        try:
            if m in cmpname:
                tree = getattr(e, m)(o)
                plainf = lambda a, b: {"==": operator.eq, "!=": operator.ne, "<": operator.lt,  # noqa: E731
                                       "<=": operator.le, ">": operator.gt,
                                       ">=": operator.ge}[cmpname[m]](a, b)
            elif m == "and_":
                tree = e.and_(o)
                plainf = lambda a, b: bool(a) and bool(b)      # noqa: E731
            elif m == "or_":
                tree = e.or_(o)
                plainf = lambda a, b: bool(a) or bool(b)       # noqa: E731
            elif m == "not_":
                tree = e.not_()
                plainf = lambda a, b: not a                    # noqa: E731
            elif m == "not_not":
                tree = e.not_().not_()
                plainf = lambda a, b: not (not a)              # noqa: E731
            elif m == "not_x3":
                tree = e.not_().not_().not_()
                plainf = lambda a, b: not (not (not a))        # noqa: E731
            elif m == "a.two":
                # two attribute accessors alive at the same time, used in the other order
                xa = build(V("obj")).a
                ya = build(V("obj2")).a
                second = ya.a
                tree = xa.b * 100 + second
                plainf = "a.two"
            elif m == "call0":
                tree = build(V("f"))()
                plainf = None
            elif m == "call1":
                tree = build(V("f"))(e, o)
                plainf = "call1"
            elif m == "callkw":
                tree = build(V("f"))(e, k=o)
                plainf = "callkw"
            elif m == "index":
                tree = build(V("arr"))[o] if other != "True" and other != "False" else None
                plainf = "index"
            elif m == "index2":
                tree = build(V("arr"))[e, o]
                plainf = "index2"
            elif m == "index1t":
                tree = build(V("arr"))[o,] if other not in ("True", "False") else None
                plainf = "index1t"
            elif m == "index3":
                tree = build(V("arr"))[e, o, e]
                plainf = "index3"
            elif m in ("pow3", "rpow3"):
                # three-argument pow goes to __pow__ / __rpow__ with a modulus: to be refused, or
                # to mean modular exponentiation
                try:
                    tree = pow(e, o, 7) if m == "pow3" else pow(o, e, 7)
                except TypeError:
                    r.count("refused")
                    return r
                plainf = (lambda a, b: pow(a, b, 7)) if m == "pow3" else (lambda a, b: pow(b, a, 7))
            elif m == "attr":
                tree = build(V("obj")).attr("a")
                plainf = "attr"
            else:
                tree = build(V("obj")).a.b
                plainf = "a.name"
        except RecursionError:
            raise
        except Exception as ex:  # noqa: BLE001
            r.fail(f"method-raises:{type(ex).__name__}", f"method-raises|{m}|{k}|{other}",
                   f"{k}.{m}({other}) raised {ex!r}")
            return r
        if tree is None:
            return r
        tspec = derationalise(to_spec(tree))
        r.keys.append((m, k, other))
        all_envs = list(envs())
        if m.startswith("not_") and k.startswith("Cmp"):
            # unordered operands: not (nan < 1) is True, nan >= 1 is False
            for vx, vy in ((float("nan"), 1.0), (1.0, float("nan")), (float("nan"), float("nan"))):
                e_ = base_env()
                e_["x"], e_["y"], e_["abs"] = vx, vy, abs
                all_envs.append(e_)
        for env in all_envs:
            try:
                a, b = plain(k, env), plain(other, env)
            except ZeroDivisionError:
                continue
            try:
                if callable(plainf):
                    want = plainf(a, b)
                elif plainf is None:
                    want = env["f"]()
                elif plainf == "call1":
                    want = env["f"](a, b)
                elif plainf == "callkw":
                    want = env["f"](a, k=b)
                elif plainf == "index":
                    want = env["arr"][b]
                elif plainf == "index2":
                    want = env["arr"][a, b]
                elif plainf == "index1t":
                    want = env["arr"][b,]
                elif plainf == "index3":
                    want = env["arr"][a, b, a]
                elif plainf == "a.two":
                    want = env["obj"].b * 100 + env["obj2"].a
                elif plainf == "attr":
                    want = env["obj"].a
                else:
                    want = env["obj"].b
            except (TypeError, ZeroDivisionError, ValueError):
                continue
            got = refsem.outcome(refsem.evaluate, tspec, dict(env))
            r.evals += 1
            if m.startswith("not_") and got[0] == "ok" and type(got[1]) is not bool:
                got = ("ok", ("not-a-bool", got[1]))
            if not (got[0] == "ok" and close(got[1], want)):
                r.fail("method-value", f"method-value|{m}|{k}|{other}",
                       f"{k}.{m}({other}) built {show(tspec)}: expected {want!r}, tree gives "
                       f"{refsem.show_outcome(got)}")
                break
        return r

    def check_smart(self, r, mode, fn, combo):
        import pymbolic.primitives as p
        nc = mode == "smart-nc"
        ops = [operand(k) for k in combo]
        saved = list(ops)

        def call(container):
            if fn == "flattened_sum":
                return p.flattened_sum(container(ops))
            elif fn == "flattened_product":
                return p.flattened_product(container(ops))
            elif fn == "linear_combination":
                return p.linear_combination(container([ops[0], ops[2]]),
                                            container([ops[1], ops[3]]))
            return p.quotient(ops[0], ops[1])
        try:
            # the caller's own list goes in: it must come back untouched, and a second call with
            # it, or with a tuple / iterator of the same operands, must build the same tree
            tree = call(lambda seq: ops if len(seq) == len(ops) else seq)
            if len(ops) != len(saved) or any(a is not b for a, b in zip(ops, saved)):
                r.fail("smart-argument-modified", f"smart-argument-modified|{fn}|{','.join(combo)}",
                       f"{fn} changed the list it was given: {len(saved)} operands went in, the "
                       f"caller's list now has {len(ops)}")
                return r
            first = to_spec(tree)
            for cname, container in (("same list again", lambda seq: ops if len(seq) == len(ops)
                                      else seq), ("tuple", tuple), ("iterator", iter)):
                again = to_spec(call(container))
                r.evals += 1
                if again != first:
                    r.fail("smart-call-history", f"smart-call-history|{fn}|{','.join(combo)}",
                           f"{fn}({list(combo)}) built {show(first)} from the caller's list, but "
                           f"{show(again)} when called with: {cname}")
                    return r
        except (TypeError, AssertionError, ZeroDivisionError):
            r.count("refused")
            return r
        except RecursionError:
            raise
        except Exception as e:  # noqa: BLE001
            if fn == "quotient" and combo[1] in ("0", "0.0", "False"):
                r.count("refused")      # division by a literal zero
                return r
            r.fail(f"smart-raises:{type(e).__name__}", f"smart-raises|{fn}|{','.join(combo)}",
                   f"{fn}({list(combo)}) raised {e!r}")
            return r
        tspec = derationalise(to_spec(tree))
        if has_opaque(tspec):
            return r
        r.keys.append((fn, combo))
        for env in ([nc_env()] if nc else envs()):
            try:
                vals = [plain(k, env) for k in combo]
            except ZeroDivisionError:
                continue
            try:
                if fn == "flattened_sum":
                    want = 0
                    for v in vals:
                        want = want + v
                elif fn == "flattened_product":
                    want = 1
                    for v in vals:
                        want = want * v
                elif fn == "linear_combination":
                    want = vals[0] * vals[1] + vals[2] * vals[3]
                else:
                    want = Fraction(vals[0]) / vals[1] if isinstance(vals[0], int) and isinstance(
                        vals[1], int) and not isinstance(vals[0], bool) else vals[0] / vals[1]
            except (TypeError, ZeroDivisionError, ValueError):
                continue
            got = refsem.outcome(refsem.evaluate, tspec, dict(env))
            r.evals += 1
            ok = got[0] == "ok" and (got[1] == want if nc else close(got[1], want))
            if not ok:
                shown = {k: env[k] for k in ("x", "y")}
                r.fail("smart-value" + (":noncommutative" if nc else ""),
                       f"smart-value|{fn}|{','.join(combo)}" + ("|nc" if nc else ""),
                       f"{fn}({list(combo)}) built {show(tspec)}; at {shown} expected {want!r}, "
                       f"tree gives {refsem.show_outcome(got)}")
                break
        return r


CHECK = C03()

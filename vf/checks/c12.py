"""C12 -- common-subexpression handling keeps meaning and shares work.

Engine A
  * lists of 1-3 expressions (arithmetic fragment: variables, constants, sums, products, quotients,
    powers, calls; depth <= 3 over x y 1 2) through BOTH taggers (pymbolic.cse
    tag_common_subexpressions, and the histogram tagger CSEWalkMapper/CSETagMapper):
      value     refsem(tagged[i]) == refsem(original[i]) on a box (independent reference on specs)
      sharing   all outputs are evaluated by ONE rec-intercepting EvaluationMapper instance with
                call-counting functions in the environment; every operation that occurred more than
                once in the input (sums/products up to operand order) is evaluated once
      shape     no wrapper placed directly around a wrapper; repeated operations lie in/below wrappers
  * the wrapping helpers wrap_in_cse / make_common_subexpression against the literal reading of
    the statement (constants, variables, subscripts, wrapped nodes stay; containers componentwise).
Engine B
  * evaluator histories (vf.explore.bfs): evaluate expression i on the reused instance or on a fresh
    plain / memoizing instance; after every transition the result equals refsem and, per instance,
    no node is computed more often than by a reference model that computes each distinct wrapper's
    child once (and each wrapper's child at least once).
"""
from __future__ import annotations

import cmath
import itertools
from collections import Counter as Multiset
from fractions import Fraction

import numpy as np

from vf import refsem
from vf.envs import Counter, make_f
from vf.explore import bfs
from vf.run import Check, Res
from vf.spec import (
    CSE, NONE, SCOPE_EVAL, SCOPE_EXPR, SCOPE_GLOBAL, C, Call, Pow, Prod, Quot, S, Sub, Sum, T, V,
    build, canon_vars, show, sort_maps, to_spec, walk)

# {{{ bounds (named constants)

MAX_LIST_LEN = 3
MAX_DEPTH = 3                          # of every enumerated expression (leaf = depth 1)
BFS_DEPTH = {"quick": 3, "thorough": 4}
BFS_DEPTH_ARRAYS = {"quick": 3, "thorough": 3}      # the mutable-value environments
# "wide" dimension: one n-ary node over WIDTH distinct shared calls (sizes around powers of two)
WIDE_WIDTHS = {"quick": (2, 129, 300), "thorough": (2, 65, 129, 257, 300, 513)}
LIVE_DEPTH = 3                                       # histories over two instances alive at once
MINIMISE_BUDGET = 400                  # candidate inputs tried per failing list
BOX = (                                # (x, y): positive, so no expression of the pool raises
    (2, 3), (3, 5), (Fraction(1, 2), Fraction(3, 2)), (Fraction(5, 2), 2), (3, Fraction(1, 3)))
ENV0 = BOX[0]                          # the environment of the sharing run
EXTRA_VALUES = (Fraction(7, 3), 5, Fraction(11, 2), 7, Fraction(13, 5), 11)   # minimiser variables
REL_TOL = 1e-9                         # only where a float/complex is involved (x ** (1/2), 1/2)

# }}}

WRAP = "CommonSubexpression"
LISTED = ("Sum", "Product", "Quotient", "Power", "Call")     # the operations the statement lists
COMMUTATIVE = ("Sum", "Product")
TAGGERS = ("tag", "hist")
# other orders of setting up and feeding the histogram tagger's cooperating pair (same oracle,
# same failure kinds as "hist"): pair constructed before anything is walked; one pair used
# incrementally for a growing list
HIST_PROTOCOLS = ("hist-early", "hist-incr")
PROTOCOL_FAMILIES = ("triples", "wrapped", "wide")

X, Y, ONE, TWO, F = V("x"), V("y"), C(1), C(2), V("f")
LEAVES = [X, Y, ONE, TWO]
BIN = ("Sum", "Product", "Quotient", "Power")


def mk(tag, a, b):
    return (tag, T(a, b)) if tag in COMMUTATIVE else (tag, a, b)


# {{{ pools

def depth2_pool(leaves, nary_leaves, call2):
    out = []
    for tag in BIN:
        for a in leaves:
            for b in leaves:
                out.append(mk(tag, a, b))
    for a in leaves:
        out.append(Call(F, a))
    if call2:
        for a in leaves:
            for b in leaves:
                out.append(Call(F, a, b))
    for tag in COMMUTATIVE:
        for combo in itertools.product(nary_leaves, repeat=3):
            out.append((tag, T(*combo)))
    return out


def depth3_pool(core, fill):
    out = []
    for tag in BIN:
        for k in core:
            for leaf in fill:
                out.append(mk(tag, k, leaf))
                out.append(mk(tag, leaf, k))
        for k1 in core:
            for k2 in core:
                out.append(mk(tag, k1, k2))
    for k in core:
        out.append(Call(F, k))
    return out


CORE_Q = [Sum(X, Y), Sum(Y, X), Prod(X, Y), Call(F, X)]
CORE_T = [*CORE_Q, Prod(Y, X), Quot(X, Y), Pow(X, TWO), Sum(X, ONE), Prod(TWO, X), Call(F, Y)]
FILL = [X, TWO]


def _uniq(xs):
    seen = set()
    out = []
    for x in xs:
        if x not in seen:
            seen.add(x)
            out.append(x)
    return out


def pool(tier):
    if tier == "quick":
        return _uniq(LEAVES + depth2_pool(LEAVES, [X, Y], False) + depth3_pool(CORE_Q, FILL))
    return _uniq(LEAVES + depth2_pool(LEAVES, [X, Y, TWO], True) + depth3_pool(CORE_T, FILL))


def triple_pool(tier):
    sxy, syx, fx = Sum(X, Y), Sum(Y, X), Call(F, X)
    base = [X, sxy, syx, Prod(X, Y), fx, Sum(X, X, Y), Sum(X, Y, X), Sum(X, Y, Y)]
    for c in (sxy, syx):
        base += [Prod(c, TWO), Prod(TWO, c), Call(F, c), Pow(c, TWO), Quot(TWO, c)]
    base += [Prod(sxy, syx), Sum(Prod(X, Y), fx), Quot(fx, fx), Pow(sxy, sxy), Sum(fx, sxy)]
    if tier == "thorough":
        base += depth3_pool([sxy, syx, Prod(X, Y), fx], [TWO])[: 2 * (4 * 2 + 16)]   # Sum, Product
        base += [Prod(Y, X), Prod(Y, X, TWO), Prod(TWO, X, Y), Call(F, X, Y), Call(F, Y, X)]
    return _uniq(base)


def wrapped_pool(tier):
    """Inputs that already contain wrappers: with/without prefix, each scope, nested, beneath and
    around operations."""
    bases = [Sum(X, Y), Sum(Y, X)] + ([Call(F, X)] if tier == "thorough" else [])
    out = []
    for b in bases:
        forms = [b, CSE(b), CSE(b, "p"), CSE(b, "q"), CSE(b, None, SCOPE_EXPR),
                 CSE(b, "p", SCOPE_GLOBAL), CSE(CSE(b)), Prod(CSE(b), TWO)]
        if tier == "thorough":
            forms += [CSE(CSE(b, "p")), CSE(CSE(b), "p"), Prod(b, TWO), CSE(Prod(b, TWO)),
                      CSE(Prod(CSE(b), TWO)), CSE(Prod(CSE(b, "p"), TWO), "q")]
        out += forms
    return _uniq(out)

# }}}


# {{{ oracle side: keys, environments, values

def eparts(s):
    """Expression children of a node and the function that rebuilds it from new children."""
    t = s[0]
    if t in COMMUTATIVE:
        return list(s[1][1:]), lambda ch: (t, ("tuple", *ch))
    if t in ("Quotient", "Power"):
        return [s[1], s[2]], lambda ch: (t, ch[0], ch[1])
    if t == "Call":
        return list(s[2][1:]), lambda ch: (t, s[1], ("tuple", *ch))
    if t == WRAP:
        return [s[1]], lambda ch: (t, ch[0], s[2], s[3])
    return [], None


def strip(s):
    """The expression without any wrapper."""
    if s[0] == WRAP:
        return strip(s[1])
    ch, re = eparts(s)
    if not ch:
        return s
    return re([strip(c) for c in ch])


def shallow_key(s):
    """'the same operands in another order': operand multiset, operands compared exactly."""
    if s[0] in COMMUTATIVE:
        return (s[0], tuple(sorted(s[1][1:], key=repr)))
    return s


def deep_key(s):
    """Equality up to operand order at every level (a coarsening of shallow_key)."""
    ch, re = eparts(s)
    if not ch:
        return s
    ch = [deep_key(c) for c in ch]
    if s[0] in COMMUTATIVE:
        ch = sorted(ch, key=repr)
    return re(ch)


def nodes(s):
    yield s
    for c in eparts(s)[0]:
        yield from nodes(c)


def input_classes(specs):
    """deep key -> {one-level key: occurrences}, and deep key -> set of exact forms.  The deep key
    ignores wrappers and operand order at every level; the one-level key compares the operands
    exactly as written (so an operand and its wrapped twin are different operands)."""
    classes, forms = {}, {}
    for s in specs:
        for n in nodes(s):
            if n[0] in LISTED:
                d = deep_key(strip(n))
                cl = classes.setdefault(d, {})
                k = shallow_key(n)
                cl[k] = cl.get(k, 0) + 1
                forms.setdefault(d, set()).add(n)
    return classes, forms


def function_names(specs):
    out = set()
    for s in specs:
        for n in walk(s):
            if n[0] == "Call" and n[1][0] == "Variable":
                out.add(n[1][1][1])
    return out


def value_names(specs):
    out = []
    for s in specs:
        for n in walk(s):
            if n[0] == "Variable" and n[1][1] not in out:
                out.append(n[1][1])
    return out


class ListCtx:
    """Everything about an input list that does not depend on the tagger (computed once)."""

    def __init__(self, specs):
        self.specs = specs
        self.funcs = sorted(function_names(specs))
        self.names = sorted(value_names(specs))
        self.classes, self.forms = input_classes(specs)
        self.asserted = {d for d, cl in self.classes.items() if max(cl.values()) >= 2}
        self._venv = {}
        self._want = {}

    def env(self, xy, counter):
        env = {}
        extra = 0
        for name in self.names:
            if name in self.funcs:
                i = self.funcs.index(name)
                env[name] = make_f(counter, name, weights=(2 + i, 3 + i, 5 + i))
            elif name == "x":
                env[name] = xy[0]
            elif name == "y":
                env[name] = xy[1]
            else:
                env[name] = EXTRA_VALUES[extra % len(EXTRA_VALUES)]
                extra += 1
        return env

    def value_env(self, xy):
        e = self._venv.get(xy)
        if e is None:
            e = self._venv[xy] = self.env(xy, Counter())
        return e

    def want(self, xy):
        """Reference outcomes of the inputs."""
        w = self._want.get(xy)
        if w is None:
            env = self.value_env(xy)
            w = self._want[xy] = [refsem.outcome(refsem.evaluate, s, env) for s in self.specs]
        return w


_CTX = {}


def ctx_for(specs):
    c = _CTX.get(specs)
    if c is None:
        if len(_CTX) > 2000:
            _CTX.clear()
        c = _CTX[specs] = ListCtx(specs)
    return c


def make_env(specs, xy, counter):
    return ctx_for(tuple(specs)).env(xy, counter)


def same_value(a, b):
    if isinstance(a, np.ndarray) or isinstance(b, np.ndarray):
        return (isinstance(a, np.ndarray) and isinstance(b, np.ndarray) and a.shape == b.shape
                and bool(np.allclose(a, b, rtol=REL_TOL, atol=1e-12)))
    inexact = (float, complex)
    if isinstance(a, inexact) or isinstance(b, inexact):
        try:
            return cmath.isclose(a, b, rel_tol=REL_TOL, abs_tol=1e-12)
        except Exception:  # noqa: BLE001
            return False
    return refsem.values_equal(a, b)


def double_wrappers(s):
    """Number of wrappers whose child is a wrapper."""
    return sum(1 for n in nodes(s) if n[0] == WRAP and n[1][0] == WRAP)


def indirectly_wrapped(s, d, inside=False, sep=False):
    """Does a node of deep class *d* lie below a wrapper from which an operation separates it?"""
    if s[0] in LISTED and sep and deep_key(strip(s)) == d:
        return True
    w = s[0] == WRAP
    return any(indirectly_wrapped(c, d, inside or w, sep or (inside and not w))
               for c in eparts(s)[0])


def unwrapped_occurrences(s, wanted, below=False):
    """Occurrences of nodes whose deep key is in *wanted* that are not in or below a wrapper."""
    out = []
    if s[0] in LISTED and not below and deep_key(strip(s)) in wanted:
        out.append(s)
    for c in eparts(s)[0]:
        out += unwrapped_occurrences(c, wanted, below or s[0] == WRAP)
    return out

# }}}


# {{{ code under test: the two taggers, the rec-intercepting evaluator

def run_tagger(tagger, exprs):
    if tagger == "tag":
        from pymbolic.cse import tag_common_subexpressions
        return list(tag_common_subexpressions(exprs))
    from pymbolic.mapper.cse_tagger import CSETagMapper, CSEWalkMapper
    wm = CSEWalkMapper()
    if tagger == "hist":                    # walk everything, then construct the tag mapper
        for e in exprs:
            wm(e)
        tm = CSETagMapper(wm)
    elif tagger == "hist-early":            # construct the pair first, feed it afterwards
        tm = CSETagMapper(wm)
        for e in exprs:
            wm(e)
    elif tagger == "hist-incr":             # growing list: tag after every new expression
        tm = CSETagMapper(wm)
        for n, e in enumerate(exprs):
            wm(e)
            if n + 1 < len(exprs):
                [tm(e2) for e2 in exprs[:n + 1]]        # intermediate results are discarded
    else:
        raise ValueError(tagger)
    return [tm(e) for e in exprs]


_REC_CLS = None


def rec_counting_cls():
    global _REC_CLS
    if _REC_CLS is None:
        from pymbolic.mapper.evaluator import EvaluationMapper

        class RecCounting(EvaluationMapper):
            def __init__(self, context):
                EvaluationMapper.__init__(self, context)
                self.vf_log = []

            def rec(self, expr, *args, **kwargs):
                self.vf_log.append(expr)
                return EvaluationMapper.rec(self, expr, *args, **kwargs)

            __call__ = rec
        _REC_CLS = RecCounting
    return _REC_CLS

# }}}


# {{{ Engine A: one list through one tagger

def check_list(specs, tagger, aspects=("shape", "value", "share"), res=None, verdicts=None):
    """-> list of (kind, detail); empty = the property holds on this list."""
    import pymbolic.primitives as p
    out = []
    lab = tagger.split("-")[0]            # set-up orders of the histogram tagger share its kinds
    try:
        exprs = [build(s) for s in specs]
    except Exception:  # noqa: BLE001
        return out
    ctx = ctx_for(specs)
    o = refsem.outcome(run_tagger, tagger, exprs)
    if res is not None:
        res.evals += 1
    if o[0] == "err":
        return [(f"{lab}:raises:{o[1]}", f"{o[1]}: {o[2]}")]
    tagged = o[1]
    if len(tagged) != len(specs):
        return [(f"{lab}:length", f"{len(specs)} expressions in, {len(tagged)} out")]
    try:
        tspecs = [to_spec(t) for t in tagged]
    except Exception as e:  # noqa: BLE001
        return [(f"{lab}:malformed-output", f"{type(e).__name__}: {e}")]
    shown = "[" + ", ".join(show(t) for t in tspecs) + "]"
    if verdicts is not None:
        # the verdict is a function of (inputs, outputs): another set-up order of the same tagger
        # that returns strictly equal outputs is judged once
        vkey = (lab, tuple(tspecs))
        if vkey in verdicts:
            return verdicts[vkey]
        verdicts[vkey] = out

    if "shape" in aspects:
        for i, (s, t) in enumerate(zip(specs, tspecs)):
            if double_wrappers(t) > double_wrappers(s):
                out.append((f"{lab}:cse-of-cse",
                            f"output {i} has a wrapper directly around a wrapper: {show(t)}"))
                break

    if "value" in aspects:
        done = False
        for xy in BOX:
            wants = ctx.want(xy)
            for i, (s, t) in enumerate(zip(specs, tspecs)):
                want = wants[i]
                if want[0] == "err":
                    continue                      # not a meaningful environment for this input
                got = refsem.outcome(refsem.evaluate, t, ctx.value_env(xy))
                if got[0] != "ok" or not same_value(want[1], got[1]):
                    out.append((f"{lab}:value",
                                f"x, y = {xy}: input {i} {show(s)} has value "
                                f"{refsem.show_outcome(want)}, output {show(t)} has "
                                f"{refsem.show_outcome(got)}"))
                    done = True
                    break
            if done:
                break

    if "share" in aspects:
        wants = ctx.want(ENV0)
        if all(w[0] == "ok" for w in wants):
            counter = Counter()
            ev = rec_counting_cls()(ctx.env(ENV0, counter))
            gots = [refsem.outcome(ev, t) for t in tagged]         # ONE evaluator instance
            if res is not None:
                res.evals += len(tagged)
            bad = [i for i, (w, g) in enumerate(zip(wants, gots))
                   if g[0] != "ok" or not same_value(w[1], g[1])]
            if bad:
                i = bad[0]
                out.append((f"{lab}:value-evaluator",
                            f"one evaluator over {shown}: output {i} gives "
                            f"{refsem.show_outcome(gots[i])}, the input's value is "
                            f"{refsem.show_outcome(wants[i])}"))
            else:
                memo = {}
                evals = Multiset()
                n_calls = 0
                for e in ev.vf_log:
                    if not isinstance(e, p.Expression):
                        continue
                    d = memo.get(id(e))
                    if d is None:
                        sp = to_spec(e)
                        d = memo[id(e)] = deep_key(strip(sp)) if sp[0] in LISTED else False
                    if d is not False:
                        evals[d] += 1
                        if d[0] == "Call":
                            n_calls += 1
                if n_calls != len(counter.calls):
                    out.append((f"{lab}:call-count",
                                f"{n_calls} call nodes went through rec, the environment's "
                                f"functions were called {len(counter.calls)} times"))
                classes, forms, asserted = ctx.classes, ctx.forms, ctx.asserted
                shared_fail = False
                for d in sorted(asserted, key=repr):
                    bound = len(classes[d])
                    n = evals.get(d, 0)
                    if n > bound:
                        feat = ("commuted-only" if n <= len(forms[d])
                                else "nested" if any(indirectly_wrapped(t, d) for t in tspecs)
                                else "repeat")
                        out.append((f"{lab}:not-shared:{feat}",
                                    f"{show(d)} (up to operand order) occurs "
                                    f"{sum(classes[d].values())} times in the input; evaluating "
                                    f"{shown} with one evaluator computes it {n} times"))
                        shared_fail = True
                        break
                    if n == 0:
                        out.append((f"{lab}:not-evaluated",
                                    f"{show(d)} is never evaluated in {shown}"))
                        break
                if not shared_fail:
                    un = Multiset()
                    first = {}
                    for i, t in enumerate(tspecs):
                        for n in unwrapped_occurrences(t, asserted):
                            d = deep_key(strip(n))
                            un[d] += 1
                            first.setdefault(d, (i, n, t))
                    for d in sorted(un, key=repr):
                        # members of the class that occur once at one level need no wrapper
                        allowed = sum(1 for c in classes[d].values() if c == 1)
                        if un[d] > allowed:
                            i, n, t = first[d]
                            out.append((f"{lab}:not-wrapped",
                                        f"repeated {show(n)} is neither in nor below a "
                                        f"wrapper in output {i}: {show(t)}"))
                            break
    return out


def aspects_for(kind):
    k = kind.split(":")[1]
    if k == "cse-of-cse":
        return ("shape",)
    if k == "value":
        return ("value",)
    if k in ("raises", "length", "malformed-output"):
        return ()
    return ("share",)


_MIN_MEMO = {}


def subterm_paths(s, prefix=()):
    yield prefix, s
    for i, c in enumerate(eparts(s)[0]):
        yield from subterm_paths(c, (*prefix, i))


def replace_at(s, path, new):
    if not path:
        return new
    ch, re = eparts(s)
    ch[path[0]] = replace_at(ch[path[0]], path[1:], new)
    return re(ch)


def replace_all(s, old, new):
    if s == old:
        return new
    ch, re = eparts(s)
    if not ch:
        return s
    return re([replace_all(c, old, new) for c in ch])


def candidates(cur):
    """Smaller / more general lists, most aggressive first."""
    n = len(cur)
    if n > 1:
        for i in range(n):
            yield cur[:i] + cur[i + 1:]
    # an element replaced by its operands (as separate elements), or by one operand
    for i in range(n):
        ch = eparts(cur[i])[0]
        if ch and n - 1 + len(ch) <= 6:
            yield cur[:i] + tuple(ch) + cur[i + 1:]
    # a node replaced by one of its operands / an n-ary node losing one operand
    for i in range(n):
        for path, sub in subterm_paths(cur[i]):
            ch, re = eparts(sub)
            for c in ch:
                yield cur[:i] + (replace_at(cur[i], path, c),) + cur[i + 1:]
            if sub[0] in COMMUTATIVE and len(ch) > 2:
                for j in range(len(ch)):
                    yield cur[:i] + (replace_at(cur[i], path, re(ch[:j] + ch[j + 1:])),) \
                        + cur[i + 1:]
            if sub[0] == WRAP:
                simpler = [(WRAP, sub[1], NONE, sub[3]), (WRAP, sub[1], sub[2], SCOPE_EVAL)]
                if sub[2] not in (NONE, S("p")):
                    simpler.append((WRAP, sub[1], S("p"), sub[3]))
                for w in simpler:
                    if w != sub:
                        yield cur[:i] + (replace_at(cur[i], path, w),) + cur[i + 1:]
    # every occurrence of one composite subterm / one constant replaced by a fresh variable
    used = set(value_names(cur))
    k = 0
    while f"w{k}" in used:
        k += 1
    fresh = V(f"w{k}")
    subs = []
    for e in cur:
        for _, sub in subterm_paths(e):
            if (eparts(sub)[0] or sub[0] in ("int", "float", "bool")) and sub not in subs:
                subs.append(sub)
    subs.sort(key=lambda s: -len(repr(s)))
    for sub in subs:
        yield tuple(replace_all(e, sub, fresh) for e in cur)


def minimise(specs, kind, tagger):
    key = (tagger, kind, specs)
    if key in _MIN_MEMO:
        return _MIN_MEMO[key]
    aspects = aspects_for(kind)

    def bad(c):
        return any(k == kind for k, _ in check_list(tuple(c), tagger, aspects))

    cur = tuple(specs)
    budget = MINIMISE_BUDGET
    trail = [cur]
    changed = True
    while changed and budget > 0:
        hit = _MIN_MEMO.get((tagger, kind, cur))
        if hit is not None:
            cur = hit
            break
        changed = False
        for cand in candidates(cur):
            if cand == cur:
                continue
            budget -= 1
            if budget <= 0:
                break
            if bad(cand):
                cur = cand
                trail.append(cur)
                changed = True
                break
    for t in trail:
        _MIN_MEMO[(tagger, kind, t)] = cur
    _MIN_MEMO[key] = cur
    return cur


def list_signature(kind, specs):
    mapping = {}
    return f"{kind}|[" + ", ".join(show(canon_vars(s, mapping)) for s in specs) + "]"

# }}}


# {{{ wrapping helpers

HELPERS = ("wrap_in_cse", "make_common_subexpression")
SCOPES = (None, "pymbolic_eval", "pymbolic_expr", "pymbolic_global")
PREFIXES = (None, "p")
MV_DIM = 2


def helper_scalars():
    from vf import gen
    arr = V("arr")
    out = [X, C(1), C(0), C(2.5), C(True), Sub(arr, X), Sub(arr, T(X, Y)),
           ("Lookup", V("obj"), S("a"))]
    for c in gen.ALL_CTORS:
        if c.tag in ("tuple", "list", "array", WRAP) or not c.slots:
            continue
        s = c(*gen.fill_slots(c))
        if s not in out:
            out.append(s)
    for prefix in (None, "p", "q"):
        for scope in (SCOPE_EVAL, SCOPE_EXPR, SCOPE_GLOBAL):
            out.append(CSE(Sum(X, Y), prefix, scope))
    out.append(CSE(X))
    out.append(CSE(CSE(Sum(X, Y))))
    return out


ENTRIES = [X, C(1), Sum(X, Y), Sub(V("arr"), X), CSE(Sum(X, Y)), CSE(Sum(X, Y), "q", SCOPE_GLOBAL)]


def helper_inputs():
    for s in helper_scalars():
        yield s
    for a, b in itertools.product(ENTRIES, repeat=2):
        yield ("array", (2,), a, b)
    for a, b in itertools.product(ENTRIES, repeat=2):
        yield ("array", (2, 1), a, b)
        yield ("array", (1, 2), a, b)
    yield ("array", (2, 2), ENTRIES[0], ENTRIES[1], ENTRIES[2], ENTRIES[4])
    yield ("array", (3,), ENTRIES[2], ENTRIES[3], ENTRIES[5])
    for a in ENTRIES:
        yield ("mv", (1, a))
    for a, b in itertools.product(ENTRIES, repeat=2):
        yield ("mv", (0, a), (3, b))


FRESH_MODES = ("fresh-input", "fresh-arg", "fresh-both")


def has_wrapper(s):
    if s[0] == "mv":
        return any(has_wrapper(c) for _, c in s[1:])
    return any(n[0] == WRAP for n in walk(s))


def unshared(v):
    """An equal string that is a new, non-interned object (what a scope name is after a pickle
    round trip, or when it is read from a file / built at run time)."""
    w = "".join(list(v))
    assert w == v and (w is not v or len(v) < 2)
    return w


def with_strings(s, f):
    """The spec with every string payload passed through *f* (sys.intern or unshared)."""
    if not isinstance(s, tuple):
        return s
    if s and s[0] == "str":
        return ("str", f(s[1]))
    return tuple(with_strings(c, f) for c in s)


def build_h(s):
    if s[0] == "mv":
        from pymbolic.geometric_algebra import MultiVector, get_euclidean_space
        return MultiVector({bits: build(c) for bits, c in s[1:]}, get_euclidean_space(MV_DIM))
    return build(s)


def entry_kind(s):
    if s[0] in ("int", "float", "bool", "complex"):
        return "constant"
    if s[0] in ("Variable", "Subscript"):
        return s[0]
    if s[0] == WRAP:
        return "CSE"
    return f"composite:{s[0]}"


def conform(helper, s, got, prefix, scope, where, exact_prefix):
    """Deviations of *got* from what the statement says about input *s*: [(entry, what, detail)]."""
    import pymbolic.primitives as p
    from pymbolic.geometric_algebra import MultiVector
    if s[0] in ("array", "mv"):
        if s[0] == "array":
            ok = isinstance(got, np.ndarray) and got.dtype.char == "O" and got.shape == s[1]
            if ok:
                pairs = list(zip(s[2:], [got[i] for i in np.ndindex(s[1])]))
        else:
            ok = isinstance(got, MultiVector) and sorted(got.data) == sorted(b for b, _ in s[1:])
            if ok:
                pairs = [(c, got.data[b]) for b, c in s[1:]]
        if not ok:
            return [("-", "not-componentwise",
                     f"result is {type(got).__name__}: {str(got)[:80]}")]
        out = []
        for c, g in pairs:
            out += conform(helper, c, g, prefix, scope, where, False)
        return out
    kind = entry_kind(s)
    s = sort_maps(s)
    try:
        gs = sort_maps(to_spec(got))
    except Exception as e:  # noqa: BLE001
        return [(kind, "malformed", f"{type(e).__name__}: {e}")]
    if kind in ("constant", "Variable", "Subscript"):
        if gs == s:
            return []
        if gs[0] == WRAP and gs[1] == s:
            return [(kind, "wrapped", f"{show(s)} became {show(gs)}")]
        return [(kind, "changed", f"{show(s)} became {show(gs)}")]
    if kind == "CSE":
        if gs == s or (gs[0] == WRAP and gs[1] == s[1]):
            return []                       # unwrapped: as it was, or re-labelled around the child
        if gs[0] == WRAP and gs[1] == s:
            # the recorded API behaviour is re-wrapping for a DIFFERENT non-default scope only
            needless = scope is None or scope == "pymbolic_eval" or scope == s[3][1]
            return [(kind, ("rewrapped-needlessly" if needless else "rewrapped")
                     + f":scope-arg={scope}:inner-scope={s[3][1]}",
                     f"{show(s)} became {show(gs)}")]
        return [(kind, "changed", f"{show(s)} became {show(gs)}")]
    if gs[0] != WRAP:
        return [(kind, "not-wrapped", f"{show(s)} became {show(gs)}")]
    if gs[1] != s:
        return [(kind, "wrong-child", f"{show(s)} became {show(gs)}")]
    gp = None if gs[2] == NONE else gs[2][1]
    if (gp != prefix) if exact_prefix else ((gp is None) != (prefix is None)
                                            or (gp is not None and not gp.startswith(prefix))):
        return [(kind, "wrong-prefix", f"prefix {prefix!r} requested: {show(gs)}")]
    if helper == "make_common_subexpression" and gs[3][1] != (scope or "pymbolic_eval"):
        return [(kind, "wrong-scope", f"scope {scope!r} requested: {show(gs)}")]
    return []


def check_helper(item, res):
    import pickle
    import sys

    import pymbolic.primitives as p
    _, helper, s, prefix, scope = item[:5]
    mode = item[5] if len(item) > 5 else "interned"
    # items travel through pickle / JSON: make the identity of every scope string explicit
    obj = build_h(with_strings(s, sys.intern))
    if scope is not None:
        scope = sys.intern(scope)
    if mode in ("fresh-input", "fresh-both"):
        obj = pickle.loads(pickle.dumps(build_h(with_strings(s, unshared))))
    if mode in ("fresh-arg", "fresh-both") and scope is not None:
        scope = unshared(scope)
    res.evals += 1
    if helper == "wrap_in_cse":
        o = refsem.outcome(p.wrap_in_cse, obj, prefix)
    else:
        o = refsem.outcome(p.make_common_subexpression, obj, prefix, scope)
    where = {"array": "array", "mv": "multivector"}.get(s[0], "scalar")
    if o[0] == "err":
        devs = [(entry_kind(s) if where == "scalar" else "-", f"raises:{o[1]}", o[2])]
    else:
        devs = conform(helper, s, o[1], prefix, scope, where, True)
    seen = set()
    for entry, what, detail in devs:
        sig = (f"helper|{helper}|{where}" + ("" if mode == "interned" else f"/{mode}")
               + f"|{entry}|{what}")
        if sig in seen:
            continue
        seen.add(sig)
        res.fail(f"helper:{what.split(':')[0]}", sig,
                 f"{helper}({show_h(s)}, prefix={prefix!r}"
                 + (f", scope={scope!r}" if helper != "wrap_in_cse" else "") + f"): {detail}",
                 witness=item)
    res.keys.append(item)


def show_h(s):
    if s[0] == "mv":
        return "MultiVector{" + ", ".join(f"{b}: {show(c)}" for b, c in s[1:]) + "}"
    return show(s)

# }}}


# {{{ Engine B: evaluator histories

FX = Call(F, X)
W, WP, WE = CSE(FX), CSE(FX, "p"), CSE(FX, None, SCOPE_EXPR)
N1 = CSE(Sum(CSE(Prod(X, Y)), Call(F, CSE(Prod(X, Y)))))
SCENARIOS = {
    # name: (how the evaluated expressions are obtained, input specs)
    "tagged": ("tag", [
        Prod(Call(F, Sum(X, Y)), TWO), Sum(Call(F, Sum(X, Y)), Sum(Y, X)),
        Quot(Sum(X, Y), Call(F, Sum(X, Y))), Pow(Prod(X, Y), Prod(Y, X)),
        Sum(Prod(X, Y), FX, FX)]),
    "tagged-rebuilt": ("tag-rebuilt", [
        Prod(Call(F, Sum(X, Y)), TWO), Sum(Call(F, Sum(X, Y)), Sum(Y, X)),
        Quot(Sum(X, Y), Call(F, Sum(X, Y))), Pow(Prod(X, Y), Prod(Y, X)),
        Sum(Prod(X, Y), FX, FX)]),
    "tagged-prewrapped": ("tag-rebuilt", [
        CSE(Call(F, Sum(X, Y)), "p"), Call(F, Sum(X, Y)), Prod(CSE(Sum(Y, X)), TWO),
        CSE(CSE(Sum(X, Y)), None, SCOPE_GLOBAL), Sum(Call(F, Sum(Y, X)), CSE(FX, "q"), FX)]),
    "hist-tagged": ("hist", [
        Prod(Call(F, Sum(X, Y)), TWO), Prod(Call(F, Sum(X, Y)), TWO), Call(F, Sum(X, Y)),
        Sum(Call(F, Sum(X, Y)), Sum(Y, X)), Sum(FX, FX, CSE(FX))]),
    "hand-placed": ("asis", [
        Sum(W, W), Prod(WP, Y), Sum(WE, W), CSE(Sum(W, ONE)), Sum(CSE(Sum(W, ONE)), FX)]),
    "hand-nested": ("asis", [
        N1, Prod(N1, N1), CSE(Prod(X, Y)), Quot(N1, CSE(Prod(X, Y), "q")), Call(F, N1)]),
}
# wrappers whose child evaluates to a boundary value (None / falsy / empty): g returns the value,
# h accepts anything and returns 1 + its number of arguments; both record their calls
G, H = V("g"), V("h")
WG = CSE(Call(G, X))
BOUNDARY_RESULTS = {"none": None, "zero": 0, "false": False, "empty": ()}
for _k in BOUNDARY_RESULTS:
    SCENARIOS[f"boundary-{_k}"] = ("asis", [
        WG, Call(H, WG, WG), Sum(Call(H, WG), Call(H, CSE(Call(G, X), "p")), Y)])
# value kinds of the environment: exact numbers, or mutable values with in-place operators
# (numpy float arrays; every environment gets fresh array objects)
ENVSETS = ("numbers", "arrays")
ARRAY_SCENARIOS_QUICK = ("tagged", "hand-placed", "hand-nested")     # thorough: every scenario
ENVS_ARRAYS = (((2.0, 0.5), (3.0, 4.0)), ((1.0, 3.0), (0.5, 2.0)), ((4.0, 1.0), (1.0, 0.25)))
# instance k gets ENVS_B[k % 4]; the first one makes the shared x + y evaluate to 0 (a falsy
# cached value must still be a cache hit)
ENVS_B = ((3, -3), (2, 3), (3, 5), (Fraction(1, 2), Fraction(3, 2)))
# plain / memoizing stock evaluators; "legacy": a user subclass of EvaluationMapper whose __init__
# only stores the context; "mixin": a minimal evaluator of our own on CSECachingMapperMixin
KINDS_B = ("plain", "cached", "legacy", "mixin")


def scenario_exprs(name):
    how, specs = SCENARIOS[name]
    exprs = [build(s) for s in specs]
    if how == "asis":
        return specs, exprs
    out = run_tagger("hist" if how == "hist" else "tag", exprs)
    if how == "tag-rebuilt":
        out = [build(to_spec(e)) for e in out]        # equal, but no object shared any more
    return specs, out


_INSTR = {}


def instrumented(kind):
    """Subclass of the stock evaluator logging every handler invocation."""
    if kind not in _INSTR:
        from pymbolic.mapper.evaluator import CachedEvaluationMapper, EvaluationMapper
        if kind == "legacy":
            class LegacyEvaluator(EvaluationMapper):
                def __init__(self, context):            # does not chain up
                    self.context = context
            cls = LegacyEvaluator
        elif kind == "mixin":
            cls = mini_evaluator_cls()
        else:
            cls = EvaluationMapper if kind == "plain" else CachedEvaluationMapper
        ns = {}
        for name in dir(cls):
            if not name.startswith("map_") or name == "map_foreign":
                continue
            orig = getattr(cls, name)
            if not callable(orig):
                continue

            def w(self, expr, *a, _orig=orig, **k):
                self.vf_log.append(expr)
                return _orig(self, expr, *a, **k)
            ns[name] = w
        _INSTR[kind] = type("I_" + cls.__name__, (cls,), ns)
    return _INSTR[kind]


def mini_evaluator_cls():
    """The smallest evaluator for the fragment that relies on CSECachingMapperMixin alone."""
    from pymbolic.mapper import CSECachingMapperMixin, RecursiveMapper

    class MiniEvaluator(RecursiveMapper, CSECachingMapperMixin):
        def __init__(self, context):
            self.context = context

        def map_constant(self, expr):
            return expr

        def map_variable(self, expr):
            return self.context[expr.name]

        def map_sum(self, expr):
            acc = 0
            for c in expr.children:
                acc = acc + self.rec(c)
            return acc

        def map_product(self, expr):
            acc = 1
            for c in expr.children:
                acc = acc * self.rec(c)
            return acc

        def map_quotient(self, expr):
            return self.rec(expr.numerator) / self.rec(expr.denominator)

        def map_power(self, expr):
            return self.rec(expr.base) ** self.rec(expr.exponent)

        def map_call(self, expr):
            return self.rec(expr.function)(*[self.rec(c) for c in expr.parameters])

        def map_common_subexpression_uncached(self, expr):
            return self.rec(expr.child)
    return MiniEvaluator


def canon_b(hist):
    """Instances in order of creation, each with the expressions evaluated on it (exact repeats
    dropped: a repeat leaves the per-instance tables unchanged, which is observed -- result and
    counts are judged -- on every such transition before it is merged)."""
    segs = []
    for i, how in hist:
        if how != "reuse" or not segs:
            segs.append((how, [i]))
        elif i not in segs[-1][1]:
            segs[-1][1].append(i)
    return tuple((h, tuple(xs)) for h, xs in segs)


# {{{ wide expressions, several evaluator instances alive at the same time

def wide_inputs(n):
    """[f(x+0) + ... + f(x+n-1) + f(x+0),  f(x+0) * ... * f(x+n-1)]"""
    terms = [Call(F, Sum(X, C(i))) for i in range(n)]
    return [("Sum", T(*terms, terms[0])), ("Product", T(*terms))], terms


WIDE_LABELS = ("sum-of-all-then-first", "product-of-all", "first-wrapper")


def live_kind_pairs(tier):
    if tier == "quick":
        return [("plain", "plain"), ("plain", "cached"), ("legacy", "mixin")]
    return [(a, b) for i, a in enumerate(KINDS_B) for b in KINDS_B[i:]]


def explore_live(width, kinds, res):
    """BFS over histories on TWO evaluator instances that stay alive: menu = evaluate wide
    expression i on instance j.  Every transition replays its history on two fresh instances and
    judges the instance it touched against refsem and the once-per-wrapper model."""
    import pymbolic.primitives as p
    inputs, terms = wide_inputs(width)
    specs = [*inputs, terms[0]]
    tagged = run_tagger("tag", [build(s) for s in inputs])
    exprs = [*tagged, build(CSE(terms[0]))]
    especs = [to_spec(e) for e in exprs]
    keymemo = {}

    def key_of(e):
        k = keymemo.get(id(e))
        if k is None:
            k = keymemo[id(e)] = to_spec(e)
        return k

    def env_of(j, counter):
        return make_env(specs, ENVS_B[1 + j], counter)

    want_memo, model_memo = {}, {}

    def want_of(i, j):
        if (i, j) not in want_memo:
            want_memo[i, j] = refsem.outcome(refsem.evaluate, specs[i], env_of(j, Counter()))
        return want_memo[i, j]

    def model_of(j, seq):
        if (j, seq) not in model_memo:
            rcounter = Counter()
            rlog = []
            ref = refsem.Ref(env_of(j, rcounter), hook=lambda s, v: rlog.append(s),
                             cse_once=True)
            for i in seq:
                refsem.outcome(ref, especs[i])
            model_memo[j, seq] = (Multiset(rlog),
                                  Multiset((f, freeze(a)) for f, a, _ in rcounter.calls))
        return model_memo[j, seq]

    menu = [(i, j) for i in range(len(exprs)) for j in range(len(kinds))]

    def fmt(h):
        return "[" + "; ".join(f"{WIDE_LABELS[i]}@{kinds[j]}#{j}" for i, j in h) + "]"

    def step(hist):
        counters = [Counter() for _ in kinds]
        insts = []
        for j, kind in enumerate(kinds):                # all instances alive from the start
            inst = instrumented(kind)(env_of(j, counters[j]))
            inst.vf_log = []
            insts.append(inst)
        seqs = [[] for _ in kinds]
        for i, j in hist:
            got = refsem.outcome(insts[j], exprs[i])
            seqs[j].append(i)
            res.evals += 1
        want = want_of(i, j)
        model, cm = model_of(j, tuple(seqs[j]))
        if want[0] != "ok" or got[0] != "ok" or not same_value(want[1], got[1]):
            return (("value", f"{fmt(hist)}: the last evaluation returns "
                     f"{refsem.show_outcome(got)[:80]}; reference "
                     f"{refsem.show_outcome(want)[:80]}"), None)
        impl = Multiset(key_of(e) for e in insts[j].vf_log if isinstance(e, p.Expression))
        for k in sorted(impl, key=repr):
            if k[0] in LISTED and impl[k] > model[k]:
                return (("recomputed", f"in {fmt(hist)} instance #{j} computes {show(k)[:120]} "
                         f"{impl[k]} times; computing each distinct wrapper's child once needs "
                         f"{model[k]}"), None)
        ci = Multiset((n, freeze(a)) for n, a, _ in counters[j].calls)
        if ci - cm:
            extra = sorted((ci - cm).items(), key=repr)[:3]
            return (("recomputed-call", f"in {fmt(hist)} instance #{j} calls the environment's "
                     f"functions more often than the once-only model, e.g. {extra}"), None)
        return None, repr(got[1])[:40]

    ex = bfs(menu, step, LIVE_DEPTH)
    res.count("states", ex.states)
    res.count("transitions", ex.transitions)
    res.count("histories", ex.transitions)
    res.count("max_depth", ex.max_depth)
    res.keys.extend(("live", width, kinds, n) for n in range(ex.states))
    for hist, kind, detail in ex.violations:
        res.fail(f"live:{kind}", f"live:{kind}|width={width}|{fmt(hist)}", detail)

# }}}


def freeze(v):
    if isinstance(v, np.ndarray):
        return ("nd", tuple(v.tolist()))
    if isinstance(v, tuple):
        return tuple(freeze(c) for c in v)
    return v


def history_env(name, specs, envset, n_inst, counter):
    """A fresh environment for instance number *n_inst* of a scenario."""
    if envset == "arrays":
        a, b = ENVS_ARRAYS[n_inst % len(ENVS_ARRAYS)]
        xy = (np.array(a), np.array(b))
    else:
        xy = ENVS_B[n_inst % len(ENVS_B)]
    env = make_env(specs, xy, counter)
    if name.startswith("boundary-"):
        value = BOUNDARY_RESULTS[name[len("boundary-"):]]

        def g(*a):
            counter.calls.append(("g", a, ()))
            return value

        def h(*a):
            counter.calls.append(("h", a, ()))
            return 1 + len(a)
        env["g"], env["h"] = g, h
    return env, xy


def explore_histories(name, first, depth, res, envset="numbers"):
    import pymbolic.primitives as p
    specs, exprs = scenario_exprs(name)
    especs = [to_spec(e) for e in exprs]
    keymemo = {}

    def key_of(e):
        k = keymemo.get(id(e))
        if k is None:
            k = keymemo[id(e)] = to_spec(e)
        return k

    menu = [(i, how) for i in range(len(exprs)) for how in ("reuse", *KINDS_B)]

    def fmt(h):
        return "[" + "; ".join(f"{how}:{show(especs[i])}" for i, how in h) + "]"

    period = len(ENVS_ARRAYS) if envset == "arrays" else len(ENVS_B)
    want_memo, model_memo = {}, {}

    def want_of(i, n):
        """Reference outcome of input i in the environment of instance n (pure: memoised)."""
        k = (i, n % period)
        if k not in want_memo:
            want_memo[k] = refsem.outcome(refsem.evaluate, specs[i],
                                          history_env(name, specs, envset, n, Counter())[0])
        return want_memo[k]

    def model_of(n, seq):
        """Node and call counts of the once-per-wrapper reference model after evaluating the
        expressions *seq* on one model instance in the environment of instance n (memoised)."""
        k = (n % period, seq)
        if k not in model_memo:
            rcounter = Counter()
            rlog = []
            ref = refsem.Ref(history_env(name, specs, envset, n, rcounter)[0],
                             hook=lambda s, v: rlog.append(s), cse_once=True)
            for i in seq:
                refsem.outcome(ref, especs[i])
            model_memo[k] = (Multiset(rlog),
                             Multiset((f, freeze(a)) for f, a, _ in rcounter.calls))
        return model_memo[k]

    def step(hist):
        inst = None
        n_inst = 0
        for i, how in hist:
            if how != "reuse" or inst is None:
                kind = how if how != "reuse" else "plain"
                counter = Counter()
                env, xy = history_env(name, specs, envset, n_inst, counter)
                inst = instrumented(kind)(env)
                inst.vf_log = []
                this_inst = n_inst
                seq = []
                n_inst += 1
            got = refsem.outcome(inst, exprs[i])
            seq.append(i)
            res.evals += 1
        want = want_of(i, this_inst)
        model, cm = model_of(this_inst, tuple(seq))
        if want[0] != "ok" or got[0] != "ok" or not same_value(want[1], got[1]):
            return (("value", f"after {fmt(hist[:-1])}, {fmt(hist[-1:])} with x, y = {xy} "
                     f"returns {refsem.show_outcome(got)}; reference value "
                     f"{refsem.show_outcome(want)}"), None)
        impl = Multiset(key_of(e) for e in inst.vf_log if isinstance(e, p.Expression))
        for k in sorted(impl, key=repr):
            if k[0] in LISTED and impl[k] > model[k]:
                return (("recomputed", f"in {fmt(hist)} the current instance computes "
                         f"{show(k)} {impl[k]} times; computing each distinct wrapper's child "
                         f"once needs {model[k]}"), None)
        for k in sorted(model, key=repr):
            if k[0] == WRAP and impl[k[1]] < 1 and k[1][0] in LISTED:
                return (("never-computed", f"in {fmt(hist)} the current instance never "
                         f"computes the child of {show(k)}"), None)
        ci = Multiset((n, freeze(a)) for n, a, _ in counter.calls)
        if ci - cm:
            return (("recomputed-call", f"in {fmt(hist)} the environment's functions are called "
                     f"{dict(ci)}; the once-only model calls {dict(cm)}"), None)
        return None, repr(got[1])

    root = (first,)
    ex_viol = []
    v, _ = step(root)
    if v is not None:
        ex_viol.append((root, v[0], v[1]))
        res.count("transitions", 1)
        res.count("histories", 1)
        res.count("states", 1)
    else:
        ex = bfs(menu, step, depth, canon=canon_b, root=root)
        res.count("states", ex.states)
        res.count("transitions", ex.transitions + 1)
        res.count("histories", ex.transitions + 1)
        res.count("max_depth", ex.max_depth)
        res.keys.extend((name, envset, first, n) for n in range(ex.states))
        ex_viol = ex.violations
    for hist, kind, detail in ex_viol:
        sig = f"history:{kind}|{name}" + ("" if envset == "numbers" else f"/{envset}") + "|" \
            + ";".join(f"{how}:{show(especs[i])}" for i, how in hist)
        res.fail(f"history:{kind}", sig, detail)

# }}}


class C12(Check):
    pid = "C12"
    level = "model_checking"
    rule = (
        "Engine A: every ordered list of 1 or 2 expressions from a pool (quick 220 / thorough 712: "
        "all depth-2 trees over x y 1 2 with Sum, Product, Quotient, Power, Call, 3-operand sums/"
        "products incl. repeated operands, and depth-3 trees whose operands come from a core set "
        "containing commuted twins), every ordered triple over a reduced pool (23 / 69), and every "
        "list of 1-3 inputs that already contain wrappers (prefix, scope, nested, beneath and "
        "around operations; pool 16 / 42), each through BOTH taggers (triples, pre-wrapped and wide lists additionally through two "
        "other set-up orders of the histogram tagger's walk/tag pair: pair constructed before "
        "anything is walked, and one pair used incrementally for a growing list); "
        "value by the reference evaluator on 5 environments, sharing by ONE rec-intercepting "
        "evaluator with call-counting functions, no wrapper around a wrapper. Helpers: both "
        "helpers x every leaf kind, composite kind, wrapped node, object arrays, multivectors x "
        "prefix x scope, and every wrapper-containing input again with scope strings that are "
        "equal to but not the same object as the cse_scope constants (wrapper pickled and "
        "unpickled / scope argument built at run time / both). Engine B: BFS over evaluator "
        "histories (6 scenarios, plus 4 scenarios whose wrapped call returns a boundary value "
        "-- None, 0, False, () --, x 2 kinds of environment values: exact numbers and mutable "
        "numpy float arrays with in-place operators (quick: 3 of the scenarios; depth 3 in both "
        "tiers), x every first "
        "operation; menu = expression i on the reused instance or on a fresh instance of one of "
        "4 evaluator kinds: stock plain, stock memoizing, a user subclass of EvaluationMapper "
        "whose __init__ only stores the context, a minimal evaluator built on "
        "CSECachingMapperMixin alone; depth 3 quick, 4 thorough), every transition replayed from scratch and judged "
        "against refsem and a once-per-wrapper reference model. Wide dimension: for widths 2, "
        "129, 300 (thorough also 65, 257, 513) the list [f(x+0)+...+f(x+n-1)+f(x+0), "
        "f(x+0)*...*f(x+n-1)] goes through Engine A, and its tagged outputs plus the first wrapper "
        "alone are explored by a BFS (depth 3) over histories on TWO evaluator instances that "
        "stay alive (menu = expression i on instance j; kinds of the pair: 3 quick / all 10 "
        "thorough). Non-trivial: a list with at "
        "least one repeated operation or pre-existing wrapper, any helper case, any history "
        "state; distinct = distinct (family, input).")
    assumptions = [
        "'the same operands in another order' is read at one level (operands compared exactly): "
        "operations that only become equal after reordering deeper levels may but need not be "
        "shared (evaluations of a deep-equality class are bounded by its number of one-level "
        "classes)",
        "values are compared exactly on int/Fraction and with relative tolerance 1e-9 where a "
        "float or complex arises (1/2, x ** (1/2)): the taggers may reorder sums of floats",
        "environments are positive (no expression of the pools raises), commutative numbers",
        "a helper 'leaves a wrapped node unwrapped' if it returns it or a single wrapper around "
        "the same child (re-labelling); a wrapped composite must carry the requested prefix "
        "(component prefixes: must start with it) and the requested scope",
        "Engine B canon: per instance the sequence of evaluated expressions with exact repeats "
        "dropped; sound if a repeat leaves the instance's tables unchanged, observed on every "
        "such transition",
        "the evaluator's context is not mutated by the caller between evaluations on one instance "
        "(every instance, and its reference model, gets fresh value objects)",
        "array-valued results are compared with numpy.allclose (rtol 1e-9)",
    ]
    chunk = 6
    item_timeout = 600

    def families(self, tier):
        P = pool(tier)
        TP = triple_pool(tier)
        WP_ = wrapped_pool(tier)

        def lists():
            for a in P:
                yield ("L", (a,))
            for a in P:
                for b in P:
                    yield ("L", (a, b))

        def triples():
            for t in itertools.product(TP, repeat=3):
                yield ("L", t)

        def wrapped():
            for n in range(1, MAX_LIST_LEN + 1):
                for t in itertools.product(WP_, repeat=n):
                    yield ("L", t)

        def helpers():
            for s in helper_inputs():
                for prefix in PREFIXES:
                    yield ("H", "wrap_in_cse", s, prefix, None)
                    for scope in SCOPES:
                        yield ("H", "make_common_subexpression", s, prefix, scope)
            for s in helper_inputs():
                if not has_wrapper(s):
                    continue
                for prefix in PREFIXES:
                    for scope in SCOPES[1:]:
                        for mode in FRESH_MODES:
                            yield ("H", "make_common_subexpression", s, prefix, scope, mode)

        def histories():
            for name, (_, specs) in SCENARIOS.items():
                for envset in ENVSETS:
                    if envset == "arrays" and name.startswith("boundary-"):
                        continue                    # no arithmetic on x, y in these scenarios
                    if envset == "arrays" and tier == "quick" \
                            and name not in ARRAY_SCENARIOS_QUICK:
                        continue
                    for i in range(len(specs)):
                        for kind in KINDS_B:
                            yield ("B", name, (i, kind), envset)

        def wide():
            for n in WIDE_WIDTHS[tier]:
                yield ("L", tuple(wide_inputs(n)[0]))

        def live():
            for n in WIDE_WIDTHS[tier]:
                for kinds in live_kind_pairs(tier):
                    yield ("W", n, kinds)

        return [("live", live), ("wide", wide),
                ("histories", histories), ("helpers", helpers), ("wrapped", wrapped),
                ("pairs", lists), ("triples", triples)]

    def check_item(self, family, item, tier):
        r = Res()
        if item[0] == "H":
            check_helper(item, r)
            return r
        if item[0] == "W":
            explore_live(item[1], tuple(item[2]), r)
            return r
        if item[0] == "B":
            envset = item[3] if len(item) > 3 else "numbers"
            wtier = item[4] if len(item) > 4 else tier   # a witness carries the tier it was found in
            depth = (BFS_DEPTH_ARRAYS if envset == "arrays" else BFS_DEPTH)[wtier]
            explore_histories(item[1], tuple(item[2]), depth, r, envset)
            for f in r.fails:
                f["witness"] = ("B", item[1], item[2], envset, wtier)
            return r
        specs = tuple(item[1])
        only = item[2] if len(item) > 2 else None        # a minimised witness names its tagger
        if ctx_for(specs).asserted or any(n[0] == WRAP for s in specs for n in nodes(s)):
            r.keys.append(specs)
        taggers = (only,) if only is not None else (
            TAGGERS + (HIST_PROTOCOLS if family in PROTOCOL_FAMILIES else ()))
        hist_kinds = set()
        verdicts = {}
        for tagger in taggers:
            for kind, detail in check_list(specs, tagger, res=r, verdicts=verdicts):
                if tagger == "hist":
                    hist_kinds.add(kind)
                elif tagger in HIST_PROTOCOLS and only is None and kind in hist_kinds:
                    continue        # the same failure as with the standard order: reported once
                m = minimise(specs, kind, tagger)
                r.fail(kind, list_signature(kind, m),
                       f"[{tagger}] in [{', '.join(show(s) for s in specs)[:1500]}]: {detail}",
                       witness=("L", m, tagger))
        return r


CHECK = C12()

"""C13 -- generated Python code computes what the evaluator computes.

Engine A over the Python-expressible fragment.  Four translation paths:
  compile      pymbolic.compile(e, listed) -> callable (argument order, pickle round trip)
  ast          to_python_ast(e) -> compile()/eval
  func         to_evaluatable_python_function(e, name) -> exec -> keyword-only call
  import       ASTToPymbolic()(to_python_ast(e)) -> tree
Oracle: vf.refsem on the full box (value or exception class).
"""
from __future__ import annotations

import ast
import itertools
import pickle
from fractions import Fraction

from vf import gen, refsem
from vf.checks.c06 import denumpy, ac_flatten
from vf.envs import base_env
from vf.gen import Ctor
from vf.localise import localise
from vf.run import Check, Res
from vf.spec import C, T, V, build, show, to_spec, variables_of, walk

TAGS = ("Call", "CallWithKwargs", "Subscript", "Lookup", "Sum", "Product", "Quotient",
        "FloorDiv", "Remainder", "Power", "LeftShift", "RightShift", "BitwiseNot", "BitwiseOr",
        "BitwiseXor", "BitwiseAnd", "Comparison", "LogicalNot", "LogicalOr", "LogicalAnd", "If",
        "Min", "Max")
FRAG = gen.ctors(tags=TAGS, names=("tuple2", "tuple1", "list2"))
REDUCED9 = [c for c in FRAG if c.name in (
    "Call1", "Subscript", "Sum2", "Product2", "Quotient", "Power", "BitwiseNot", "LogicalNot",
    "If")]
REDUCED = [c for c in FRAG if c.name in (
    "Call1", "CallKw11", "Subscript", "Lookup", "Sum2", "Product3", "Quotient", "FloorDiv",
    "Remainder", "Power", "RightShift", "BitwiseNot", "BitwiseOr2", "BitwiseAnd2", "Cmp<",
    "Cmp==", "LogicalNot", "LogicalAnd2", "LogicalOr2", "If", "Max2", "tuple2")]

FILL = dict(gen.DEFAULT_FILL)
FILL["b"] = [V("p"), V("q"), C(True)]

NARY_ASSOC = ("Sum", "Product", "BitwiseOr", "BitwiseXor", "BitwiseAnd", "LogicalOr", "LogicalAnd")
BOOL_TAGS = ("Comparison", "LogicalNot", "LogicalOr", "LogicalAnd")
BOX = (-2, 1, 3, Fraction(1, 2))

# fragment boundary of each path: node tags its mapper rejects with NotImplementedError by design
AST_REFUSED = {"Comparison", "Min", "Max", "CommonSubexpression", "Substitution", "Derivative",
               "Wildcard", "DotWildcard", "StarWildcard", "FunctionSymbol", "array"}
IMPORT_REFUSED = AST_REFUSED | {"LogicalOr", "LogicalAnd", "list"}
EXPECTED_REFUSALS = {"compile": set(), "ast": AST_REFUSED, "func": AST_REFUSED,
                     "import": IMPORT_REFUSED}


def is_boolean(s):
    if s[0] == "bool":
        return True
    if s[0] == "Variable":
        return s[1][1] in ("p", "q")
    return s[0] in BOOL_TAGS


def well_typed(s):
    """Children of LogicalOr/LogicalAnd are boolean-typed (the evaluator yields a truth value
    where Python's and/or yield an operand; on booleans the two coincide)."""
    for c in walk(s):
        if c[0] in ("LogicalOr", "LogicalAnd"):
            if not all(is_boolean(k) for k in c[1][1:]):
                return False
    return _containers_ok(s, True)


def _containers_ok(s, allowed):
    """tuples / lists are values only at top level, as call arguments, as a subscript index or
    inside another container -- never an operand of an arithmetic / logical operator (int * tuple
    is repetition, which is not associative)."""
    t = s[0]
    if t in ("tuple", "list"):
        if not allowed:
            return False
        return all(_containers_ok(c, True) for c in s[1:])
    if t in ("Call", "CallWithKwargs"):
        ok = _containers_ok(s[1], False)
        ok = ok and all(_containers_ok(c, True) for c in s[2][1:])
        if t == "CallWithKwargs":
            ok = ok and all(_containers_ok(v, True) for _, v in s[3][1:])
        return ok
    if t == "Subscript":
        return _containers_ok(s[1], False) and _containers_ok(s[2], True)
    if not t[0].isupper():
        return True
    for c in s[1:]:
        if isinstance(c, tuple) and c and isinstance(c[0], str):
            if c[0] == "tuple" and t not in ("Subscript",):
                # payload tuple of an n-ary node: its members are operands
                if not all(_containers_ok(k, False) for k in c[1:]):
                    return False
            elif not _containers_ok(c, False):
                return False
    return True


def no_cse(s):
    return not any(c[0] == "CommonSubexpression" for c in walk(s))


def hashable(s):
    return not any(c[0] in ("list", "array") for c in walk(s) if c is not s)


def envs_for(spec):
    names = [v for v in variables_of(spec)]
    special = base_env()
    free = [n for n in names if n not in special]
    doms = [(True, False) if n in ("p", "q") else BOX for n in free]
    for vals in itertools.product(*doms):
        env = base_env()
        env.update(zip(free, vals))
        yield {n: env[n] for n in names}


def orderings(names, tier):
    """Listed-variable selections: (listed tuple, given-as-Variable flags)."""
    names = sorted(names)
    out = [()]
    if tier == "quick" or len(names) > 3:
        if names:
            out.append(tuple(reversed(names)))
            out.append((names[-1],))
            if len(names) > 2:
                out.append((names[1],))
    else:
        for k in range(1, len(names) + 1):
            out.extend(itertools.permutations(names, k))
    return out


# {{{ the four paths: each returns a callable env -> value (or raises at build time)

def build_compile(expr, listed, as_var):
    import pymbolic
    import pymbolic.primitives as p
    lv = [p.Variable(n) if (as_var and i % 2 == 0) else n for i, n in enumerate(listed)]
    return pymbolic.compile(expr, lv)


def call_compiled(fn, listed, env):
    rest = sorted(n for n in env if n not in listed)
    return fn(*[env[n] for n in listed], *[env[n] for n in rest])


def build_ast(expr):
    from pymbolic.interop.ast import to_python_ast
    node = to_python_ast(expr)
    # the nodes carry no ctx / line numbers: go through source text like the library's own
    # to_evaluatable_python_function does
    code = compile(ast.unparse(node), "<c13-ast>", "eval")
    return lambda env: eval(code, dict(env))  # noqa: S307


def build_func(expr):
    from pymbolic.interop.ast import to_evaluatable_python_function
    src = to_evaluatable_python_function(expr, "fn")
    ns = {}
    exec(src, ns)  # noqa: S102
    fn = ns["fn"]
    return lambda env: fn(**env)


_SHARED_IMPORTER = []


def build_import(expr):
    """Import back with a fresh importer AND with one importer instance that lives as long as
    the worker process (the trees it saw earlier have been freed): both must agree."""
    from pymbolic.interop.ast import ASTToPymbolic, to_python_ast
    fresh = ASTToPymbolic()(to_python_ast(expr))
    if not _SHARED_IMPORTER:
        _SHARED_IMPORTER.append(ASTToPymbolic())
    shared = _SHARED_IMPORTER[0](to_python_ast(expr))
    if to_spec(shared) != to_spec(fresh):
        raise InstanceHistory(f"a long-lived ASTToPymbolic instance returned {show(to_spec(shared))}"
                              f", a fresh one {show(to_spec(fresh))}")
    return fresh


class InstanceHistory(Exception):
    pass

# }}}


def refused_ok(path, spec):
    tags = {c[0] for c in walk(spec)}
    return bool(tags & EXPECTED_REFUSALS[path])


PATHS = ("compile", "ast", "func", "import")


def _py_number(a):
    """The Python number a numpy scalar stands for (longdouble.item() is a longdouble again)."""
    import numpy as np
    v = a.item()
    if isinstance(v, np.complexfloating):
        return complex(v)
    if isinstance(v, np.floating):
        return float(v)
    return v


def _close(a, b):
    """Exact for ints / Fractions / bools; float results (they only arise from int / int and
    negative powers) may differ by re-association of an n-ary sum/product: 1e-9 relative."""
    import math

    import numpy as np
    # a numpy scalar stands for the Python number of its kind (generated code holds literals)
    if isinstance(a, np.generic):
        a = _py_number(a)
    if isinstance(b, np.generic):
        b = _py_number(b)
    if isinstance(a, (tuple, list)) and type(a) is type(b) and len(a) == len(b):
        return all(_close(x, y) for x, y in zip(a, b))
    if isinstance(a, float) or isinstance(b, float):
        if type(a) is not type(b):
            return False        # float vs exact: a constant's type was changed on the way
        try:
            return math.isclose(a, b, rel_tol=1e-9, abs_tol=1e-12) or (a != a and b != b)
        except TypeError:
            return False
    if isinstance(a, (int, bool)) and isinstance(b, (int, bool)) and type(a) is not type(b):
        return False            # True vs 1
    if isinstance(a, complex) or isinstance(b, complex):
        try:
            return abs(a - b) <= 1e-9 * max(1.0, abs(a))
        except TypeError:
            return False
    return refsem.values_equal(a, b)


def outcomes_close(a, b):
    if a[0] != b[0]:
        return False
    if a[0] == "err":
        return a[1] == b[1]
    return _close(a[1], b[1])


def check_paths(spec, tier, r=None, only=None):
    """-> {path: (kind, detail)} for every path that fails (paths are judged independently)."""
    out = {}
    if not well_typed(spec):
        return out
    try:
        expr = build(spec)
    except Exception:  # noqa: BLE001
        return out
    names = variables_of(spec)
    envs = list(envs_for(spec))
    refs = [refsem.outcome(refsem.evaluate, spec, dict(e)) for e in envs]
    if any(o[0] == "err" and o[1] == "NotImplementedError" for o in refs):
        return out
    any_ok = any(o[0] == "ok" for o in refs)
    if r is not None and any_ok:
        r.keys.append(spec)

    def compare(path, run, label=""):
        for e, ref in zip(envs, refs):
            if refsem.is_skip(ref) or (ref[0] == "err" and ref[1] == "TypeError"):
                continue        # too big / ill-typed environment for this tree
            got = refsem.outcome(run, dict(e))
            if r is not None:
                r.evals += 1
            if ref[0] == "err" and got[0] == "err" and "TypeError" in (ref[1], got[1]):
                continue        # ill-typed environment: which error surfaces first is order-dependent
            if not outcomes_close(ref, got):
                vals = {k: v for k, v in e.items() if k not in base_env()}
                return (f"{path}:value", f"{label} at {vals}: expected "
                        f"{refsem.show_outcome(ref)} got {refsem.show_outcome(got)}")
        return None

    def build_path(path, fn, *args):
        try:
            return "ok", fn(*args)
        except NotImplementedError as e:
            if refused_ok(path, spec):
                if r is not None:
                    r.count(f"refused_{path}")
                return "refused", None
            return "fail", (f"{path}:unexpected-refusal", f"NotImplementedError: {e}")
        except RecursionError:
            raise
        except Exception as e:  # noqa: BLE001
            return "fail", (f"{path}:build-raises:{type(e).__name__}", f"{type(e).__name__}: {e}")

    def do_compile():
        for oi, listed in enumerate(orderings(names, tier)):
            st, fn = build_path("compile", build_compile, expr, listed, oi % 2 == 1)
            if st == "fail":
                return fn[0], f"compile(e, {list(listed)}): {fn[1]}"
            f = compare("compile", lambda env, fn=fn, listed=listed: call_compiled(fn, listed, env),
                        f"compile(e, {list(listed)})")
            if f:
                return f
            if oi == 0 or tier == "thorough":
                protos = (range(2, pickle.HIGHEST_PROTOCOL + 1) if oi == 0
                          else (pickle.HIGHEST_PROTOCOL,))
                for proto in protos:
                    try:
                        fn2 = pickle.loads(pickle.dumps(fn, proto))
                    except RecursionError:
                        raise
                    except Exception as e:  # noqa: BLE001
                        return (f"compile:pickle-raises:{type(e).__name__}",
                                f"pickle protocol {proto}: {type(e).__name__}: {e}")
                    f = compare("compile",
                                lambda env, fn2=fn2, listed=listed: call_compiled(fn2, listed, env),
                                f"pickled (protocol {proto}) compile(e, {list(listed)})")
                    if f:
                        return ("compile:pickled-value", f[1])
        return None

    def do_simple(path, builder, label):
        st, fn = build_path(path, builder, expr)
        if st == "fail":
            return fn
        if st == "ok":
            return compare(path, fn, label)
        return None

    def do_import():
        st, back = build_path("import", build_import, expr)
        if st == "fail":
            return back
        if st == "ok":
            bs = to_spec(back)
            if ac_flatten(bs, NARY_ASSOC) != ac_flatten(denumpy(spec), NARY_ASSOC):
                for e, ref in zip(envs, refs):
                    if refsem.is_skip(ref) or (ref[0] == "err" and ref[1] == "TypeError"):
                        continue
                    got = refsem.outcome(refsem.evaluate, to_spec(back, ordered=True), dict(e))
                    if not outcomes_close(ref, got):
                        return ("import:value", f"ASTToPymbolic(to_python_ast(e)) = {show(bs)}: "
                                f"expected {refsem.show_outcome(ref)} got "
                                f"{refsem.show_outcome(got)}")
                return ("import:tree", f"ASTToPymbolic(to_python_ast(e)) = {show(bs)} differs "
                        "from the input (after flattening of the associative n-ary operators)")
        return None

    ast_ok = hashable(spec) and spec[0] != "list"
    jobs = {
        "compile": do_compile,
        "ast": (lambda: do_simple("ast", build_ast, "eval(unparse(to_python_ast(e)))"))
        if ast_ok else None,
        "func": (lambda: do_simple("func", build_func,
                                   "to_evaluatable_python_function(e)(**env)"))
        if ast_ok else None,
        "import": do_import if ast_ok else None,
    }
    for path in PATHS:
        if only is not None and path != only:
            continue
        job = jobs[path]
        if job is None:
            continue
        f = job()
        if f:
            out[path] = f
    return out


class C13(Check):
    pid = "C13"
    level = "exploration"
    rule = ("bounded-exhaustive over the Python-expressible fragment: every constructor shape with "
            "every leaf combination (depth2), every well-typed (parent, position, child) nesting "
            "(nest2), three-level chains (quick: 9 representative shapes; thorough: 22), each through the four translation paths, over the full box "
            "{-2,1,3,1/2}^vars x {True,False}^boolean vars; 7 variable-name alphabets (case, prefixes, "
            "digits, underscores) under non-symmetric shapes; negative int / float / numpy constants "
            "(float64 int64 float32 int8 bool float16 longdouble) in every operand role (-0.0 included); sums, products, bitwise nodes, calls and subscripts "
            "with 65 / 100 / 150 (thorough 33..200) operands each of which changes the value; "
            "non-integer constant exponents over 5 bases (negative points give complex values); "
            "summands -1*b*c of three and more factors at every position; and / or / if whose "
            "deciding operand precedes one that raises; compile() additionally with every "
            "ordered selection of listed variables (thorough, <=3 free variables) given as names "
            "and Variables, and a pickle round trip under protocols 2..5. Non-trivial = the "
            "reference yields a value in some environment; distinct = distinct trees.")
    assumptions = [
        "LogicalOr/LogicalAnd only get boolean-typed operands (comparisons, logical nodes, "
        "booleans): the evaluator returns a truth value where Python's and/or return an operand",
        "the fragment of each path is what its mapper does not reject with NotImplementedError; "
        "the expected rejections are tabulated (EXPECTED_REFUSALS), any other refusal is a "
        "violation",
        "lists are only sent through compile() (the AST paths memoize on the expression); tuples "
        "and lists occur at top level, as call arguments, subscript indices and container "
        "members, not as operands of operators",
        "environments in which the reference raises TypeError (ill-typed for that tree, e.g. a "
        "Fraction under a shift) are skipped: which of several errors surfaces first depends on "
        "the evaluation order of an n-ary fold, which the statement does not fix",
        "float-valued results (int / int, negative powers) are compared with relative tolerance "
        "1e-9: generated code may associate an n-ary sum/product differently",
    ]
    chunk = 30

    # names whose plain order and case-folded order differ, that differ in case only, that are
    # prefixes of each other or carry digits / underscores: the free variables a caller does not
    # list become the remaining parameters "in name order"
    NAMINGS = (("a", "B"), ("xA", "x_1"), ("x", "X"), ("Z", "a", "_b"), ("x1", "x10", "x2"),
               ("ab", "a", "abc"), ("B", "a", "C"))

    def gen_names(self):
        for names in self.NAMINGS:
            vs = [V(n) for n in names]
            a, b = vs[0], vs[1]
            c = vs[2] if len(vs) > 2 else C(7)
            for t in (("Sum", T(a, ("Product", T(C(-2), b)))), ("Quotient", a, b),
                      ("Power", a, b), ("If", ("Comparison", a, ("str", "<"), b), a,
                                        ("Product", T(b, C(3)))),
                      ("Sum", T(a, ("Product", T(C(2), b)), ("Product", T(C(5), c)))),
                      ("Call", V("f"), T(a, b, c)), ("Subscript", V("arr"), T(b, a)),
                      ("FloorDiv", ("Sum", T(a, C(10))), ("Sum", T(b, c)))):
                yield ("t", t)

    FLOATS = (0.1 + 0.2, 1.1 * 3, 1e16 + 2.0, 0.7 + 0.1, 123456789.12345678, 5e-324, 1.7976931348623157e308, 2.2250738585072014e-308, 1e15, 1e16, 1e22, 1e-7, 1e23, 6.02e23, 0.1)

    def gen_floats(self):
        """constants whose shortest repr needs 17 significant digits, denormals, the largest double:
        the generated source must hold them digit for digit (values are compared exactly here)"""
        x = V("x")
        for f in self.FLOATS:
            c = C(f)
            for t in (c, ("Sum", T(x, c)), ("Product", T(c, x)), ("Quotient", x, c),
                      ("Comparison", x, ("str", "<"), c), ("If", ("Comparison", x, ("str", "<"), c), c, x),
                      ("Call", V("f"), T(c)), ("Subscript", V("arr"), T(c, x))):
                yield ("t", t)

    def gen_fracpow(self):
        """non-integer constant exponents (the box has negative values: complex results)"""
        x, y = V("x"), V("y")
        bases = (x, ("Sum", T(x, C(1))), ("Product", T(x, y)), ("Product", T(C(-1), x)),
                 ("Power", x, C(2)))
        for c in (C(0.5), C(1.5), C(-0.5), C(0.25), C(2.5)):
            for b in bases:
                yield ("t", ("Power", b, c))
                yield ("t", ("Sum", T(("Power", b, c), y)))
                yield ("t", ("Product", T(C(2), ("Power", b, c))))
                yield ("t", ("Power", ("Power", b, c), C(2)))
                yield ("t", ("Quotient", y, ("Power", b, c)))

    def gen_differences(self):
        """a - b*c is Sum(a, Product(-1, b, c)): summands that are products of three and more
        factors beginning with -1, at every position"""
        x, y, z = V("x"), V("y"), V("z")
        negs = (("Product", T(C(-1), y, z)), ("Product", T(C(-1), C(2), z)),
                ("Product", T(C(-1), y, z, x)), ("Product", T(C(-1), ("Sum", T(y, z)), z)),
                ("Product", T(C(-1), y)), ("Product", T(C(-2), y, z)),
                ("Product", T(C(-1), ("Power", y, C(2)), z)))
        for n in negs:
            yield ("t", ("Sum", T(x, n)))
            yield ("t", ("Sum", T(n, x)))
            yield ("t", ("Sum", T(x, n, y)))
            yield ("t", ("Sum", T(n, n)))
            yield ("t", ("Product", T(C(3), ("Sum", T(x, n)))))
            yield ("t", ("Power", ("Sum", T(x, n)), C(2)))
            yield ("t", ("Call", V("f"), T(("Sum", T(x, n)))))
        for n1, n2 in itertools.product(negs[:4], repeat=2):
            yield ("t", ("Sum", T(x, n1, n2)))

    def gen_shortcircuit(self):
        """the deciding operand of and / or / if comes before one that raises: the evaluator never
        touches the second"""
        x = V("x")
        false_, true_ = ("Comparison", C(0), ("str", "!="), C(0)), ("Comparison", C(0), ("str", "=="), C(0))
        bad = (("Comparison", ("Quotient", x, C(0)), ("str", ">"), C(0)),
               ("Comparison", ("Remainder", x, C(0)), ("str", ">"), C(0)),
               ("Comparison", ("FloorDiv", x, C(0)), ("str", "<"), C(1)),
               ("Call", V("boom"), T()))
        for b in bad:
            yield ("t", ("LogicalAnd", T(false_, b)))
            yield ("t", ("LogicalOr", T(true_, b)))
            yield ("t", ("LogicalAnd", T(true_, false_, b)))
            yield ("t", ("LogicalOr", T(false_, true_, b)))
            yield ("t", ("If", true_, x, b))
            yield ("t", ("If", false_, b, x))
            yield ("t", ("If", ("LogicalAnd", T(false_, b)), C(1), C(2)))
            yield ("t", ("Sum", T(x, ("If", ("LogicalOr", T(true_, b)), C(1), C(2)))))
            yield ("t", ("LogicalNot", ("LogicalAnd", T(false_, b))))

    def gen_wide(self, tier):
        """n-ary nodes with many operands, every one of which changes the value if it is lost."""
        x = V("x")
        for n in ((65, 100, 150) if tier == "quick" else (33, 64, 65, 100, 128, 129, 150, 200)):
            pw = [C(2 ** i) for i in range(n)]
            yield ("t", ("Sum", T(x, *pw)))
            yield ("t", ("Sum", T(*pw, x)))
            yield ("t", ("Product", T(x, *[C(2)] * n)))
            yield ("t", ("Product", T(*[C(2)] * n, x)))
            yield ("t", ("BitwiseOr", T(*pw, x)))
            yield ("t", ("BitwiseXor", T(x, *pw)))
            yield ("t", ("Call", V("f"), T(*[C(i) for i in range(n)])))
            yield ("t", ("Subscript", V("arr"), T(*[C(i % 3) for i in range(n)])))

    def gen_negconsts(self):
        x = V("x")
        for c in (C(-1), C(-2), C(-1.5), C(-0.5), C(-2.0), C(-0.0)):
            for t in (("Power", c, x), ("Power", c, C(2)), ("Power", c, C(0)), ("Power", x, c),
                      ("Power", ("Power", c, x), C(2)), ("Product", T(c, x)),
                      ("Quotient", c, x), ("Quotient", x, c), ("Sum", T(x, c)),
                      ("Sum", T(c, ("Power", c, x))), ("FloorDiv", c, x), ("Remainder", c, x),
                      ("Call", V("f"), T(("Power", c, x))), ("Subscript", V("arr"), c),
                      ("Comparison", c, ("str", "<"), ("Power", c, x))):
                yield ("t", t)
        # numpy scalars only where their arithmetic is Python's (no powers, no division: numpy
        # refuses negative integer powers, answers nan instead of complex and inf instead of
        # ZeroDivisionError -- generated code holds Python literals)
        for c in (("np", "float64", -1.5), ("np", "int64", -2), ("np", "float32", 0.5),
                  ("np", "int8", 3), ("np", "bool", True), ("np", "float16", 0.5),
                  ("np", "longdouble", 1.5)):       # (longdouble.item() is a longdouble again)
            for t in (c, ("Product", T(c, x)), ("Sum", T(x, c)), ("Sum", T(c, ("Product", T(c, x)))),
                      ("Call", V("f"), T(c, x)), ("Subscript", V("arr"), c),
                      ("Comparison", c, ("str", "<"), x), ("If", ("Comparison", x, ("str", "<"), c),
                                                            c, x)):
                yield ("t", t)

    def families(self, tier):
        leaves = [V("x"), V("y"), C(2), C(-1), C(2.5), C(True)]
        fams = [
            ("depth2", lambda: (("t", s) for s in gen.depth2(FRAG, leaves, FILL))),
            ("nest2", lambda: (("t", s) for _, s in gen.nest2(FRAG, FRAG, FILL)
                               if well_typed(s))),
            ("argorder", self.gen_argorder),
            # equal-but-differently-typed bare constants in one tree (the composites around them
            # differ in their variable: == composites are one memo key by design)
            ("typed-twins", lambda: (("t", s) for s in gen.twin_trees(
                gen.TYPED_TWINS, V("x"), V("y")) if well_typed(s) and no_cse(s))),
            ("variable-names", self.gen_names),
            ("negative-constants", self.gen_negconsts),
            ("wide", lambda: self.gen_wide(tier)),
            ("float-precision", self.gen_floats),
            ("fractional-powers", self.gen_fracpow),
            ("differences", self.gen_differences),
            ("short-circuit", self.gen_shortcircuit),
            ("hash-twins", lambda: (("t", s) for s in gen.twin_trees()
                                    if well_typed(s) and no_cse(s))),
            ("bushy", lambda: (("t", s) for s in self.gen_bushy(tier) if well_typed(s))),
        ]
        red = REDUCED9 if tier == "quick" else REDUCED
        fams.append(("nest3", lambda: (("t", s) for _, s in gen.nest3(red, red, red, FILL)
                                       if well_typed(s))))
        return fams

    BUSHY_Q = ("Sum2", "Product2", "Quotient", "FloorDiv", "Remainder", "Power", "Call1")
    BUSHY_T = ("Sum2", "Product2", "Quotient", "FloorDiv", "Remainder", "Power", "LeftShift",
               "BitwiseAnd2", "Cmp<", "LogicalOr2", "Call1", "BitwiseNot", "LogicalNot", "If")

    def gen_bushy(self, tier):
        """(grandparent, position) x binary parent whose BOTH operands are composite."""
        names = self.BUSHY_Q if tier == "quick" else self.BUSHY_T
        cs = [c for c in FRAG if c.name in names]
        binary = [c for c in cs if len(c.slots) == 2 and c.slots[0] in "eb" and c.slots[1] in "eb"]
        kids = [c(*gen.fill_slots(c, FILL, i)) for i, c in enumerate(cs)]
        kids.append(C(-3))
        for gp in cs:
            for pos in range(len(gp.slots)):
                if gp.slots[pos] not in "eb":
                    continue
                for par in binary:
                    for k1 in kids:
                        for k2 in kids:
                            ch = gen.fill_slots(gp, FILL, 2)
                            ch[pos] = par(k1, k2)
                            yield gp(*ch)

    def gen_argorder(self):
        # expressions with 1..4 free variables whose value depends on the argument order
        vs = [V(n) for n in ("d", "a", "c", "b")]
        yield ("t", ("Sum", T(("Product", T(C(2), vs[0])), vs[1])))
        yield ("t", ("Sum", T(("Product", T(C(2), vs[0])), ("Product", T(C(3), vs[1])), vs[2])))
        yield ("t", ("Sum", T(("Product", T(C(2), vs[0])), ("Product", T(C(3), vs[1])),
                              ("Product", T(C(5), vs[2])), vs[3])))
        yield ("t", ("Quotient", vs[0], ("Sum", T(vs[1], C(5)))))
        yield ("t", ("Power", vs[2], ("Sum", T(vs[3], C(3)))))
        yield ("t", ("Call", V("f"), T(vs[0], vs[1])))
        yield ("t", ("Subscript", V("arr"), T(vs[3], vs[0])))
        yield ("t", ("Sum", T(V("x10"), ("Product", T(C(2), V("x9"))),
                              ("Product", T(C(3), V("x1"))))))

    def check_item(self, family, item, tier):
        r = Res()
        spec = item[1]
        res = check_paths(spec, tier, r)
        for path, (k, _detail) in res.items():
            def fails(s, path=path):
                f = check_paths(s, tier, None, only=path).get(path)
                return f[0] if f else None
            n_nodes = sum(1 for _ in walk(spec))
            if n_nodes > 60:
                # a wide tree: shrinking it operand by operand is quadratic in full checks; the
                # tree is its own witness and is named by its shape
                locs = [(k, f"{k}|wide {spec[0]} with {n_nodes} nodes", spec)]
            else:
                locs = localise(spec, fails)
            if not locs:
                locs = [(k, f"{k}|{show(spec)}", spec)]
            for kk, sig, m in locs:
                f = check_paths(m, tier, None, only=path).get(path)
                d = f[1] if f else ""
                r.fail(kk, sig, f"in {show(spec)}: minimal failing tree {show(m)}: {d}",
                       witness=("t", m))
        return r


CHECK = C13()

"""C06 -- printing an expression and parsing the text gives the expression back.

Engine A over the printable fragment: depth-2 trees, every (parent, position, child) nesting,
three-level chains.  Oracle: parse(str(T)) exists, equals T once nested sums/products are
flattened (strict constant types), has the same reference value on the box, and prints
identically.
"""
from __future__ import annotations

from fractions import Fraction

from vf import gen, refsem
from vf.envs import SPECIAL_NAMES, base_env
from vf.gen import Ctor
from vf.localise import localise
from vf.run import Check, Res
from vf.spec import C, T, V, build, show, to_spec, variables_of

PRINTABLE_TAGS = ("Call", "CallWithKwargs", "Subscript", "Lookup", "Sum", "Product", "Quotient",
                  "FloorDiv", "Remainder", "Power", "LeftShift", "RightShift", "BitwiseNot",
                  "BitwiseOr", "BitwiseXor", "BitwiseAnd", "Comparison", "LogicalNot",
                  "LogicalOr", "LogicalAnd", "If", "Slice")
EXTRA = [
    Ctor("SubscriptS", "Subscript", ("a", "e", "e"),
         lambda ch: ("Subscript", ch[0], ("Slice", T(ch[1], ch[2])))),
    Ctor("SubscriptTS", "Subscript", ("a", "e", "e"),
         lambda ch: ("Subscript", ch[0], T(ch[1], ("Slice", T(ch[2], ("none",)))))),
]
PRINTABLE = gen.ctors(tags=PRINTABLE_TAGS, names=("tuple2", "tuple1"),
                      exclude_names=("Slice0", "Slice1")) + EXTRA

REDUCED14 = [c for c in PRINTABLE if c.name in (
    "Call1", "Subscript", "Lookup", "Sum2", "Product2", "Quotient", "FloorDiv", "Power",
    "LeftShift", "BitwiseNot", "BitwiseAnd2", "Cmp<", "LogicalNot", "LogicalOr2", "If")]

BOX = (-2, 1, 3, Fraction(1, 2))


def ac_flatten(s, tags=("Sum", "Product")):
    """Flatten Sum-in-Sum and Product-in-Product (only those by default), recursively."""
    if not isinstance(s, tuple) or not s or not isinstance(s[0], str):
        return s
    t = s[0]
    if t in ("int", "float", "bool", "complex", "str", "none", "type"):
        return s
    if t in tags and len(s) == 2 and s[1][0] == "tuple":
        out = []
        for c in s[1][1:]:
            c = ac_flatten(c, tags)
            if c[0] == t:
                out.extend(c[1][1:])
            else:
                out.append(c)
        return (t, ("tuple", *out))
    if t in ("map", "dict"):
        return (t, *sorted((k, ac_flatten(v, tags)) for k, v in s[1:]))
    if t == "array":
        return (t, s[1], *[ac_flatten(c, tags) for c in s[2:]])
    return (t, *[ac_flatten(c, tags) for c in s[1:]])


def _nested_same_op(s):
    """Is there a Sum directly inside a Sum in *s*?  (Products come back from the parser as a
    nest of binary ones: a * b * c is read as (a * b) * c, a recorded parser deviation.)"""
    if not isinstance(s, tuple) or not s or not isinstance(s[0], str):
        return False
    if s[0] == "Sum" and len(s) == 2 and s[1][0] == "tuple":
        if any(isinstance(c, tuple) and c and c[0] == s[0] for c in s[1][1:]):
            return True
    return any(_nested_same_op(c) for c in s[1:] if isinstance(c, tuple))


def denumpy(s):
    """A numpy scalar constant prints like the Python number it equals and is read back as that."""
    if not isinstance(s, tuple) or not s or not isinstance(s[0], str):
        return s
    if s[0] == "np":
        return to_spec(s[2])
    if s[0] in ("map", "dict"):
        return (s[0], *[(k, denumpy(v)) for k, v in s[1:]])
    return (s[0], *[denumpy(c) if isinstance(c, tuple) else c for c in s[1:]])


def box_for(spec):
    import itertools
    names = [v for v in variables_of(spec) if v not in SPECIAL_NAMES]
    for vals in itertools.product(BOX, repeat=len(names)):
        env = base_env()
        env.update(zip(names, vals))
        yield env


def values_differ(a, b):
    for env in box_for(a):
        oa = refsem.outcome(refsem.evaluate, a, env)
        ob = refsem.outcome(refsem.evaluate, b, dict(env))
        if oa[0] == "err" and oa[1] == "NotImplementedError":
            return None
        if refsem.is_skip(oa) or refsem.is_skip(ob):
            continue
        if not refsem.outcomes_equal(oa, ob):
            return (env, oa, ob)
    return None


def well_formed(s, in_slice=False) -> bool:
    if s[0] == "none":
        return in_slice
    if s[0] in ("int", "float", "bool", "complex", "str", "type"):
        return True
    if s[0] in ("map", "dict"):
        return all(well_formed(v) for _, v in s[1:])
    if s[0] == "Slice":
        return (all(well_formed(c, True) and c[0] != "Slice" for c in s[1][1:])
                and len(s[1]) >= 3)
    return all(well_formed(c) for c in s[1:] if isinstance(c, tuple) and c
               and isinstance(c[0], str))


def to_text(expr):
    from pymbolic.primitives import Expression
    if isinstance(expr, Expression):
        return str(expr)
    from pymbolic.mapper.stringifier import StringifyMapper
    return StringifyMapper()(expr)


_LONG_LIVED = {}


def instance_history_failure(expr, text, bs):
    from pymbolic.mapper.stringifier import PREC_NONE, StringifyMapper
    from pymbolic.parser import Parser
    from pymbolic.primitives import Expression
    printer = _LONG_LIVED.setdefault("printer", StringifyMapper())
    t2 = printer(expr, PREC_NONE) if isinstance(expr, Expression) else printer(expr)
    if t2 != text:
        return f"a long-lived StringifyMapper prints {t2!r}, a fresh one {text!r}"
    b2 = to_spec(Parser()(text))
    if b2 != bs:
        return (f"the long-lived pymbolic.parse reads {text!r} as {show(bs)}, a fresh Parser as "
                f"{show(b2)}")
    return None


def roundtrip(spec):
    """-> (kind or None, detail)"""
    from pymbolic import parse
    if not well_formed(spec):
        return None, "", None
    try:
        expr = build(spec)
    except Exception:  # noqa: BLE001
        return None, "", None
    try:
        text = to_text(expr)
    except Exception as e:  # noqa: BLE001
        return f"print-raises:{type(e).__name__}", f"str() raised {e!r}", None
    try:
        back = parse(text)
    except RecursionError:
        raise
    except Exception as e:  # noqa: BLE001
        return "noparse", f"str -> {text!r}; parse raised {type(e).__name__}: {e}"[:300], text
    bs = to_spec(back)
    # instance histories: str() makes a fresh printer and pymbolic.parse is ONE long-lived parser;
    # a printer that lives as long as this worker and a parser made for this text must agree
    try:
        h = instance_history_failure(expr, text, bs)
    except RecursionError:
        raise
    except Exception as e:  # noqa: BLE001
        h = f"long-lived printer / fresh parser raised {e!r}"
    if h:
        return "instance-history", h, text
    # the printer writes a sum inside a sum without brackets, so the ORIGINAL is compared in
    # flattened form; the parse result must be ONE n-ary sum, not a nest of binary ones
    if ac_flatten(bs) != ac_flatten(denumpy(spec)) or _nested_same_op(bs):
        vd = None
        try:
            vd = values_differ(spec, bs)
        except RecursionError:
            raise
        except Exception:  # noqa: BLE001
            vd = None
        if vd is not None:
            env, oa, ob = vd
            vals = {k: v for k, v in env.items() if k not in SPECIAL_NAMES}
            return ("tree", f"str -> {text!r} parsed as {show(bs)}; VALUE differs at {vals}: "
                    f"original {refsem.show_outcome(oa)} reparsed {refsem.show_outcome(ob)}", text)
        return "tree", f"str -> {text!r} parsed as {show(bs)} (same value on the box)", text
    try:
        text2 = to_text(back)
    except Exception as e:  # noqa: BLE001
        return f"reprint-raises:{type(e).__name__}", f"str(parse({text!r})) raised {e!r}", text
    if text2 != text:
        return "reprint", f"str -> {text!r}; str(parse(.)) -> {text2!r}", text
    return None, "", text


class C06(Check):
    pid = "C06"
    level = "exploration"
    rule = ("bounded-exhaustive over the printable fragment: every constructor shape with every "
            "leaf combination incl. negative / non-integer / boolean constants (depth2), every "
            "(parent, position, child) nesting (nest2), every three-level chain (nest3; quick: "
            "15 representative shapes, thorough: the whole fragment), every (grandparent, position) x binary "
            "parent with BOTH operands composite over 6 (quick) / 15 (thorough) shapes; hash-colliding and "
            "typed twin constants in sibling subtrees; 21 names that begin with a keyword or literal "
            "spelling / differ in case / carry digits, 7 numpy scalar constants and 15 float constants "
            "(17 significant digits, denormal, largest, exponent switch-over) in 16 contexts, "
            "also as attribute, function and keyword names; sums, calls, subscripts and tuples with "
            "65 / 300 (thorough .. 700) operands. Each tree is printed, "
            "parsed, compared after Sum/Product flattening with strict constant types, "
            "re-printed. Non-trivial = the printed text contains an operator or bracket, "
            "distinct = distinct printed texts.")
    assumptions = [
        "degenerate arities (0/1-child sums, products and slices) are not part of the printable "
        "fragment; a None hole only occurs inside a Slice; a Slice is not a bound of another Slice",
        "a StringifyMapper that lives as long as the worker process must print what str() prints, "
        "and a fresh Parser must read what the long-lived pymbolic.parse reads (instance history = "
        "the items this worker handled before)",
        "a numpy scalar constant prints like the Python number it equals and is expected back as "
        "that number",
        "value comparison (only used to classify a structural mismatch) runs on the box "
        "{-2, 1, 3, 1/2}^vars",
    ]
    chunk = 100

    def families(self, tier):
        leaves = [V("x"), V("y"), C(2), C(-1), C(2.5), C(-0.5), C(True), C(0)]
        fams = [
            ("depth2", lambda: (("t", s) for s in gen.depth2(PRINTABLE, leaves))),
            ("nest2", lambda: (("t", s) for _, s in gen.nest2(PRINTABLE, PRINTABLE))),
            ("nest2-negconst", self.gen_negconst),
        ]
        fams.append(("bushy", lambda: (("t", s) for s in self.gen_bushy(tier))))
        # constants that collide under hash() (-1/-2, 0/2**61-1) or are == with another type, in
        # sibling subtrees (a memo or table keyed by hash / == would print one for the other)
        fams.append(("hash-twins", lambda: (("t", s) for s in gen.twin_trees())))
        fams.append(("typed-twins", lambda: (("t", s) for s in gen.twin_trees(
            gen.TYPED_TWINS, V("x"), V("y")))))
        fams.append(("names-and-numpy", self.gen_names))
        fams.append(("wide", lambda: self.gen_wide(tier)))
        if tier == "quick":
            fams.append(("nest3", lambda: (("t", s) for _, s in
                                           gen.nest3(REDUCED14, REDUCED14, REDUCED14))))
        else:
            fams.append(("nest3", lambda: (("t", s) for _, s in
                                           gen.nest3(PRINTABLE, PRINTABLE, PRINTABLE))))
        return fams

    # variable / attribute / function / keyword names that begin with a keyword or a literal
    # spelling, differ in case only, carry digits or underscores; numpy scalar constants
    NAMES = ("not_done", "or_mask", "and_", "if_", "else_x", "nota", "NaN", "nan", "inf", "Truex",
             "True_", "False1", "e1", "E3", "j", "x_1", "_x", "aB", "Ab", "x1e3", "d_not")
    NP = (("np", "float64", 1.5), ("np", "int64", 2), ("np", "float32", 0.5), ("np", "int8", -3),
          ("np", "float64", -2.5), ("np", "bool", True), ("np", "float64", 1e20))

    def gen_wide(self, tier):
        """n-ary nodes and argument lists with many operands (printing and parsing are loops or
        recursions over them)."""
        for n in ((65, 300) if tier == "quick" else (65, 129, 300, 700)):
            ops = [V(f"v{i % 11}") if i % 4 else C(i) for i in range(n)]
            ops2 = [("Product", T(C(2), o)) if i % 5 == 0 else o for i, o in enumerate(ops)]
            yield ("t", ("Sum", T(*ops)))
            yield ("t", ("Sum", T(*ops2)))
            yield ("t", ("Call", V("f"), T(*ops)))
            yield ("t", ("Subscript", V("arr"), T(*ops)))
            yield ("t", ("Power", ("Sum", T(*ops)), C(2)))
            yield ("t", ("tuple", *ops))

    # floats whose shortest repr needs 17 digits, extreme exponents, the switch-over points of the
    # exponent notation
    FLOATS = (0.1 + 0.2, 1.1 * 3, 1e16 + 2.0, 0.7 + 0.1, 123456789.12345678, 5e-324, 1.7976931348623157e308, 2.2250738585072014e-308, 1e15, 1e16, 1e22, 1e-7, 1e23, 6.02e23, 0.1)

    def gen_names(self):
        x = V("x")
        specials = [V(n) for n in self.NAMES] + list(self.NP) + [C(f) for f in self.FLOATS]
        for L in specials:
            for t in (L, ("Sum", T(L, x)), ("Product", T(C(2), L)), ("Power", L, C(2)),
                      ("Power", C(2), L), ("Quotient", x, L), ("Call", V("f"), T(L)),
                      ("Subscript", V("arr"), L), ("Subscript", V("arr"), T(L, x)),
                      ("CallWithKwargs", V("f"), T(L), ("map", ("k", L), ("a", x))),
                      ("Comparison", L, ("str", "<"), x), ("If", L, x, L), ("LogicalNot", L),
                      ("LogicalAnd", T(L, x)), ("BitwiseNot", L), ("tuple", L, x)):
                yield ("t", t)
        # the empty tuple and one-element tuples as elements of tuples, in every position
        e0, e1 = ("tuple",), ("tuple", x)
        for tup in (("tuple", e0, x), ("tuple", x, e0), ("tuple", e0, e0), ("tuple", e0),
                    ("tuple", e1, x), ("tuple", e1), ("tuple", ("tuple", e0), x),
                    ("tuple", e0, e1, x)):
            yield ("t", tup)
            yield ("t", ("Call", V("f"), T(tup)))
            yield ("t", ("Call", V("f"), T(tup, x)))
            yield ("t", ("Subscript", V("arr"), tup))
            yield ("t", ("If", x, tup, x))
        for n in self.NAMES:
            yield ("t", ("Lookup", V("obj"), ("str", n)))
            yield ("t", ("Call", V(n), T(x)))
            yield ("t", ("CallWithKwargs", V("f"), T(), ("map", (n, x), ("k", C(1)))))
            yield ("t", ("Sum", T(("Lookup", V(n), ("str", n)), V(n))))

    BUSHY_Q = ("Sum2", "Product2", "Quotient", "FloorDiv", "Power", "Call1")
    BUSHY_T = ("Sum2", "Product2", "Quotient", "FloorDiv", "Remainder", "Power", "LeftShift",
               "BitwiseAnd2", "BitwiseOr2", "Cmp<", "LogicalOr2", "Call1", "BitwiseNot",
               "LogicalNot", "Subscript")

    def gen_bushy(self, tier):
        """(grandparent, position) x binary parent whose BOTH operands are composite: the middle
        node is printed between two parenthesised / call-terminated operands."""
        names = self.BUSHY_Q if tier == "quick" else self.BUSHY_T
        cs = [c for c in PRINTABLE if c.name in names]
        binary = [c for c in cs if c.slots == ("e", "e") or c.slots == ("b", "b")]
        kids = [c(*gen.fill_slots(c, None, i)) for i, c in enumerate(cs)]
        for gp in cs:
            for pos in range(len(gp.slots)):
                for par in binary:
                    for k1 in kids:
                        for k2 in kids:
                            ch = gen.fill_slots(gp, None, 2)
                            ch[pos] = par(k1, k2)
                            yield gp(*ch)

    def gen_negconst(self):
        # every (parent, position) with a negative / fractional / boolean constant child and with
        # a product that starts with a negative constant (the parser's form of negation)
        kids = [C(-1), C(-2), C(-2.5), C(1.5), C(True), C(False), C(0), C(-0.0),
                ("Product", T(C(-1), V("x"))), ("Product", T(C(-2), V("x"), V("y"))),
                ("Sum", T(V("x"), ("Product", T(C(-1), V("y"))))), C(1e20), C(1e-7)]
        for pc in PRINTABLE:
            for pos in range(len(pc.slots)):
                if pc.slots[pos] not in ("e", "b"):
                    continue
                for k in kids:
                    ch = gen.fill_slots(pc, None, 1)
                    ch[pos] = k
                    yield ("t", pc(*ch))

    def check_item(self, family, item, tier):
        r = Res()
        spec = item[1]
        r.evals = 1
        k, detail, text = roundtrip(spec)
        if text is not None and any(ch in text for ch in "+-*/%<>=&|^~([: "):
            r.keys.append(text)
        if k:
            locs = localise(spec, lambda s: roundtrip(s)[0])
            if not locs:
                locs = [(k, f"{k}|{show(spec)}", spec)]
            for kk, sig, m in locs:
                d = roundtrip(m)[1]
                r.fail(kk, sig, f"in {show(spec)}: minimal failing tree {show(m)}: {d}",
                       witness=("t", m))
        return r


CHECK = C06()

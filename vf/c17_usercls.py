"""C17 -- old-style node classes that derive directly from Expression and implement ONLY the
hash/equality backend (get_hash / is_equal): no __getinitargs__, no init_arg_names, not a
dataclass.  The library cannot pickle them (Expression.__getstate__ needs the init args and raises
NotImplementedError) -- that refusal is acceptable; accepting them and shipping the instance
__dict__ (with the cached hash) is not.  Importable in every process.
"""
import pymbolic.primitives as p


class OldTag(p.Expression):
    mapper_method = "map_old_tag"

    def __init__(self, name):
        self.name = name

    def get_hash(self):
        return hash((type(self).__name__, self.name))

    def is_equal(self, other):
        return type(other) is type(self) and self.name == other.name


class OldPair(p.Expression):
    """Backend-only node with an expression child."""
    mapper_method = "map_old_pair"

    def __init__(self, name, child):
        self.name = name
        self.child = child

    def get_hash(self):
        return hash((type(self).__name__, self.name, self.child))

    def is_equal(self, other):
        return (type(other) is type(self) and self.name == other.name
                and self.child == other.child)


class OldTagSub(OldTag):
    """Undecorated subclass of a backend-only node."""

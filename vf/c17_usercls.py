"""C17 -- old-style node classes that derive directly from Expression and implement ONLY the
hash/equality backend (get_hash / is_equal): no __getinitargs__, no init_arg_names, not a
dataclass.  The library cannot pickle them (Expression.__getstate__ needs the init args and raises
NotImplementedError) -- that refusal is acceptable; accepting them and shipping the instance
__dict__ (with the cached hash) is not.  Importable in every process.
"""
import pymbolic.primitives as p


class OldTag(p.Expression):
    mapper_method = "map_old_tag"

    def __init__(self, name):
        self.name = name

    def get_hash(self):
        return hash((type(self).__name__, self.name))

    def is_equal(self, other):
        return type(other) is type(self) and self.name == other.name


class OldPair(p.Expression):
    """Backend-only node with an expression child."""
    mapper_method = "map_old_pair"

    def __init__(self, name, child):
        self.name = name
        self.child = child

    def get_hash(self):
        return hash((type(self).__name__, self.name, self.child))

    def is_equal(self, other):
        return (type(other) is type(self) and self.name == other.name
                and self.child == other.child)


class OldTagSub(OldTag):
    """Undecorated subclass of a backend-only node."""


# {{{ expr_dataclass user nodes with a __post_init__ -- one per kind of thing it can do

from pymbolic.primitives import expr_dataclass  # noqa: E402


@expr_dataclass()
class PostCheck(p.Expression):
    """__post_init__ only validates."""
    child: object

    def __post_init__(self):
        if self.child is None:
            raise ValueError("child needed")


@expr_dataclass()
class PostNormalize(p.Expression):
    """Idempotent normalisation (like Comparison / CommonSubexpression / CallWithKwargs)."""
    child: object
    mode: object = None

    def __post_init__(self):
        if self.mode is None:
            object.__setattr__(self, "mode", "default")
        if isinstance(self.child, list):
            object.__setattr__(self, "child", tuple(self.child))


@expr_dataclass()
class PostWrap(p.Expression):
    """NOT idempotent: keeps its child wrapped in a CommonSubexpression."""
    child: object

    def __post_init__(self):
        object.__setattr__(self, "child", p.CommonSubexpression(self.child, "memo"))


@expr_dataclass()
class PostScale(p.AlgebraicLeaf):
    """NOT idempotent: built from an element offset, stored in bytes."""
    arr: object
    offset: int

    def __post_init__(self):
        object.__setattr__(self, "offset", 8 * self.offset)


@expr_dataclass()
class PostExtend(p.Expression):
    """NOT idempotent on a tuple field: appends a terminator operand."""
    children: tuple

    def __post_init__(self):
        object.__setattr__(self, "children", (*self.children, p.Variable("end")))


@expr_dataclass()
class PostWrapD0(PostWrap):
    """Decorated subclass adding nothing: inherits the transforming __post_init__."""


class PostScaleU(PostScale):
    """Undecorated subclass of a node with a transforming __post_init__."""

# }}}


# {{{ init-args (old-style) classes by NUMBER of init args, the boundary 0 included

def _legacy(name, base, argnames):
    """Old-style node class: __init__ stores the args, __getinitargs__ / init_arg_names declare
    them; hashing and equality come from Expression (get_hash / is_equal over the init args)."""
    def __init__(self, *args):
        if len(args) != len(argnames):
            raise TypeError(f"{name} takes {len(argnames)} arguments")
        for n, v in zip(argnames, args):
            object.__setattr__(self, n, v)

    def __getinitargs__(self):
        return tuple(getattr(self, n) for n in argnames)

    return type(name, (base,), {
        "__init__": __init__, "__getinitargs__": __getinitargs__,
        "init_arg_names": tuple(argnames), "mapper_method": "map_" + name.lower(),
        "__module__": __name__, "__qualname__": name})


LegacyArgs0 = _legacy("LegacyArgs0", p.Expression, ())
LegacyArgs1 = _legacy("LegacyArgs1", p.Expression, ("u",))
LegacyArgs2 = _legacy("LegacyArgs2", p.Expression, ("u", "w"))
LegacyArgs3 = _legacy("LegacyArgs3", p.Expression, ("u", "w", "t"))
# no init args, over a field-less dataclass node (the generated pickling code defers to the
# init-args protocol for such a subclass)
LegacyLeaf0 = _legacy("LegacyLeaf0", p.Leaf, ())


class LegacyArgs0U(LegacyArgs0):
    """Undecorated subclass of the no-argument old-style class."""

# }}}


# {{{ expr_dataclass nodes with a field that is NOT a constructor argument

from dataclasses import field  # noqa: E402


@expr_dataclass()
class InitFalseDerived(p.Expression):
    """field(init=False) derived from the other fields in __post_init__ (idempotent)."""
    child: object
    factor: int
    parity: int = field(default=0, init=False)

    def __post_init__(self):
        object.__setattr__(self, "parity", self.factor % 2)


@expr_dataclass()
class InitFalseFactory(p.Variable):
    """field(init=False) assigned by a factory function after construction."""
    serial: int = field(default=-1, init=False)


def make_init_false_factory(name, serial):
    result = InitFalseFactory(name)
    object.__setattr__(result, "serial", serial)
    return result


@expr_dataclass()
class InitFalseOnly(p.Expression):
    """ALL state outside the constructor: no init field at all."""
    stamp: object = field(default=None, init=False)


def make_init_false_only(stamp):
    result = InitFalseOnly()
    object.__setattr__(result, "stamp", stamp)
    return result

# }}}

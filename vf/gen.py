"""Engine A enumerators: constructor tables, depth-2 trees, (parent, position, child) nestings,
three-level chains, environment boxes.  All generators are deterministic.
"""
from __future__ import annotations

import itertools
from dataclasses import dataclass
from typing import Callable

from vf.spec import (
    NONE, SCOPE_EVAL, SCOPE_EXPR, SCOPE_GLOBAL, C, S, T, V,
)


@dataclass(frozen=True)
class Ctor:
    name: str                    # unique name of the shape, e.g. "Sum3", "Cmp<="
    tag: str                     # node class tag (group)
    slots: tuple[str, ...]       # slot kinds: e(xpr) f(unction) a(ggregate) o(bject) b(oolean-ish)
    make: Callable               # make(list of child specs) -> spec

    def __call__(self, *ch):
        assert len(ch) == len(self.slots), (self.name, ch)
        return self.make(list(ch))


def _n(tag, k, kind="e"):
    return Ctor(f"{tag}{k}", tag, (kind,) * k, lambda ch, tag=tag: (tag, T(*ch)))


def _b(tag, kinds=("e", "e")):
    return Ctor(tag, tag, tuple(kinds), lambda ch, tag=tag: (tag, *ch))


CMP_OPS = ("<", "<=", ">", ">=", "==", "!=")


def _all_ctors():
    out = []
    a = out.append
    # structural
    a(Ctor("Call0", "Call", ("f",), lambda ch: ("Call", ch[0], T())))
    a(Ctor("Call1", "Call", ("f", "e"), lambda ch: ("Call", ch[0], T(ch[1]))))
    a(Ctor("Call2", "Call", ("f", "e", "e"), lambda ch: ("Call", ch[0], T(ch[1], ch[2]))))
    a(Ctor("CallKw11", "CallWithKwargs", ("f", "e", "e"),
           lambda ch: ("CallWithKwargs", ch[0], T(ch[1]), ("map", ("k", ch[2])))))
    a(Ctor("CallKw02", "CallWithKwargs", ("f", "e", "e"),
           lambda ch: ("CallWithKwargs", ch[0], T(), ("map", ("k", ch[1]), ("j", ch[2])))))
    a(Ctor("Subscript", "Subscript", ("a", "e"), lambda ch: ("Subscript", ch[0], ch[1])))
    a(Ctor("SubscriptT", "Subscript", ("a", "e", "e"),
           lambda ch: ("Subscript", ch[0], T(ch[1], ch[2]))))
    a(Ctor("Lookup", "Lookup", ("o",), lambda ch: ("Lookup", ch[0], S("a"))))
    # arithmetic
    for tag in ("Sum", "Product"):
        a(_n(tag, 2))
        a(_n(tag, 3))
    for tag in ("Quotient", "FloorDiv", "Remainder", "Power", "LeftShift", "RightShift"):
        a(_b(tag))
    a(_b("BitwiseNot", ("e",)))
    for tag in ("BitwiseOr", "BitwiseXor", "BitwiseAnd"):
        a(_n(tag, 2))
        a(_n(tag, 3))
    for op in CMP_OPS:
        a(Ctor("Cmp" + op, "Comparison", ("e", "e"),
               lambda ch, op=op: ("Comparison", ch[0], S(op), ch[1])))
    a(_b("LogicalNot", ("b",)))
    for tag in ("LogicalOr", "LogicalAnd"):
        a(_n(tag, 2, "b"))
        a(_n(tag, 3, "b"))
    a(Ctor("If", "If", ("b", "e", "e"), lambda ch: ("If", *ch)))
    for tag in ("Min", "Max"):
        a(_n(tag, 2))
        a(_n(tag, 3))
    # misc
    a(Ctor("CSE", "CommonSubexpression", ("e",),
           lambda ch: ("CommonSubexpression", ch[0], NONE, SCOPE_EVAL)))
    a(Ctor("CSEp", "CommonSubexpression", ("e",),
           lambda ch: ("CommonSubexpression", ch[0], S("p"), SCOPE_EVAL)))
    a(Ctor("CSEx", "CommonSubexpression", ("e",),
           lambda ch: ("CommonSubexpression", ch[0], NONE, SCOPE_EXPR)))
    a(Ctor("CSEg", "CommonSubexpression", ("e",),
           lambda ch: ("CommonSubexpression", ch[0], S("q"), SCOPE_GLOBAL)))
    a(Ctor("Substitution", "Substitution", ("e", "e"),
           lambda ch: ("Substitution", ch[0], T(S("x")), T(ch[1]))))
    a(Ctor("Derivative", "Derivative", ("e",),
           lambda ch: ("Derivative", ch[0], T(S("x")))))
    a(Ctor("Slice0", "Slice", (), lambda ch: ("Slice", T())))
    a(Ctor("Slice1", "Slice", ("e",), lambda ch: ("Slice", T(ch[0]))))
    a(Ctor("Slice2", "Slice", ("e", "e"), lambda ch: ("Slice", T(ch[0], ch[1]))))
    a(Ctor("Slice2a", "Slice", ("e",), lambda ch: ("Slice", T(NONE, ch[0]))))
    a(Ctor("Slice2b", "Slice", ("e",), lambda ch: ("Slice", T(ch[0], NONE))))
    a(Ctor("Slice3", "Slice", ("e", "e", "e"), lambda ch: ("Slice", T(*ch))))
    a(Ctor("Slice3a", "Slice", ("e",), lambda ch: ("Slice", T(NONE, NONE, ch[0]))))
    a(Ctor("Slice3b", "Slice", ("e", "e"), lambda ch: ("Slice", T(ch[0], NONE, ch[1]))))
    a(Ctor("NaN", "NaN", (), lambda ch: ("NaN", NONE)))
    a(Ctor("NaNf", "NaN", (), lambda ch: ("NaN", ("type", "float"))))
    a(Ctor("Wildcard", "Wildcard", (), lambda ch: ("Wildcard",)))
    a(Ctor("DotWildcard", "DotWildcard", (), lambda ch: ("DotWildcard", S("w"))))
    a(Ctor("StarWildcard", "StarWildcard", (), lambda ch: ("StarWildcard", S("w"))))
    a(Ctor("FunctionSymbol", "FunctionSymbol", (), lambda ch: ("FunctionSymbol",)))
    # containers
    a(Ctor("tuple2", "tuple", ("e", "e"), lambda ch: T(*ch)))
    a(Ctor("tuple1", "tuple", ("e",), lambda ch: T(*ch)))
    a(Ctor("list2", "list", ("e", "e"), lambda ch: ("list", *ch)))
    a(Ctor("array1", "array", ("e", "e"), lambda ch: ("array", (2,), *ch)))
    a(Ctor("array2", "array", ("e", "e"), lambda ch: ("array", (2, 1), *ch)))
    return out


ALL_CTORS = _all_ctors()
CTOR = {c.name: c for c in ALL_CTORS}


def ctors(*, tags=None, names=None, exclude_tags=(), exclude_names=()):
    """Select constructor shapes by node tag and/or shape name (union), minus exclusions."""
    out = []
    for c in ALL_CTORS:
        sel = (tags is None and names is None) \
            or (tags is not None and c.tag in tags) \
            or (names is not None and c.name in names)
        if not sel or c.tag in exclude_tags or c.name in exclude_names:
            continue
        out.append(c)
    return out


# {{{ leaves per slot kind

DEFAULT_FILL = {
    "e": [V("x"), V("y"), V("z"), C(2), C(3)],
    "b": [V("x"), V("y"), V("z"), C(2), C(3)],
    "f": [V("f"), V("g")],
    "a": [V("arr"), V("arr")],
    "o": [V("obj"), V("obj")],
}


def fill_slots(c: Ctor, fill=None, start=0):
    """Fill all slots of *c* with pairwise distinct default leaves (per kind)."""
    fill = fill or DEFAULT_FILL
    counters = {}
    out = []
    for k in c.slots:
        i = counters.get(k, start if k in ("e", "b") else 0)
        pool = fill[k]
        out.append(pool[i % len(pool)])
        counters[k] = i + 1
    return out


def depth2(cs, leaves, fill=None):
    """Every constructor with every combination of *leaves* in its e/b slots (f/a/o slots get
    their default leaf)."""
    fill = fill or DEFAULT_FILL
    for c in cs:
        pools = [leaves if k in ("e", "b") else fill[k][:1] for k in c.slots]
        for combo in itertools.product(*pools):
            yield c(*combo)


def nest2(parents, children, fill=None, child_start=0, parent_start=2):
    """Every (parent ctor, position, child ctor): child with default leaves, the parent's other
    slots with distinct default leaves."""
    fill = fill or DEFAULT_FILL
    for pc in parents:
        for pos in range(len(pc.slots)):
            for cc in children:
                child = cc(*fill_slots(cc, fill, child_start))
                others = fill_slots(pc, fill, parent_start)
                others[pos] = child
                yield (pc.name, pos, cc.name), pc(*others)


def nest3(gps, parents, children, fill=None):
    """Every (grandparent, pos, parent, pos, child) chain."""
    fill = fill or DEFAULT_FILL
    for gc in gps:
        for gpos in range(len(gc.slots)):
            for (pn, ppos, cn), mid in nest2(parents, children, fill, 0, 1):
                others = fill_slots(gc, fill, 2)
                others[gpos] = mid
                yield (gc.name, gpos, pn, ppos, cn), gc(*others)


def full_trees(cs, leaves, depth, fill=None):
    """All complete trees up to *depth* (depth 1 = leaves)."""
    fill = fill or DEFAULT_FILL
    level = list(leaves)
    allt = list(leaves)
    for _ in range(depth - 1):
        new = []
        seen = set(allt)
        for c in cs:
            pools = [allt if k in ("e", "b") else fill[k][:1] for k in c.slots]
            for combo in itertools.product(*pools):
                t = c(*combo)
                if t not in seen:
                    seen.add(t)
                    new.append(t)
        allt = allt + new
        level = new
    return allt

# }}}


# {{{ twins that defeat a memo keyed by hash alone / by == alone

HASH_TWINS = [(C(-1), C(-2)), (C(0), C(2 ** 61 - 1))]        # hash(a) == hash(b), a != b
TYPED_TWINS = [(C(1), C(1.0)), (C(1), C(True)), (C(2), C(2.0)), (C(0), C(False))]   # a == b


def twin_trees(pairs=None, var=None, var2=None):
    """Trees in which two sibling subtrees differ only in one constant of a twin pair (and, if
    *var2* is given, in their variable: then only the bare constants are twins)."""
    var = var or V("x")
    var2 = var2 or var
    for a, b in (pairs or HASH_TWINS):
        ka = [("Sum", T(var, a)), ("Product", T(a, var)), ("Power", var, a), a]
        kb = [("Sum", T(var2, b)), ("Product", T(b, var2)), ("Power", var2, b), b]
        for sa, sb in zip(ka, kb):
            yield T(sa, sb)
            yield T(sb, sa)
            yield ("Sum", T(sa, sb))
            yield ("Product", T(sb, sa))
            la, lb = (C(3), C(3)) if var2 == var else (var, var2)
            yield ("Sum", T(("Product", T(la, sa)), ("Product", T(lb, sb))))
            yield ("CommonSubexpression", ("Sum", T(
                ("CommonSubexpression", sa, NONE, SCOPE_EVAL),
                ("CommonSubexpression", sb, NONE, SCOPE_EVAL))), NONE, SCOPE_EVAL)

# }}}


# {{{ environments

def boxes(names, domain):
    names = list(names)
    for vals in itertools.product(domain, repeat=len(names)):
        yield dict(zip(names, vals))

# }}}

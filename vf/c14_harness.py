"""C14 helper: turn (spec, environments) jobs into one C translation unit, compile it with gcc,
run it, and return the printed values.

Each expression becomes a function  static void tK(T x, T y, T z) { <hoisted CSEs>; PRINT(<expr>); }
``main`` walks a generated job table (function index + argument values chosen by the Python side,
which only schedules environments where the reference value is defined and in range).
"""
from __future__ import annotations

import os
import shutil
import subprocess
import tempfile

PRELUDE = r"""
#include <stdio.h>
#include <math.h>
#include <stdlib.h>
#define min(a,b) ((a)<(b)?(a):(b))
#define max(a,b) ((a)>(b)?(a):(b))
static void p_ll(long long v){printf("i %lld\n", v);}
static void p_d(double v){printf("d %.17g\n", v);}
#define PRINT(e) _Generic((e), double: p_d, float: p_d, long double: p_d, default: p_ll)(e)
typedef %(T)s T;
"""

VARS = ("x", "y", "z")


class CProgram:
    def __init__(self, ctype="long long"):
        self.ctype = ctype
        self.funcs = []      # (assignments [(name, text)], expr text)
        self.jobs = []       # (func index, (vx, vy, vz))

    def add_func(self, assignments, text):
        self.funcs.append((list(assignments), text))
        return len(self.funcs) - 1

    def add_job(self, fi, vals):
        self.jobs.append((fi, tuple(vals)))

    def source(self, only=None):
        out = [PRELUDE.replace("%(T)s", self.ctype)]
        for i, (assigns, text) in enumerate(self.funcs):
            if only is not None and i not in only:
                out.append(f"static void t{i}(T x, T y, T z) {{ (void)x;(void)y;(void)z; }}")
                continue
            body = "".join(f" __auto_type {n} = {t};" for n, t in assigns)
            out.append(f"static void t{i}(T x, T y, T z) {{ (void)x;(void)y;(void)z;{body} "
                       f"PRINT({text}); }}")
        out.append("typedef void (*fn_t)(T, T, T);")
        out.append("static const fn_t fns[] = {" + ", ".join(f"t{i}" for i in
                                                               range(len(self.funcs))) + "};")
        lit = (lambda v: f"{v}LL") if self.ctype == "long long" else (lambda v: repr(float(v)))
        jobs = [j for j in self.jobs if only is None or j[0] in only]
        out.append("static const struct { int f; T a[3]; } jobs[] = {"
                   + ", ".join("{%d, {%s}}" % (f, ", ".join(lit(v) for v in vals))
                               for f, vals in jobs) + ("" if jobs else "{0, {0,0,0}}") + "};")
        out.append("int main(void) { for (unsigned k = 0; k < %d; ++k) "
                   "fns[jobs[k].f](jobs[k].a[0], jobs[k].a[1], jobs[k].a[2]); return 0; }"
                   % len(jobs))
        return "\n".join(out) + "\n", jobs

    def run(self, only=None):
        """-> ("ok", [(job, kind, value)]) or ("compile-error", stderr) or ("run-error", msg)"""
        src, jobs = self.source(only)
        d = tempfile.mkdtemp(prefix="vf_c14_", dir=_scratch())
        try:
            cpath = os.path.join(d, "t.c")
            with open(cpath, "w") as fh:
                fh.write(src)
            exe = os.path.join(d, "t")
            pr = subprocess.run(["gcc", "-O0", "-fwrapv", "-w", "-std=gnu11", "-o", exe, cpath,
                                 "-lm"], capture_output=True, text=True)
            if pr.returncode != 0:
                return "compile-error", pr.stderr[-2000:]
            pr = subprocess.run([exe], capture_output=True, text=True, timeout=60)
            if pr.returncode != 0:
                return "run-error", f"exit status {pr.returncode}"
            lines = pr.stdout.split("\n")
            res = []
            for job, ln in zip(jobs, lines):
                kind, _, val = ln.partition(" ")
                res.append((job, kind, int(val) if kind == "i" else float(val)))
            if len(res) != len(jobs):
                return "run-error", f"{len(res)} results for {len(jobs)} jobs"
            return "ok", res
        finally:
            shutil.rmtree(d, ignore_errors=True)


def _scratch():
    d = os.environ.get("VF_SCRATCH") or os.path.join(tempfile.gettempdir(), "vf_scratch")
    os.makedirs(d, exist_ok=True)
    return d
